"""C07 -- concurrent, lock-free use by several processes behaves like some serial order."""
import itertools
import z3
from .common import *
from ..scn import Scn, Concretiser
from ..sched import SleepBlocked, FP_CACHE
from ..models.fs import Env
from .C12 import values_equal, obs_key

BOUNDS = {"operations": "2 or 3 concurrent operations drawn from write, write_hash, read, read_hash, metadata, remove, remove_hash, exists, list; "
                        "each by its own process (own interpreter state, shared filesystem)",
          "pre-state": "cold (cache directory absent) and warm (key k stored with content W)",
          "data": "blobs A, B, W: uninterpreted byte strings of symbolic length <= 64 (pairwise different when different names are used; "
                  "identical content is the same blob used twice)",
          "schedules": "every interleaving in which control changes hands immediately before a filesystem-changing system call "
                       "(mkdir, rename, unlink, creating open, write ...) or an open for reading, after the running process has "
                       "completed at least one such event; reads/stats through resolved handles and failing directory creations "
                       "are scheduled together with the neighbouring event of the same process",
          "reduction": "sleep sets over recorded path/inode footprints: one representative per Mazurkiewicz trace; no trace is dropped",
          "oracle": "the same operations run one after the other in every order by the same implementation from the same pre-state; the "
                    "concurrent results and the state read back by a fresh process must equal those of at least one order "
                    "(wall-clock timestamps excepted)",
          "outside": "clear / remove_fully (documented multi-step bulk deletions); more than 3 operations; streamed writers; "
                     "schedules that split one process's read-only calls around another's event"}

KEYS = {"k": "k", "j": "other"}
MIN_LEN = [1]


def blob_of(scn, name):
    b = scn.blobs.get(name)
    if b is None:
        existing = list(scn.blobs.values())
        b = scn.blob(name, max_len=64, min_len=MIN_LEN[0])
        for o in existing:
            scn.distinct(b, o)
    return b


def apply(scn, op):
    kind = op[0]
    if kind == "write":
        return scn.write(KEYS[op[1]], scn.whole(blob_of(scn, op[2])))
    if kind == "write_hash":
        return scn.write_hash(scn.whole(blob_of(scn, op[1])))
    if kind == "read":
        return scn.read(KEYS[op[1]])
    if kind == "metadata":
        return scn.metadata(KEYS[op[1]])
    if kind == "remove":
        return scn.remove(KEYS[op[1]])
    if kind == "list":
        return scn.list()
    sri = scn.sri_of(scn.whole(blob_of(scn, op[1])))
    if kind == "read_hash":
        return scn.read_hash(sri)
    if kind == "remove_hash":
        return scn.remove_hash(sri)
    if kind == "exists":
        return scn.exists(sri)
    raise ValueError(op)


def blobs_in(ops, warm):
    names = ["W"] if warm else []
    for op in ops:
        for x in op[1:]:
            if x in ("A", "B", "W") and x not in names:
                names.append(x)
    return names


def prepare(scn, ops, warm):
    # declare every blob in the same order in every run (same seeds, same names)
    for n in ["W", "A", "B"]:
        if n in blobs_in(ops, warm):
            blob_of(scn, n)
    scn.env.short_read_budget = 0
    scn.env.reflink_supported = False
    scn.env.spawn_mode = "eager"
    if warm:
        scn.write("k", scn.whole(blob_of(scn, "W")))


def observe(scn, ops, warm):
    """What a fresh process sees afterwards."""
    scn.restart()
    first = len(scn.log)
    keys = ["k"] + (["j"] if any("j" in op[1:2] for op in ops) else [])
    for key in keys:
        scn.metadata(KEYS[key])
        scn.read(KEYS[key])
    scn.list()
    for n in blobs_in(ops, warm):
        sri = scn.sri_of(scn.whole(blob_of(scn, n)))
        scn.exists(sri)
        scn.read_hash(sri)
    return scn.log[first:]


def same_outcome(ctx, I, a, b, relaxed=False):
    if relaxed and _empty_listing(a) and _only_root_missing(b):
        return True
    if obs_key(I, a) != obs_key(I, b):
        return False
    return values_equal(ctx, I, a, b)


def _empty_listing(out):
    return out.kind == "ok" and isinstance(out.value, VecObj) and len(out.value.items) == 0


def _only_root_missing(out):
    """list() of a cache that has no index directory: exactly one error item."""
    if not (out.kind == "ok" and isinstance(out.value, VecObj) and len(out.value.items) == 1):
        return False
    it = out.value.items[0]
    return isinstance(it, Adt) and it.vname == "Err"


def _and(I, xs):
    r = True
    for x in xs:
        if x is False:
            return False
        r = I._band(r, x)
    return r


def serial(ctx, ops, warm, min_len=1):
    w = ctx.w
    MIN_LEN[0] = min_len
    flavour = ctx.task["flavour"]
    api = "sync" if flavour == "sync" else "async"
    tag = "C07:%s:%s:%s" % (flavour, "warm" if warm else "cold", "|".join("-".join(o) for o in ops))
    blobs, syms = {}, {}
    conc = Scn(w, flavour, api=api)
    conc.blobs, conc.shared_syms = blobs, syms
    ctx.scn = conc
    prepare(conc, ops, warm)
    try:
        procs = conc.par([(lambda p, op=op: apply(p, op)) for op in ops], label=tag)
    except SleepBlocked:
        raise PathEnd()
    par_step = last(conc)
    res_c = [p.log[-1].outcome for p in procs]
    # nothing may crash, hang or panic under any schedule
    for i, r in enumerate(res_c):
        if r.kind in ("panic", "abort", "hang"):
            ctx.expect(False, tag + ":op%d:%s" % (i, r.kind), "operation %d (%s) ends in %s under this schedule: %s" % (i, ops[i][0], r.kind, r.detail),
                       native={"kind": "par_outcome_in", "step": par_step, "proc": i, "allowed": ["ok", "err"]})
    obs_c = observe(conc, ops, warm)
    I = conc.s.I
    # the serial executions, one per order
    orders = list(itertools.permutations(range(len(ops))))
    # try the likeliest order first: the one in which the processes finished
    fin = []
    for t in reversed(conc.last_sched.schedule):
        if t not in fin:
            fin.insert(0, t)
    orders.sort(key=lambda pi: 0 if list(pi) == fin else 1)
    matches = []
    relaxed_matches = []
    seq_scenarios = []
    for pi in orders:
        q = Scn(w, flavour, api=api)
        q.blobs, q.shared_syms = blobs, syms
        prepare(q, ops, warm)
        res_q = {}
        for i in pi:
            res_q[i] = apply(q, ops[i])
        first_obs = len(q.log)
        obs_q = observe(q, ops, warm)
        conds = [same_outcome(ctx, I, res_c[i], res_q[i]) for i in range(len(ops))]
        conds += [same_outcome(ctx, I, a.outcome, b.outcome) for a, b in zip(obs_c, obs_q)]
        m_ = _and(I, conds)
        if m_ is not True and m_ is not False and w.known(m_):
            m_ = True
        matches.append(m_)
        if m_ is not True and any(op[0] == "list" for op in ops) and not warm:
            rc_ = [same_outcome(ctx, I, res_c[i], res_q[i], relaxed=ops[i][0] == "list") for i in range(len(ops))]
            rc_ += [same_outcome(ctx, I, a.outcome, b.outcome) for a, b in zip(obs_c, obs_q)]
            relaxed_matches.append(_and(I, rc_))
        seq_scenarios.append((pi, q))
        if matches[-1] is True:
            break
    if any(m is True for m in matches):
        ctx.expect(True, tag + ":serial", "serialisable")
        return
    syms_ = [m for m in matches if m is not False]
    cond = z3.Or(*syms_) if len(syms_) > 1 else (syms_[0] if syms_ else False)
    n_warm = 1 if warm else 0

    def nat(cz):
        m = ctx.w.model()
        others = []
        for pi, q in seq_scenarios:
            sc = Concretiser(q, m).scenario()
            others.append({"order": list(pi), "scenario": sc})
        return {"kind": "serial_equiv", "par_step": par_step, "orders": others, "first_op_step": n_warm, "n_ops": len(ops)}
    sched = list(conc.last_sched.schedule)
    sig = tag + ":serial"
    if relaxed_matches and any(r is True or (r is not False and w.known(r)) for r in relaxed_matches):
        # the only disagreement: a listing taken while the index directory exists but is still empty
        sig += ":list-sees-empty-index"
    what = "; ".join("%s -> %s" % ("-".join(o), r.kind if r.kind != "err" else err_class(r.value)) for o, r in zip(ops, res_c))
    ctx.expect(cond, sig, "under schedule %s the results (%s) and the state read back afterwards equal those of no serial order" % (sched, what), native=nat)


# --- task lists -------------------------------------------------------------------------------------

W_kA, W_kB, W_jA = ("write", "k", "A"), ("write", "k", "B"), ("write", "j", "A")
PAIRS_WARM = [
    (W_kA, W_kB), (W_kA, W_jA), (W_kA, W_kA),
    (W_kA, ("read", "k")), (W_kA, ("metadata", "k")), (W_kA, ("list",)), (W_kA, ("remove", "k")),
    (W_kA, ("remove_hash", "W")), (W_kA, ("read_hash", "W")),
    (("write", "k", "W"), ("remove_hash", "W")),
    (("remove", "k"), ("read", "k")), (("remove", "k"), ("remove", "k")), (("remove", "k"), ("list",)),
    (("remove_hash", "W"), ("read", "k")), (("remove_hash", "W"), ("exists", "W")), (("remove_hash", "W"), ("read_hash", "W")),
    (("write_hash", "A"), ("write_hash", "A")), (("write_hash", "A"), ("read_hash", "A")), (("write_hash", "W"), ("remove_hash", "W")),
    (("write", "j", "A"), ("write", "j", "B")),        # two writers of a key whose bucket directories do not exist yet
]
PAIRS_COLD = [
    (W_kA, W_kB), (W_kA, W_jA), (W_kA, W_kA), (W_kA, ("read", "k")), (W_kA, ("list",)), (W_kA, ("remove", "k")),
    (("write_hash", "A"), ("write_hash", "A")), (("write_hash", "A"), ("exists", "A")), (W_kA, ("write_hash", "A")),
]
TRIPLES_WARM = [
    (W_kA, W_kB, ("read", "k")), (W_kA, ("remove", "k"), ("read", "k")), (W_kA, W_kB, ("remove", "k")),
    (W_kA, W_jA, ("list",)), (W_kA, ("remove_hash", "W"), ("read", "k")),
]


def tasks(tier, flavours):
    out = []

    def add(fl, ops, warm, budget=None, min_len=1):
        t = dict(module="C07", family="serial", flavour=fl, params=dict(ops=ops, warm=warm, min_len=min_len), witness_every=8)
        if budget:
            t["time_budget"] = budget
            t["max_paths"] = 120000        # cold writer pairs: 17 000 - 40 000 schedules each
        out.append(t)
    for fl in flavours:
        if tier == "quick":
            if fl == "sync":
                for ops in PAIRS_WARM:
                    add(fl, ops, True)
                add(fl, TRIPLES_WARM[1], True)
                for ops in [PAIRS_COLD[3], PAIRS_COLD[4], PAIRS_COLD[5], PAIRS_COLD[6], PAIRS_COLD[7]]:
                    add(fl, ops, False)
            else:
                pick = (0, 3, 6, 9, 12, 15, 18, 19) if fl == "tokio" else (0, 1, 4, 6, 7, 10, 13, 16, 19)
                for i in pick:
                    add(fl, PAIRS_WARM[i], True)
                add(fl, PAIRS_COLD[3], False)
                add(fl, PAIRS_COLD[7], False)
        else:
            for ops in PAIRS_WARM:
                add(fl, ops, True, 3600, 0)
            for ops in PAIRS_COLD:
                add(fl, ops, False, 4 * 3600, 1)
            for ops in TRIPLES_WARM:
                add(fl, ops, True, 4 * 3600, 1)
    # longest first, so that the pool is kept busy
    out.sort(key=lambda t: (0 if (not t["params"]["warm"] and all(o[0].startswith("write") for o in t["params"]["ops"])) else 1))
    return out
