#!/bin/bash
# Build everything the checks need from files on disk only (offline).
set -e
cd "$(dirname "$0")"
export CARGO_NET_OFFLINE=true
mkdir -p build evidence
python3-vt -m mirsym.dump sync async-std tokio >/dev/null
for fl in sync async-std tokio; do
  python3-vt -c "from mirsym.replay import build_runner; build_runner('$fl')"
done
# model self-validation: concrete scenarios through the symbolic engine and the native build must agree
python3-vt -m mirsym.validate sync 60 >/dev/null
python3-vt -m mirsym.validate async-std 30 >/dev/null
python3-vt -m mirsym.validate tokio 30 >/dev/null
echo "setup ok"
