#!/bin/bash
# usage: tools_try_seed.sh <patch.diff> <check ids...> : applies the patch to /repo, runs the checks (quick), undoes it
P=$1; shift
cd /repo && git status --short | grep -q . && { echo "REPO DIRTY"; exit 9; }
git apply --3way "$P" 2>/tmp/apply.err || git apply "$P" 2>>/tmp/apply.err || { echo "PATCH-DOES-NOT-APPLY"; cat /tmp/apply.err | tail -3; git reset -q --hard HEAD; exit 9; }
git reset -q 2>/dev/null
cd /verif
for c in "$@"; do
  out=$(./check $c --tier ${TIER:-quick} 2>&1); rc=$?
  echo "$c rc=$rc $(echo "$out" | grep -c '^VIOLATION') violations; $(echo "$out" | grep -E 'what:|INCONCLUSIVE|MISMATCH|UNREPLAY' | head -3 | cut -c1-220 | tr '\n' '|')"
done
cd /repo && git reset -q --hard HEAD && git status --short | head -3
