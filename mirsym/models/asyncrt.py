"""Async runtime models: futures, executors, spawn_blocking, channels and the async fs surface of
async-std and tokio.  Coroutines (async fn bodies) are *interpreted* from the MIR; only leaf
futures of the runtimes are modelled."""
import re
import z3

from . import TABLE as T
from ..values import *
from ..values import _Moved
from ..interp import BufObj, BytesRef, MutBytesRef, NONE, SOME, OK, ERR, READY, PENDING, STD_ENUMS
from .. import sbytes as sb
from ..sbytes import SBytes
from .core import as_sbytes, peel, mk_vec_u8, mk_pathbuf, RIter, panic, _addv
from . import fs as F
from .fs import wrap, io_err, FsErr, IoError

STD_ENUMS["Poll"] = ["Ready", "Pending"]


class Cx:
    rust_type = "Context"


CX = Cx()


def pin_target(p):
    """Pin<&mut T> / &mut T  ->  the T value."""
    v = p
    while True:
        if isinstance(v, Ref):
            v = v.get()
            continue
        if isinstance(v, Agg) and v.ty in ("Pin", "std::pin::Pin") or (isinstance(v, Agg) and v.ty is not None and str(v.ty).endswith("Pin")):
            v = v.fields[0]
            continue
        return v


def mk_pin(ref):
    return Agg("struct", "Pin", [ref], ["pointer"])


@T.path("std::pin::Pin::new", "core::pin::Pin::new", "std::pin::Pin::new_unchecked", "core::pin::Pin::new_unchecked")
def _pin_new(I, a, d):
    return mk_pin(a[0])


@T.trait("DerefMut", "deref_mut", r"Pin$")
def _pin_deref_mut(I, a, d):
    p = peel(a[0])
    return p.fields[0]


@T.trait("Deref", "deref", r"Pin$")
def _pin_deref(I, a, d):
    p = peel(a[0])
    return p.fields[0]


@T.path("std::pin::Pin::as_mut", "core::pin::Pin::as_mut")
def _pin_as_mut(I, a, d):
    p = peel(a[0])
    return mk_pin(p.fields[0])


@T.path("std::pin::Pin::get_mut", "core::pin::Pin::get_mut", "std::pin::Pin::get_unchecked_mut", "core::pin::Pin::get_unchecked_mut",
        "std::pin::Pin::into_inner", "std::pin::Pin::get_ref")
def _pin_get_mut(I, a, d):
    p = peel(a[0]) if isinstance(a[0], Ref) else a[0]
    return p.fields[0]


@T.path("std::pin::Pin::set", "core::pin::Pin::set")
def _pin_set(I, a, d):
    p = a[0]
    r = p.fields[0]
    old = r.loc.get()
    I.drop_value(old)
    r.loc.set(a[1])
    return UNIT


# ---------------------------------------------------------------------------
# futures

class ModelFuture:
    """A leaf future: completes (Ready) with the result of a thunk the first time it is polled."""
    rust_type = "ModelFuture"

    def __init__(self, thunk, name=""):
        self.thunk = thunk
        self.name = name
        self.done = False

    def poll(self, I, cx):
        if self.done:
            panic("`async fn` resumed after completion")
        self.done = True
        return READY(self.thunk())

    def rust_drop(self, I):
        pass


def poll_any(I, fut_pin, cx):
    """Future::poll on whatever the pin points to."""
    tgt = pin_target(fut_pin)
    if isinstance(tgt, Coroutine):
        return I.run_fn(tgt.body, [fut_pin if isinstance(fut_pin, Agg) else mk_pin(fut_pin), cx])
    if hasattr(tgt, "poll"):
        return tgt.poll(I, cx)
    if isinstance(tgt, BoxV):
        return poll_any(I, mk_pin(Ref(CellLoc(tgt.cell), True)), cx)
    raise Inconclusive("Future::poll on %r" % (tgt,))


@T.trait("Future", "poll")
def _future_poll(I, a, d):
    return poll_any(I, a[0], a[1])


def block_on(I, fut, max_polls=64):
    """Drive a future to completion on the current 'thread'.  Pending means some background task has
    to make progress first; the runtime model runs one and re-polls."""
    cell = Cell(fut)
    pin = mk_pin(Ref(CellLoc(cell), True))
    rt = runtime(I)
    for _ in range(max_polls):
        r = poll_any(I, pin, CX)
        if r.vname == "Ready":
            return r.fields[0]
        if not rt.run_one(I):
            raise Hang("future is Pending and no background task can make progress (lost wake-up)")
    raise Hang("future not ready after %d polls" % max_polls)


def drive_io(session, op, href, *args):
    """Scenario-level single I/O call on an async handle: poll the trait method until Ready."""
    from ..engine import Outcome
    I = session.I
    session.env.begin_op(op)
    meth = {"hwrite": ("AsyncWrite", "poll_write"), "hflush": ("AsyncWrite", "poll_flush"),
            "hclose": ("AsyncWrite", "poll_close" if session.flavour == "async-std" else "poll_shutdown"),
            "hread": ("AsyncRead", "poll_read"), "hwrite_all": None}[op]
    try:
        if op == "hwrite_all":
            fut = WriteAllFut(href, as_sbytes(args[0]))
            v = block_on(I, fut)
        elif op == "hread" and session.flavour == "tokio":
            dst = args[0]
            rb = ReadBufObj(dst)
            fut = PollFnFut(lambda I2, cx: I2.call_trait_method("AsyncRead", "poll_read", [mk_pin(href), cx, Ref(ValLoc(rb), True)]))
            v = block_on(I, fut)
            if v.vname == "Ok":
                v = OK(rb.filled_n)
        else:
            fut = PollFnFut(lambda I2, cx: I2.call_trait_method(meth[0], meth[1], [mk_pin(href), cx] + list(args)))
            v = block_on(I, fut)
    except RustPanic as e:
        return Outcome("panic", None, e.msg)
    except RustAbort as e:
        return Outcome("abort", None, str(e))
    except Hang as e:
        return Outcome("hang", None, str(e))
    except ProcessCrash as e:
        session.env.crashed = True
        return Outcome("crash", None, str(e))
    if isinstance(v, Adt) and v.ty == "Result":
        return Outcome("ok" if v.vname == "Ok" else "err", v.fields[0])
    return Outcome("ok", v)


class PollFnFut:
    rust_type = "PollFn"

    def __init__(self, f):
        self.f = f

    def poll(self, I, cx):
        if callable(self.f):
            return self.f(I, cx)
        return I.call_value(self.f, [Ref(ValLoc(cx), True)])


@T.path("futures::future::poll_fn", "std::future::poll_fn", "core::future::poll_fn", "futures_util::future::poll_fn")
def _poll_fn(I, a, d):
    return PollFnFut(a[0])


class MapFut:
    rust_type = "MapFuture"

    def __init__(self, inner, f):
        self.inner = Cell(inner)
        self.f = f

    def poll(self, I, cx):
        r = poll_any(I, mk_pin(Ref(CellLoc(self.inner), True)), cx)
        if r.vname == "Pending":
            return r
        return READY(I.call_value(self.f, [r.fields[0]]))

    def rust_drop(self, I):
        I.drop_value(self.inner.v)


@T.trait("FutureExt", "map")
def _future_map(I, a, d):
    return MapFut(a[0], a[1])


@T.trait("TryFutureExt", "map_err")
def _future_map_err(I, a, d):
    f = a[1]

    class G:
        def call(self, I2, args):
            r = args[0]
            if r.vname == "Err":
                return ERR(I2.call_value(f, [r.fields[0]]))
            return r
    return MapFut(a[0], G())


# -- runtime: background tasks

class Task:
    def __init__(self, closure, name):
        self.closure = closure
        self.name = name
        self.state = "pending"     # pending | done | panicked
        self.result = None
        self.panic = None
        self.detached = False

    def run(self, I):
        if self.state != "pending":
            return
        try:
            self.result = I.call_value(self.closure, [])
            self.state = "done"
        except RustPanic as e:
            self.state = "panicked"
            self.panic = e
        if self.detached and self.state == "done":
            # nobody will ever take the result: the pool drops it
            r, self.result = self.result, MOVED
            I.drop_value(r)


class Runtime:
    def __init__(self):
        self.tasks = []

    def spawn(self, I, closure):
        t = Task(closure, "blocking#%d" % len(self.tasks))
        self.tasks.append(t)
        # the blocking pool may run the job at once, or later (first poll / drop / quiescence)
        mode = I.env.spawn_mode
        if mode is None:
            mode = ("eager", "lazy")[I.w.choose(2, "spawn_blocking-timing")]
        if mode == "eager":
            t.run(I)
        return t

    def run_one(self, I):
        for t in self.tasks:
            if t.state == "pending":
                t.run(I)
                return True
        return False

    def quiesce(self, I):
        n = 0
        while self.run_one(I):
            n += 1
        return n


def runtime(I):
    rt = getattr(I.env, "runtime", None)
    if rt is None:
        rt = I.env.runtime = Runtime()
    if not hasattr(I.env, "spawn_mode"):
        I.env.spawn_mode = "eager"
    return rt


class JoinHandleV:
    rust_type = "JoinHandle"

    def __init__(self, task, tokio):
        self.task = task
        self.tokio = tokio

    def poll(self, I, cx):
        t = self.task
        if t.state == "pending":
            # the waker fires when the pool finishes the job: model that as "job runs now"
            if I.env.spawn_mode == "lazy-pending" and not getattr(t, "polled", False):
                t.polled = True
                return PENDING()
            t.run(I)
        if t.state == "panicked":
            if self.tokio:
                return READY(ERR(Agg("struct", "JoinError", [])))
            raise t.panic
        v = t.result
        t.result = MOVED
        return READY(OK(v) if self.tokio else v)

    def rust_drop(self, I):
        # dropping a JoinHandle detaches the task; the closure still runs on the pool later
        self.task.detached = True
        if self.task.state == "done" and not isinstance(self.task.result, _Moved):
            r, self.task.result = self.task.result, MOVED
            I.drop_value(r)


@T.path("async_std::task::spawn_blocking", "tokio::task::spawn_blocking", "spawn_blocking")
def _spawn_blocking(I, a, d):
    rt = runtime(I)
    t = rt.spawn(I, a[0])
    return JoinHandleV(t, I.prog.flavour == "tokio")


@T.path("async_std::task::spawn", "tokio::task::spawn", "tokio::spawn")
def _spawn(I, a, d):
    raise Inconclusive("task::spawn")


# -- oneshot channel

class Chan:
    def __init__(self):
        self.value = None
        self.sent = False
        self.sender_alive = True
        self.receiver_alive = True


class SenderV:
    rust_type = "oneshot::Sender"

    def __init__(self, ch):
        self.ch = ch

    def rust_drop(self, I):
        self.ch.sender_alive = False


class ReceiverV:
    rust_type = "oneshot::Receiver"

    def __init__(self, ch):
        self.ch = ch

    def poll(self, I, cx):
        ch = self.ch
        if ch.sent:
            v = ch.value
            ch.value = MOVED
            return READY(OK(v))
        if not ch.sender_alive:
            return READY(ERR(Agg("struct", "Canceled", [])))
        return PENDING()

    def rust_drop(self, I):
        self.ch.receiver_alive = False
        if self.ch.sent and not isinstance(self.ch.value, _Moved):
            I.drop_value(self.ch.value)


@T.path("futures::futures_channel::oneshot::channel", "futures::channel::oneshot::channel", "futures_channel::oneshot::channel",
        "tokio::sync::oneshot::channel")
def _oneshot_channel(I, a, d):
    ch = Chan()
    return Agg("tuple", None, [SenderV(ch), ReceiverV(ch)])


@T.path("futures::futures_channel::oneshot::Sender::send", "futures::channel::oneshot::Sender::send", "futures_channel::oneshot::Sender::send",
        "tokio::sync::oneshot::Sender::send")
def _oneshot_send(I, a, d):
    s = peel(a[0])
    ch = s.ch
    ch.sender_alive = False
    if not ch.receiver_alive:
        return ERR(a[1])
    ch.value = a[1]
    ch.sent = True
    return OK(UNIT)


# -- Mutex

class MutexV:
    rust_type = "Mutex"

    def __init__(self, v):
        self.cell = Cell(v)
        self.locked = False
        self.poisoned = False

    def rust_drop(self, I):
        I.drop_value(self.cell.v)


class GuardV:
    rust_type = "MutexGuard"

    def __init__(self, m):
        self.m = m

    def rust_drop(self, I):
        self.m.locked = False


@T.path("std::sync::Mutex::new")
def _mutex_new(I, a, d):
    return MutexV(a[0])


@T.path("std::sync::Mutex::lock")
def _mutex_lock(I, a, d):
    m = peel(a[0])
    if m.locked:
        raise Hang("deadlock: Mutex locked twice on one thread")
    if m.poisoned:
        return ERR(Agg("struct", "PoisonError", [GuardV(m)]))
    m.locked = True
    return OK(GuardV(m))


@T.path("std::sync::Mutex::into_inner")
def _mutex_into_inner(I, a, d):
    m = peel(a[0])
    return OK(m.cell.v)


@T.trait("DerefMut", "deref_mut", r"MutexGuard$")
def _guard_deref_mut(I, a, d):
    g = peel(a[0])
    return Ref(CellLoc(g.m.cell), True)


@T.trait("Deref", "deref", r"MutexGuard$")
def _guard_deref(I, a, d):
    g = peel(a[0])
    return Ref(CellLoc(g.m.cell), False)


# ---------------------------------------------------------------------------
# async I/O extension futures

class WriteAllFut:
    """futures / tokio AsyncWriteExt::write_all."""
    rust_type = "WriteAll"

    def __init__(self, writer_ref, data):
        self.writer = writer_ref
        self.data = data
        self.pos = 0
        self.rounds = 0

    def poll(self, I, cx):
        while True:
            self.rounds += 1
            if self.rounds > 24:
                raise Hang("write_all does not make progress")
            total = self.data.length()
            if is_sym(total) or is_sym(self.pos):
                done = I.w.branch(bv(self.pos, 64) == bv(total, 64), "awrite_all-done")
            else:
                done = self.pos == total
            if done:
                return READY(OK(UNIT))
            chunk = BytesRef(sb.slice_(self.data, self.pos, total, I.w), "bytes")
            r = poll_write_any(I, self.writer, cx, chunk)
            if r.vname == "Pending":
                return r
            res = r.fields[0]
            if res.vname == "Err":
                return READY(res)
            n = res.fields[0]
            if is_sym(n):
                if I.w.branch(n == 0, "awrite_all-zero"):
                    return READY(ERR(io_err("WriteZero")))
                rem = I._sub(total, self.pos)
                if not I.w.branch(z3.ULE(bv(n, 64), bv(rem, 64)), "awrite_all-n<=len"):
                    panic("write_all: writer reported more bytes than it was given")
            else:
                if n == 0:
                    return READY(ERR(io_err("WriteZero")))
                rem = I._sub(total, self.pos)
                if not is_sym(rem) and n > rem:
                    panic("write_all: writer reported more bytes than it was given")
            self.pos = _addv(self.pos, n)

    def rust_drop(self, I):
        pass


def poll_write_any(I, wref, cx, chunk):
    tgt = peel(wref)
    if isinstance(tgt, AsyncFileObj):
        return READY(tgt.write(I, chunk.sb))
    return I.call_trait_method("AsyncWrite", "poll_write", [mk_pin(wref), cx, chunk])


@T.trait("AsyncWriteExt", "write_all")
def _awrite_all(I, a, d):
    return WriteAllFut(a[0], as_sbytes(a[1]))


@T.trait("AsyncWriteExt", "write")
def _awrite(I, a, d):
    w, data = a[0], BytesRef(as_sbytes(a[1]))
    return PollFnFut(lambda I2, cx: poll_write_any(I2, w, cx, data))


def poll_flush_any(I, wref, cx, meth="poll_flush"):
    tgt = peel(wref)
    if isinstance(tgt, AsyncFileObj):
        return READY(tgt.flush(I))
    return I.call_trait_method("AsyncWrite", meth, [mk_pin(wref), cx])


@T.trait("AsyncWriteExt", "flush")
def _aflush(I, a, d):
    w = a[0]
    return PollFnFut(lambda I2, cx: poll_flush_any(I2, w, cx))


@T.trait("AsyncWriteExt", "close")
def _aclose(I, a, d):
    w = a[0]
    return PollFnFut(lambda I2, cx: poll_flush_any(I2, w, cx, "poll_close"))


@T.trait("AsyncWriteExt", "shutdown")
def _ashutdown(I, a, d):
    w = a[0]
    return PollFnFut(lambda I2, cx: poll_flush_any(I2, w, cx, "poll_shutdown"))


class ReadBufObj:
    """tokio::io::ReadBuf over a &mut [u8] window."""
    rust_type = "ReadBuf"

    def __init__(self, dst):
        self.dst = dst            # MutBytesRef
        self.filled_n = 0

    @property
    def filled(self):
        return BytesRef(sb.slice_(self.dst.buf.sb, self.dst.start, _addv(self.dst.start, self.filled_n), sb.CURRENT_WORLD[0]))

    def unfilled_window(self):
        return MutBytesRef(self.dst.buf, _addv(self.dst.start, self.filled_n), self.dst.end)


@T.path("tokio::io::ReadBuf::filled")
def _readbuf_filled(I, a, d):
    return peel(a[0]).filled


@T.path("tokio::io::ReadBuf::new")
def _readbuf_new(I, a, d):
    return ReadBufObj(F._mut_window(I, a[0]))


@T.path("tokio::io::ReadBuf::remaining")
def _readbuf_remaining(I, a, d):
    rb = peel(a[0])
    w = rb.unfilled_window()
    return I._sub(w.end, w.start)


def poll_read_any(I, rref, cx, dst):
    """-> Poll<io::Result<usize>> regardless of flavour."""
    tgt = peel(rref)
    if isinstance(tgt, AsyncFileObj):
        return READY(wrap(I, lambda: F.op_read(I, tgt.f, dst)))
    if I.prog.flavour == "tokio":
        rb = ReadBufObj(dst)
        r = I.call_trait_method("AsyncRead", "poll_read", [mk_pin(rref), cx, Ref(ValLoc(rb), True)])
        if r.vname == "Pending":
            return r
        res = r.fields[0]
        if res.vname == "Err":
            return r
        return READY(OK(rb.filled_n))
    return I.call_trait_method("AsyncRead", "poll_read", [mk_pin(rref), cx, dst])


@T.trait("AsyncReadExt", "read")
def _aread(I, a, d):
    r, dst = a[0], F._mut_window(I, a[1])
    return PollFnFut(lambda I2, cx: poll_read_any(I2, r, cx, dst))


@T.trait("AsyncReadExt", "read_to_end")
def _aread_to_end(I, a, d):
    r, vec = a[0], peel(a[1])

    def go(I2, cx):
        total = 0
        for _ in range(64):
            probe = BufObj("array", SBytes((sb.Fill(0, 8192),)))
            dst = MutBytesRef(probe, 0, 8192)
            p = poll_read_any(I2, r, cx, dst)
            if p.vname == "Pending":
                raise Inconclusive("Pending inside read_to_end")
            res = p.fields[0]
            if res.vname == "Err":
                return READY(res)
            n = res.fields[0]
            if is_sym(n):
                if I2.w.branch(n == 0, "arte-eof"):
                    return READY(OK(total))
            elif n == 0:
                return READY(OK(total))
            vec.sb = vec.sb + sb.slice_(probe.sb, 0, n, I2.w)
            total = _addv(total, n)
        raise Hang("read_to_end does not terminate")
    return PollFnFut(go)


# -- async File objects

class AsyncFileObj:
    """async_std::fs::File / tokio::fs::File wrapping the VFS file.
    async-std buffers writes in the File object: write() only copies, flush() performs the write(2), a
    failed flush keeps the data, and dropping the File flushes once more (errors ignored).  tokio hands
    each write to the blocking pool and does not retry."""
    rust_type = "AsyncFile"

    def __init__(self, f):
        self.f = f
        self.pending = SBytes()

    def buffered(self, I):
        return I.prog.flavour == "async-std"

    def write(self, I, data):
        if self.buffered(I):
            self.pending = self.pending + data
            return OK(data.length())
        return wrap(I, lambda: F.op_write(I, self.f, data))

    def flush(self, I):
        if self.pending.segs:
            data = self.pending
            r = wrap(I, lambda: F.op_write(I, self.f, data))
            if r.vname == "Err":
                return r
            self.pending = SBytes()
        return OK(UNIT)

    def rust_drop(self, I):
        if self.pending.segs:
            try:
                self.flush(I)
            except RustPanic:
                pass
            self.pending = SBytes()
        self.f.closed = True


@T.trait("AsyncRead", "poll_read", r"fs::File$")
def _afile_poll_read(I, a, d):
    f = pin_target(a[0])
    if I.prog.flavour == "tokio":
        rb = peel(a[2])
        win = rb.unfilled_window()
        r = wrap(I, lambda: F.op_read(I, f.f, win))
        if r.vname == "Err":
            return READY(r)
        rb.filled_n = _addv(rb.filled_n, r.fields[0])
        return READY(OK(UNIT))
    dst = F._mut_window(I, a[2])
    return READY(wrap(I, lambda: F.op_read(I, f.f, dst)))


@T.trait("AsyncWrite", "poll_write", r"fs::File$")
def _afile_poll_write(I, a, d):
    f = pin_target(a[0])
    data = as_sbytes(a[2])
    return READY(f.write(I, data))


@T.trait("AsyncWrite", "poll_flush", r"fs::File$")
def _afile_poll_flush(I, a, d):
    return READY(pin_target(a[0]).flush(I))


def _afut(thunk, name=""):
    return ModelFuture(thunk, name)


def _reg_async_fs(prefix):
    P = prefix

    @T.path(P + "::fs::read")
    def _read(I, a, d):
        p = as_sbytes(a[0])

        def go():
            def inner():
                f = F.op_open(I, p, read=True)
                data = F.op_read_all(I, f)
                return mk_vec_u8(data)
            return wrap(I, inner)
        return _afut(go, "fs::read")

    @T.path(P + "::fs::copy")
    def _copy(I, a, d):
        s, t = as_sbytes(a[0]), as_sbytes(a[1])
        return _afut(lambda: wrap(I, lambda: F.op_copy(I, s, t)), "fs::copy")

    @T.path(P + "::fs::metadata")
    def _metadata(I, a, d):
        p = as_sbytes(a[0])
        return _afut(lambda: wrap(I, lambda: F.op_stat(I, p, True)), "fs::metadata")

    @T.path(P + "::fs::symlink_metadata")
    def _symlink_metadata(I, a, d):
        p = as_sbytes(a[0])
        return _afut(lambda: wrap(I, lambda: F.op_stat(I, p, False)), "fs::symlink_metadata")

    @T.path(P + "::fs::remove_file")
    def _remove_file(I, a, d):
        p = as_sbytes(a[0])
        return _afut(lambda: wrap(I, lambda: F.op_unlink(I, p)), "fs::remove_file")

    @T.path(P + "::fs::create_dir_all")
    def _create_dir_all(I, a, d):
        p = as_sbytes(a[0])
        return _afut(lambda: wrap(I, lambda: F.op_mkdir_p(I, p)), "fs::create_dir_all")

    @T.path(P + "::fs::remove_dir_all")
    def _remove_dir_all(I, a, d):
        p = as_sbytes(a[0])
        return _afut(lambda: wrap(I, lambda: F.op_remove_dir_all(I, p)), "fs::remove_dir_all")

    @T.path(P + "::fs::rename")
    def _rename(I, a, d):
        s, t = as_sbytes(a[0]), as_sbytes(a[1])
        return _afut(lambda: wrap(I, lambda: F.op_rename(I, s, t)), "fs::rename")

    @T.path(P + "::fs::hard_link")
    def _hard_link(I, a, d):
        s, t = as_sbytes(a[0]), as_sbytes(a[1])
        return _afut(lambda: wrap(I, lambda: F.op_link(I, s, t)), "fs::hard_link")

    @T.path(P + "::fs::write")
    def _write(I, a, d):
        p, data = as_sbytes(a[0]), as_sbytes(a[1])

        def inner():
            f = F.op_open(I, p, write=True, create=True, truncate=True)
            F.op_write(I, f, data)
            return UNIT
        return _afut(lambda: wrap(I, inner), "fs::write")

    @T.path(P + "::fs::File::open")
    def _file_open(I, a, d):
        p = as_sbytes(a[0])
        return _afut(lambda: wrap(I, lambda: AsyncFileObj(F.op_open(I, p, read=True))), "File::open")

    @T.path(P + "::fs::File::create")
    def _file_create(I, a, d):
        p = as_sbytes(a[0])
        return _afut(lambda: wrap(I, lambda: AsyncFileObj(F.op_open(I, p, write=True, create=True, truncate=True))), "File::create")

    T.path(P + "::fs::OpenOptions::new")(F._oo_new)
    for n in ("read", "write", "append", "create", "truncate", "create_new"):
        T.path(P + "::fs::OpenOptions::" + n)(F._oo_setter(n))

    @T.path(P + "::fs::OpenOptions::open")
    def _oo_open(I, a, d):
        o = peel(a[0])
        p = as_sbytes(a[1])
        opts = dict(o.o)
        return _afut(lambda: wrap(I, lambda: AsyncFileObj(F.op_open(I, p, **opts))), "OpenOptions::open")

    T.path(P + "::fs::DirBuilder::new")(F._db_new)
    T.path(P + "::fs::DirBuilder::recursive")(F._db_recursive)

    @T.path(P + "::fs::DirBuilder::create")
    def _db_create(I, a, d):
        b = peel(a[0])
        p = as_sbytes(a[1])
        rec = b.recursive
        return _afut(lambda: wrap(I, lambda: (F.op_mkdir_p if rec else F.op_mkdir)(I, p)), "DirBuilder::create")

    @T.path(P + "::io::BufReader::new")
    def _bufreader_new(I, a, d):
        return F.BufReaderObj(a[0])


_reg_async_fs("async_std")
_reg_async_fs("tokio")


class LinesStream:
    rust_type = "AsyncLines"

    def __init__(self, reader):
        self.reader = reader
        self.items = None

    def poll_next(self, I, cx):
        if self.items is None:
            f = peel(self.reader.inner)
            f = f.f if isinstance(f, AsyncFileObj) else f
            try:
                data = F.op_read_all(I, f)
            except FsErr as e:
                # like std's Lines, the async line streams are not fused on errors: a persistent error
                # (the path is a directory, ...) is yielded again on every poll
                I.w.tick(50)
                return READY(SOME(ERR(io_err(e.kind, e.injected))))
            self.items = F.lines_of(I, data)
        if self.items:
            return READY(SOME(self.items.pop(0)))
        return READY(NONE())


@T.trait("AsyncBufReadExt", "lines")
def _alines(I, a, d):
    return LinesStream(peel(a[0]))


@T.path("tokio_stream::wrappers::LinesStream::new", "LinesStream::new")
def _linesstream_new(I, a, d):
    return a[0]


class NextFuture:
    rust_type = "Next"

    def __init__(self, stream_ref):
        self.stream = stream_ref

    def poll(self, I, cx):
        s = peel(self.stream)
        if hasattr(s, "poll_next"):
            return s.poll_next(I, cx)
        raise Inconclusive("StreamExt::next on %r" % (s,))


@T.trait("StreamExt", "next", r".")
def _stream_next2(I, a, d):
    return NextFuture(a[0])


def _async_io_copy(I, a, d):
    r, w_ = a[0], a[1]

    def go(I2, cx):
        total = 0
        for _ in range(8):
            probe = BufObj("array", SBytes((sb.Fill(0, 8192),)))
            dst = MutBytesRef(probe, 0, 8192)
            tgt = peel(r)
            if isinstance(tgt, AsyncFileObj):
                try:
                    data = F.op_read_all(I2, tgt.f)
                except FsErr as e:
                    return READY(ERR(io_err(e.kind, e.injected)))
                n = data.length()
                last = True
            else:
                p = poll_read_any(I2, r, cx, dst)
                if p.vname == "Pending":
                    raise Inconclusive("Pending inside io::copy")
                res = p.fields[0]
                if res.vname == "Err":
                    return READY(res)
                n = res.fields[0]
                data = sb.slice_(probe.sb, 0, n, I2.w)
                last = False
            empty = I2.w.branch(n == 0, "aio-copy-eof") if is_sym(n) else n == 0
            if empty:
                return READY(OK(total))
            wf = WriteAllFut(w_, data)
            pr = wf.poll(I2, cx)
            if pr.vname == "Pending":
                raise Inconclusive("Pending inside io::copy")
            if pr.fields[0].vname == "Err":
                return READY(pr.fields[0])
            total = _addv(total, n)
            if last:
                return READY(OK(total))
        raise Hang("io::copy does not terminate")
    return PollFnFut(go)


T.path("async_std::io::copy", "futures::io::copy", "tokio::io::copy", "futures_util::io::copy")(_async_io_copy)


def _async_remove_dir(I, a, d):
    p = as_sbytes(a[0])
    return ModelFuture(lambda: wrap(I, lambda: F.op_rmdir(I, p)), "fs::remove_dir")


T.path("async_std::fs::remove_dir")(_async_remove_dir)
T.path("tokio::fs::remove_dir")(_async_remove_dir)
