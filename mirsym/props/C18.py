"""C18 -- extraction to a path delivers exact bytes; failed checks leave nothing behind."""
import z3
from .common import *
from .C01 import damage_content

BOUNDS = {"stored_data": "any length for unchecked extraction and whole reads; checked extraction bounded by 3 verification reads per file "
                         "(copy/reflink <= 3 KiB, hard_link <= 24 KiB; quick tier: 2 reads)",
          "destination": "absent, an existing file of arbitrary content, or the product of an earlier extraction of the same entry (a hard link to the content file)",
          "content_state": "pristine, replaced by an arbitrary different byte string, or missing; key present or never written",
          "filesystems": "with and without reflink (FICLONE) support",
          "outside": "destinations on other filesystems (EXDEV), directories as destinations"}

OPS = ["copy", "copy_unchecked", "copy_hash", "copy_hash_unchecked", "reflink", "reflink_unchecked", "reflink_hash", "reflink_hash_unchecked",
       "hard_link", "hard_link_unchecked", "hard_link_hash", "hard_link_hash_unchecked"]
ASYNC_OPS = ["copy", "copy_unchecked", "copy_hash", "copy_hash_unchecked", "reflink", "reflink_unchecked", "reflink_hash", "hard_link"]


def extraction(ctx, op, state, dest_exists, api, quick=False):
    scn = ctx.new_scn(api=api)
    if quick:
        scn.env.short_read_budget = 1
        scn.env.max_reads_per_file = 2
    D = scn.blob("D")
    data = scn.whole(D)
    tag = "C18:%s:%s:%s%s" % (api, op, state, ":dest-exists" if dest_exists else "")
    by_hash = "_hash" in op
    checked = not op.endswith("unchecked")
    r = scn.write("k", data)
    if r.kind != "ok":
        return
    sri = r.value
    F = None
    if state == "damaged":
        damage_content(ctx, scn, sri, D, "replace")
        F = scn.blobs["F"]
        scn.distinct(D, F)
    elif state == "missing-content":
        damage_content(ctx, scn, sri, D, "remove")
    dest = ROOT + "/out"
    G = None
    if dest_exists == "self":
        # the destination is the product of an earlier, successful extraction of the same entry
        # (for hard links: the very same inode as the content file)
        first = scn.extract(op, dest, sri=sri) if by_hash else scn.extract(op, dest, key="k")
        if first.kind != "ok":
            return
        tag = tag.replace(":dest-exists", ":dest-is-earlier-extraction")
    elif dest_exists:
        G = scn.blob("G")
        scn.fs_write(dest, scn.whole(G))
    key = "k" if state != "missing-key" else "never-written"
    out = scn.extract(op, dest, sri=sri) if by_hash else scn.extract(op, dest, key=key)
    xstep = last(scn)
    what = "%s (%s%s)" % (op, state, ", existing destination" if dest_exists else "")
    if not expect_no_panic(ctx, out, tag, what):
        return
    rd = scn.fs_read(dest)
    rstep = last(scn)
    if state == "missing-key" and not by_hash:
        good = out.kind == "err" and err_class(out.value) == "EntryNotFound"
        ctx.expect(good, tag + ":errclass", what + ": a missing key must yield EntryNotFound",
                   native={"kind": "err_variant", "step": xstep, "variants": ["EntryNotFound"]})
        return
    if state == "missing-content":
        good = out.kind == "err" and err_class(out.value).startswith("IoError")
        ctx.expect(good, tag + ":errclass", what + ": missing content must yield an I/O error",
                   native={"kind": "err_variant", "step": xstep, "variants": ["IoError"]})
        return
    if state == "pristine":
        # whatever the extraction returned, the stored entry itself is untouched
        expect_bytes(ctx, scn.read_hash(sri), data, tag + ":store-intact", what + ": the stored content afterwards")
    if out.kind == "ok":
        expected = data if (state != "damaged" or checked) else scn.whole(F)
        if rd.kind != "ok":
            ctx.expect(False, tag + ":dest-missing", what + ": Ok but there is no file at the destination", native=ok_spec(rstep))
            return
        e = sb.content_eq(as_sbytes(rd.value), expected, ctx.w)
        ctx.expect(e, tag + ":bytes", what + ": Ok but the destination does not hold the stored data",
                   native=lambda cz: {"kind": "any", "of": [nat_bytes(cz, rstep, expected), {"kind": "outcome_in", "step": xstep, "allowed": ["err"]}]})
        if op.startswith("copy"):
            n = out.value
            ctx.expect(sb._bv(n) == sb._bv(expected.length()), tag + ":count", what + ": returned byte count is not the length of the data",
                       native=lambda cz: {"kind": "any", "of": [{"kind": "u64_eq", "step": xstep, "value": len(cz.bytes_of(expected))}, {"kind": "outcome_in", "step": xstep, "allowed": ["err"]}]})
        return
    # failure
    if state == "pristine" and not dest_exists:
        fs_ok = True
        if op.startswith("reflink") and scn.env.reflink_supported is False:
            fs_ok = False     # the filesystem cannot reflink: an error is the truthful answer
        if fs_ok:
            ctx.expect(False, tag + ":failed", what + ": failed on a pristine cache with a fresh destination (%s)" % err_class(out.value), native=ok_spec(xstep))
        return
    if state == "damaged" and checked:
        # verification failed: the unverified bytes must not be sitting at the destination
        if rd.kind == "ok":
            holds_f = sb.content_eq(as_sbytes(rd.value), scn.whole(F), ctx.w)
            pre_existing = False
            if dest_exists:
                pre_existing = sb.content_eq(scn.whole(G), scn.whole(F), ctx.w) if G is not None else False
            bad = ctx.scn.s.I._band(holds_f, ctx.scn.s.I._bnot(pre_existing))
            ctx.expect(ctx.scn.s.I._bnot(bad), tag + ":left-behind", what + ": verification failed but the unverified bytes were left at the destination",
                       native=lambda cz: {"kind": "not", "of": nat_bytes(cz, rstep, scn.whole(F))})


def tasks(tier, flavours):
    out = []
    for fl in flavours:
        api = "sync" if fl == "sync" else "async"
        ops = OPS if api == "sync" else ASYNC_OPS
        for op in ops:
            for state in ("pristine", "damaged", "missing-content", "missing-key"):
                if state == "missing-key" and "_hash" in op:
                    continue
                if tier == "quick" and fl == "tokio" and state in ("missing-content",) :
                    continue
                for dest_exists in (False, True):
                    if dest_exists and state in ("missing-content", "missing-key"):
                        continue
                    if tier == "quick" and dest_exists and fl != "sync" and not op.startswith("copy"):
                        continue
                    out.append(dict(module="C18", family="extraction", flavour=fl, params=dict(op=op, state=state, dest_exists=dest_exists, api=api, quick=(tier == "quick"))))
            if not (tier == "quick" and fl != "sync" and not op.startswith("hard_link")):
                out.append(dict(module="C18", family="extraction", flavour=fl, params=dict(op=op, state="pristine", dest_exists="self", api=api, quick=(tier == "quick"))))
    return out
