"""Symbolic filesystem (VFS), environment controllers and the std::fs / tempfile / memmap2 / walkdir /
reflink-copy / libc models that operate on it."""
import re
import z3

from . import TABLE as T
from ..values import *
from ..interp import BufObj, BytesRef, MutBytesRef, NONE, SOME, OK, ERR, base_type_name
from .. import sbytes as sb
from ..sbytes import SBytes
from .core import (as_sbytes, peel, mk_pathbuf, mk_vec_u8, mk_string, error_kind, path_components, path_from,
                   path_join, RIter, write_window, panic, split_sbytes, DynError, display_of, _addv)

ERRNO = {"NotFound": 2, "PermissionDenied": 13, "AlreadyExists": 17, "NotADirectory": 20, "IsADirectory": 21,
         "InvalidInput": 22, "StorageFull": 28, "Other": 5, "Uncategorized": 24, "DirectoryNotEmpty": 39,
         "FilesystemLoop": 40, "Interrupted": 4, "WriteZero": 0, "InvalidData": 0, "UnexpectedEof": 0,
         "CrossesDevices": 18, "Unsupported": 95}


class FsErr(Exception):
    def __init__(self, kind, injected=False):
        Exception.__init__(self, kind)
        self.kind = kind
        self.injected = injected


from ..interp import STD_ENUMS
STD_ENUMS["SeekFrom"] = ["Start", "End", "Current"]


class IoError:
    rust_type = "io::Error"

    def __init__(self, kind, msg=None, injected=False, payload=None):
        self.kind = kind
        self.msg = msg
        self.injected = injected
        self.payload = payload

    def display(self, I):
        return SBytes((sb.Atom("opaque", ("ioerr", self.kind)),))

    def __repr__(self):
        return "io::Error(%s%s)" % (self.kind, ", injected" if self.injected else "")


def io_err(kind, injected=False):
    return IoError(kind, injected=injected)


class Inode:
    _n = 0

    def __init__(self, kind, content=None, target=None):
        self.kind = kind
        self.sb = SBytes.of(content) if content is not None else SBytes()   # file content
        self.children = {} if kind == "dir" else None   # key -> (name SBytes, Inode)
        self.target = target
        self.nlink = 1
        self.tag = None        # provenance note (who created it)

    def __repr__(self):
        return "<%s %r>" % (self.kind, self.sb if self.kind == "file" else (self.target if self.kind == "symlink" else list(self.children)))


def inode_mtime(ino):
    """Modification time of an inode: an unconstrained instant per content change made through the modelled
    system calls.  Changes made by the *environment* of a scenario (damage to a file in place) deliberately
    keep it: bit rot and hostile edits do not announce themselves."""
    t = getattr(ino, "mtime", None)
    if t is None:
        w = sb.CURRENT_WORLD[0]
        t = ino.mtime = w.fresh_bv("mtime", 64, register=False) if w is not None else 0
    return t


def touch(ino):
    w = sb.CURRENT_WORLD[0]
    ino.mtime = w.fresh_bv("mtime", 64, register=False) if w is not None else 0


def comp_key(c):
    return sb.concretise_atoms(c).key()


def find_child(node, comp, w=None):
    """Directory lookup.  Names containing digest atoms are compared semantically (ideal hash):
    two names may be equal although they are built from different terms."""
    k = comp_key(comp)
    ent = node.children.get(k)
    if ent is not None or w is None:
        return ent
    if not comp.has_kind(sb.Atom):
        # a concrete name can still equal an atom-bearing sibling
        if not any(name.has_kind(sb.Atom) for name, _ in node.children.values()):
            return None
    for name, child in list(node.children.values()):
        if not (name.has_kind(sb.Atom) or comp.has_kind(sb.Atom)):
            continue
        e = sb.content_eq(name, comp, w)
        if e is True:
            return (name, child)
        if e is False:
            continue
        if w.branch(e, "dirent-eq"):
            return (name, child)
    return None


class VFS:
    def __init__(self, world=None):
        self.root = Inode("dir")
        self.cwd = SBytes(b"/")
        self.tmp_counter = 0
        self.w = world

    # -- path walking
    def _abs_comps(self, path):
        is_abs, comps = path_components(path)
        if not is_abs:
            _, base = path_components(self.cwd)
            comps = base + comps
        return comps

    def walk(self, path, follow_last=True, _depth=0):
        """-> (parent inode, name SBytes, inode or None).  Raises FsErr."""
        if _depth > 8:
            raise FsErr("FilesystemLoop")
        if not path.segs:
            raise FsErr("NotFound")
        comps = self._abs_comps(path)
        stack = [self.root]
        node = self.root
        parent, name = None, None
        i = 0
        comps = list(comps)
        while i < len(comps):
            c = comps[i]
            last = i == len(comps) - 1
            if node.kind != "dir":
                raise FsErr("NotADirectory")
            if c.is_concrete() and c.concrete() == b"..":
                if len(stack) > 1:
                    stack.pop()
                node = stack[-1]
                parent, name = None, None
                i += 1
                continue
            if c.is_concrete() and c.concrete() == b".":
                i += 1
                continue
            ent = find_child(node, c, self.w)
            if ent is None:
                if last:
                    return node, c, None
                raise FsErr("NotFound")
            child = ent[1]
            c = ent[0]
            if child.kind == "symlink" and (not last or follow_last):
                # resolve relative to the directory containing the link
                tgt = child.target
                t_abs, t_comps = path_components(tgt)
                rest = comps[i + 1:]
                if t_abs:
                    stack = [self.root]
                    node = self.root
                comps = t_comps + rest
                i = 0
                _depth += 1
                if _depth > 8:
                    raise FsErr("FilesystemLoop")
                if not comps:
                    return None, None, node
                continue
            parent, name = node, c
            if child.kind == "dir":
                stack.append(child)
            elif not last:
                raise FsErr("NotADirectory")
            node = child
            i += 1
        return parent, name, node

    def lookup(self, path, follow=True):
        p, n, ino = self.walk(path, follow)
        if ino is None:
            raise FsErr("NotFound")
        return ino

    def exists(self, path):
        try:
            self.lookup(path)
            return True
        except FsErr:
            return False

    # -- helpers for scenarios / oracles
    def mkdir_p(self, path):
        comps = self._abs_comps(path)
        node = self.root
        for c in comps:
            if node.kind != "dir":
                raise FsErr("NotADirectory")
            ent = node.children.get(comp_key(c))
            if ent is None:
                d = Inode("dir")
                node.children[comp_key(c)] = (c, d)
                node = d
            else:
                node = ent[1]
                if node.kind == "symlink":
                    node = self.lookup(path_from(True, comps[:comps.index(c) + 1]))
        if node.kind != "dir":
            raise FsErr("AlreadyExists")
        return node

    def put_file(self, path, content):
        is_abs, comps = path_components(path)
        self.mkdir_p(path_from(True, self._abs_comps(path)[:-1]))
        parent, name, ino = self.walk(path)
        f = Inode("file", content)
        parent.children[comp_key(name)] = (name, f)
        return f

    def listing(self, node=None, prefix=b""):
        """Flat listing {path bytes-ish repr: inode} for oracles."""
        out = {}
        node = node or self.root

        def rec(n, pre):
            for k, (name, ch) in sorted(n.children.items(), key=lambda kv: repr(kv[0])):
                p = pre + (b"/",) + (name,) if pre else (name,)
                out[p] = ch
                if ch.kind == "dir":
                    rec(ch, p)
        rec(node, ())
        return out


class FileObj:
    rust_type = "File"

    def __init__(self, inode, path, read=True, write=False, append=False):
        self.inode = inode
        self.path = path
        self.read = read
        self.write = write
        self.append = append
        self.offset = 0
        self.closed = False
        self.short_reads = 0

    def rust_drop(self, I):
        self.closed = True

    def __repr__(self):
        return "File(%r)" % (self.path,)


class Env:
    """The world outside the crate: filesystem, clock, and the nondeterminism controllers."""

    def __init__(self, world, vfs=None):
        self.w = world
        self.vfs = vfs or VFS(world)
        self.vfs.w = world
        self.trace = []
        self.n_actions = 0
        self.crash = None        # CrashController or None
        self.fault = None        # FaultController or None
        self.sched = None
        self.cur_thread = None          # the concurrent operation currently running (mirsym.sched)
        self.pid = 0
        self.short_read_budget = 2   # number of reads per file that may return less than possible
        self.max_reads_per_file = 3  # reads per file that may return data (bound; then EOF forced)
        self.clock_terms = []
        self.observers = []
        self.interned_digests = {}
        self.crashed = False
        self.cur_op = None
        self.reflink_supported = None   # None: nondeterministic (both kinds of filesystem are explored)
        self.n_effects_step = 0         # successful mutations since the current API call began
        self.op_seq = 0

    def act(self, kind, path=None, path2=None, mutating=False, data=None, **kw):
        """Called at every filesystem operation.  Returns None or the name of an injected error kind."""
        rec = {"i": self.n_actions, "kind": kind, "path": path, "path2": path2, "mutating": mutating,
               "pid": self.pid, "op": self.cur_op, "op_seq": self.op_seq, "effects_before": self.n_effects_step}
        if data is not None:
            rec["data"] = data
        rec.update(kw)
        self.n_actions += 1
        if self.sched is not None:
            self.sched.yield_point(self, rec)
        if self.crash is not None:
            self.crash.before(self, rec)
        self.trace.append(rec)
        if self.fault is not None:
            return self.fault.inject(self, rec)
        return None

    def effect(self, kind):
        self.n_effects_step += 1
        if self.trace:
            self.trace[-1]["done"] = True
        if self.sched is not None:
            self.sched.on_effect(self)

    def begin_op(self, name):
        self.cur_op = name
        self.op_seq += 1
        self.n_effects_step = 0

    def intern_digest(self, algo, content):
        c = sb.canon(sb.concretise_atoms(content), self.w)
        k = (algo, c.key())
        d = self.interned_digests.get(k)
        if d is None:
            d = sb.Digest(algo, c)
            if d.raw is not None:
                k2 = (algo, d.raw)
                d = self.interned_digests.setdefault(k2, d)
            self.interned_digests[k] = d
        return d

    def intern_raw_digest(self, algo, raw):
        k = (algo, raw)
        d = self.interned_digests.get(k)
        if d is None:
            d = sb.Digest(algo, None, raw=raw)
            self.interned_digests[k] = d
        return d

    def now_millis(self):
        t = self.w.fresh_bv("now_ms", 64)
        # wall clock between 2001 and year ~2250, non-decreasing
        self.w.assume(z3.UGE(t, z3.BitVecVal(10 ** 12, 64)))
        self.w.assume(z3.ULE(t, z3.BitVecVal(9 * 10 ** 12, 64)))
        self.w.var_ranges[str(t)] = (10 ** 12, 9 * 10 ** 12)
        if self.clock_terms:
            self.w.assume(z3.UGE(t, self.clock_terms[-1]))
        self.clock_terms.append(t)
        return t


class CrashController:
    """kill -9 at any point of the armed operation: before any filesystem action, or in the middle of a
    data write after a symbolic number of bytes.  Nothing of the process runs afterwards."""

    def __init__(self, torn=True):
        self.armed = False
        self.torn = torn
        self.fired = None        # description of the crash point

    def before(self, env, rec):
        if not self.armed or self.fired:
            return
        if not rec.get("mutating"):
            return      # a kill before a non-mutating action leaves the same disk state as one before the next mutation
        if env.w.choose(2, "crash-before:%s" % rec["kind"]) == 1:
            self.fired = {"effects": env.n_effects_step, "kind": rec["kind"], "path": rec.get("path"), "torn": None, "action": rec["i"]}
            raise ProcessCrash("killed before %s" % rec["kind"])

    def maybe_torn(self, I, f, data):
        """Called by op_write after the 'before' decision: the write itself may be cut short by the kill."""
        env = I.env
        if not self.armed or self.fired or not self.torn:
            return
        if env.w.choose(2, "crash-torn-write") == 1:
            n = data.length()
            t = env.w.fresh_bv("torn", 64)
            env.w.assume(z3.ULT(t, bv(n, 64)))      # t == n is the 'crash before the next action' case
            part = sb.slice_(data, 0, t, env.w)
            do_write(I, f, part)
            self.fired = {"effects": env.n_effects_step, "kind": "write", "path": f.path, "torn": t, "action": env.n_actions - 1}
            raise ProcessCrash("killed inside write after a torn prefix")


class FaultController:
    """Exactly one filesystem operation of the armed API call fails with an errno class."""
    KINDS = ["Other", "StorageFull", "PermissionDenied", "Uncategorized"]      # EIO, ENOSPC, EACCES, EMFILE

    def __init__(self, kinds=None, short_write=True, actions=None):
        self.armed = False
        self.fired = None
        self.kinds = kinds or self.KINDS
        self.short_write = short_write
        self.actions = actions          # restrict the failing call to these action kinds (None: any)

    def inject(self, env, rec):
        if not self.armed or self.fired:
            return None
        if rec["kind"] in ("lstat", "stat") and rec.get("via") in ("reflink-diagnose",):
            return None
        if self.actions is not None and rec["kind"] not in self.actions:
            return None
        if env.w.choose(2, "fault@%s" % rec["kind"]) == 0:
            return None
        # the errno is opaque to the crate unless it asks for ErrorKind: decided lazily (io::Error::kind)
        k = 0
        self.lazy_kind = True
        occ = sum(1 for r in env.trace[:-1] if r.get("op_seq") == env.op_seq and r["kind"] == rec["kind"] and _pkey(r.get("path")) == _pkey(rec.get("path")))
        self.fired = {"kind": rec["kind"], "path": rec.get("path"), "errno": self.kinds[k], "occurrence": occ, "action": rec["i"]}
        if rec["kind"] == "write" and self.short_write and rec.get("data") is not None and rec.get("fobj") is not None:
            if env.w.choose(2, "fault-short-write") == 1:
                self.fired["short"] = True
                return "ShortWrite:?"
        return "?"

    def decide_kind(self, env, err):
        """Called when the crate inspects the kind of the injected error: now the errno matters."""
        k = env.w.choose(len(self.kinds), "fault-kind")
        err.kind = self.kinds[k]
        if self.fired is not None:
            self.fired["errno"] = self.kinds[k]
        return err.kind


def _pkey(p):
    return p.key() if isinstance(p, SBytes) else p


def wrap(I, fn):
    """Run a VFS operation, mapping FsErr to Err(io::Error)."""
    try:
        return OK(fn())
    except FsErr as e:
        return ERR(io_err(e.kind, e.injected))


def fail_if_injected(inj):
    if inj:
        raise FsErr(inj, injected=True)


# ---------------------------------------------------------------------------
# primitive operations (each is one visible action)

def op_mkdir_p(I, path):
    env = I.env
    comps = env.vfs._abs_comps(path)
    # create_dir_all: stat/mkdir each missing ancestor; one action per created directory
    node = env.vfs.root
    for k, c in enumerate(comps):
        if node.kind != "dir":
            raise FsErr("NotADirectory")
        ent = find_child(node, c, env.w)
        if env.sched is not None and ent is None:
            # the probe found nothing: another process creating this directory first changes what happens next
            # (a probe that finds the directory can only be affected by a removal, which C07's operations never do)
            env.sched.note_read(env, path_from(True, comps[:k + 1]))
        if ent is None:
            fail_if_injected(env.act("mkdir", path_from(True, comps[:k + 1]), mutating=True))
            # racing creator (another process) may have made it meanwhile
            ent = find_child(node, c, env.w)
            if ent is None:
                d = Inode("dir")
                node.children[sb.concretise_atoms(c).key()] = (c, d)
                ent = (c, d)
                env.effect("mkdir")
        child = ent[1]
        if child.kind == "symlink":
            child = env.vfs.lookup(path_from(True, comps[:k + 1]))
        node = child
    if node.kind != "dir":
        raise FsErr("AlreadyExists")
    return UNIT


def op_mkdir(I, path):
    env = I.env
    fail_if_injected(env.act("mkdir", path, mutating=True))
    parent, name, ino = env.vfs.walk(path)
    if ino is not None:
        raise FsErr("AlreadyExists")
    parent.children[comp_key(name)] = (name, Inode("dir"))
    env.effect("mkdir")
    return UNIT


def op_open(I, path, read=False, write=False, append=False, create=False, truncate=False, create_new=False):
    env = I.env
    mutating = create or truncate or create_new
    fail_if_injected(env.act("open", path, mutating=mutating, flags=dict(read=read, write=write, append=append,
                                                                       create=create, truncate=truncate,
                                                                       create_new=create_new)))
    if not (read or write or append):
        raise FsErr("InvalidInput")
    if (create or create_new or truncate) and not (write or append):
        raise FsErr("InvalidInput")
    if truncate and append:
        raise FsErr("InvalidInput")
    parent, name, ino = env.vfs.walk(path)
    if ino is None:
        if not (create or create_new):
            raise FsErr("NotFound")
        if parent is None:
            raise FsErr("NotFound")
        ino = Inode("file")
        ino.tag = ("created-by-open", env.pid)
        parent.children[comp_key(name)] = (name, ino)
        env.effect("create")
    else:
        if create_new:
            raise FsErr("AlreadyExists")
        if ino.kind == "dir" and (write or append):
            raise FsErr("IsADirectory")
        if truncate and ino.kind == "file":
            ino.sb = SBytes()
            env.effect("truncate")
    f = FileObj(ino, path, read=read, write=write or append, append=append)
    return f


def op_read(I, f, dst):
    """read(2) into a &mut [u8] window.  Returns n (int or BV64)."""
    env = I.env
    fail_if_injected(env.act("read", f.path, mutating=False, fobj=f))
    if f.inode.kind == "dir":
        raise FsErr("IsADirectory")
    if not f.read:
        raise FsErr("Uncategorized")
    content = f.inode.sb
    total = content.length()
    cap = I._sub(dst.end, dst.start)
    remaining = I._sub(total, f.offset)
    w = I.w
    if is_sym(remaining):
        at_eof = w.branch(z3.ULE(bv(total, 64), bv(f.offset, 64)), "read-eof")
    else:
        at_eof = remaining <= 0
    if is_sym(cap):
        cap0 = w.branch(bv(cap, 64) == 0, "read-cap0")
    else:
        cap0 = cap == 0
    if at_eof or cap0:
        return 0
    f.n_reads = getattr(f, "n_reads", 0) + 1
    sym = is_sym(remaining) or is_sym(cap)
    if f.n_reads > env.max_reads_per_file:
        # bound reached: this read must drain the file (stated bound: <= max_reads_per_file data reads)
        if sym:
            w.assume(z3.ULE(bv(remaining, 64), bv(cap, 64)))
            if not w.feasible():
                raise PathInfeasible()
            n = remaining
        else:
            if remaining > cap:
                raise PathInfeasible()
            n = remaining
    elif f.short_reads < env.short_read_budget:
        f.short_reads += 1
        n = w.fresh_bv("rd", 64)
        w.assume(z3.UGE(n, 1))
        w.assume(z3.ULE(n, bv(cap, 64)))
        w.assume(z3.ULE(n, bv(remaining, 64)))
        if not sym and min(cap, remaining) == 1:
            n = 1
    else:
        if sym:
            n = z3.simplify(z3.If(z3.ULE(bv(cap, 64), bv(remaining, 64)), bv(cap, 64), bv(remaining, 64)))
        else:
            n = min(cap, remaining)
    data = sb.slice_(content, f.offset, _addv(f.offset, n), w)
    write_window(I, dst.buf, dst.start, data)
    f.offset = _addv(f.offset, n)
    return n


def op_read_all(I, f):
    env = I.env
    fail_if_injected(env.act("read", f.path, mutating=False, whole=True, fobj=f))
    if f.inode.kind == "dir":
        raise FsErr("IsADirectory")
    content = f.inode.sb
    total = content.length()
    data = sb.slice_(content, f.offset, total, I.w) if not (not is_sym(f.offset) and f.offset == 0) else content
    f.offset = total
    return data


def op_write(I, f, data):
    """write(2).  Returns n written."""
    env = I.env
    n = data.length()
    inj = env.act("write", f.path, mutating=True, data=data, append=f.append, fobj=f)
    if inj:
        if inj.startswith("ShortWrite:"):
            # a short write (symbolic prefix reaches the file) whose retry then fails
            t = env.w.fresh_bv("short", 64)
            env.w.assume(z3.UGE(t, 1))
            env.w.assume(z3.ULT(t, bv(n, 64)))
            if env.w.feasible():
                do_write(I, f, sb.slice_(data, 0, t, env.w))
                env.effect("write")
            raise FsErr(inj.split(":", 1)[1], injected=True)
        raise FsErr(inj, injected=True)
    if not f.write:
        raise FsErr("Uncategorized")
    if env.crash is not None:
        env.crash.maybe_torn(I, f, data)
    do_write(I, f, data)
    env.effect("write")
    return n


def do_write(I, f, data):
    ino = f.inode
    touch(ino)
    n = data.length()
    total = ino.sb.length()
    if f.append:
        ino.sb = ino.sb + data
        f.offset = ino.sb.length()
        return
    off = f.offset
    end = _addv(off, n)
    w = I.w
    if is_sym(end) or is_sym(total):
        beyond = w.branch(z3.UGE(bv(end, 64), bv(total, 64)), "write-extends")
    else:
        beyond = end >= total
    if (is_sym(off) or is_sym(total)):
        gap = not w.branch(z3.ULE(bv(off, 64), bv(total, 64)), "write-gap")
    else:
        gap = off > total
    head = ino.sb if (not gap and _same(off, total)) else (sb.slice_(ino.sb, 0, off, w) if not gap else ino.sb + SBytes((sb.Fill(0, I._sub(off, total)),)))
    tail = SBytes() if beyond else sb.slice_(ino.sb, end, total, w)
    ino.sb = head + data + tail
    f.offset = end


def _same(a, b):
    if is_sym(a) or is_sym(b):
        return is_sym(a) and is_sym(b) and a.eq(b)
    return a == b


def op_unlink(I, path):
    env = I.env
    fail_if_injected(env.act("unlink", path, mutating=True))
    parent, name, ino = env.vfs.walk(path, follow_last=False)
    if ino is None:
        raise FsErr("NotFound")
    if ino.kind == "dir":
        raise FsErr("IsADirectory")
    del parent.children[comp_key(name)]
    ino.nlink -= 1
    env.effect("unlink")
    return UNIT


def op_rename(I, src, dst, noclobber=False):
    env = I.env
    fail_if_injected(env.act("rename", src, dst, mutating=True))
    sp, sn, sino = env.vfs.walk(src, follow_last=False)
    if sino is not None and env.trace:
        env.trace[-1]["src_content"] = sino.sb if sino.kind == "file" else None
    if sino is None:
        raise FsErr("NotFound")
    dp, dn, dino = env.vfs.walk(dst, follow_last=False)
    if dp is None:
        raise FsErr("NotFound")
    if dino is not None:
        if noclobber:
            raise FsErr("AlreadyExists")
        if dino.kind == "dir" and sino.kind != "dir":
            raise FsErr("IsADirectory")
        if dino.kind != "dir" and sino.kind == "dir":
            raise FsErr("NotADirectory")
        if dino.kind == "dir" and dino.children:
            raise FsErr("DirectoryNotEmpty")
        dino.nlink -= 1
    del sp.children[comp_key(sn)]
    dp.children[comp_key(dn)] = (dn, sino)
    env.effect("rename")
    return UNIT


def op_link(I, src, dst):
    env = I.env
    fail_if_injected(env.act("link", src, dst, mutating=True))
    sino = env.vfs.lookup(src, follow=False)
    if sino.kind == "dir":
        raise FsErr("PermissionDenied")
    dp, dn, dino = env.vfs.walk(dst, follow_last=False)
    if dino is not None:
        raise FsErr("AlreadyExists")
    if dp is None:
        raise FsErr("NotFound")
    dp.children[comp_key(dn)] = (dn, sino)
    sino.nlink += 1
    env.effect("link")
    return UNIT


def op_symlink(I, target, linkpath):
    env = I.env
    fail_if_injected(env.act("symlink", linkpath, target, mutating=True))
    dp, dn, dino = env.vfs.walk(linkpath, follow_last=False)
    if dino is not None:
        raise FsErr("AlreadyExists")
    if dp is None:
        raise FsErr("NotFound")
    dp.children[comp_key(dn)] = (dn, Inode("symlink", target=target))
    env.effect("symlink")
    return UNIT


def op_stat(I, path, follow=True):
    env = I.env
    fail_if_injected(env.act("stat" if follow else "lstat", path, mutating=False))
    ino = env.vfs.lookup(path, follow)
    return MetaObj(ino)


def op_copy(I, src, dst):
    """std::fs::copy: open src, create/truncate dst, copy bytes.  Three visible steps."""
    env = I.env
    fail_if_injected(env.act("open", src, mutating=False, flags=dict(read=True)))
    sino = env.vfs.lookup(src)
    if sino.kind == "dir":
        raise FsErr("InvalidInput")
    fail_if_injected(env.act("open", dst, mutating=True, flags=dict(write=True, create=True, truncate=True), via="copy"))
    dp, dn, dino = env.vfs.walk(dst)
    if dino is None:
        if dp is None:
            raise FsErr("NotFound")
        dino = Inode("file")
        dp.children[comp_key(dn)] = (dn, dino)
        env.effect("create")
    elif dino.kind == "dir":
        raise FsErr("IsADirectory")
    else:
        if dino is sino:
            # copying a file onto itself truncates it first
            dino.sb = SBytes()
            env.effect("truncate")
            return 0
        dino.sb = SBytes()
        env.effect("truncate")
    data = sino.sb
    fail_if_injected(env.act("write", dst, mutating=True, data=data, via="copy"))
    dino.sb = data
    env.effect("write")
    return data.length()


def op_reflink(I, src, dst):
    """reflink_copy::reflink on Linux: open(src); create_new(dst); ioctl(FICLONE); on failure the
    destination is removed again."""
    env = I.env
    fail_if_injected(env.act("open", src, mutating=False, flags=dict(read=True), via="reflink"))
    sino = env.vfs.lookup(src)
    if sino.kind == "dir":
        pass
    fail_if_injected(env.act("open", dst, mutating=True, flags=dict(write=True, create_new=True), via="reflink"))
    dp, dn, dino = env.vfs.walk(dst, follow_last=True)
    if dino is not None:
        raise FsErr("AlreadyExists")
    if dp is None:
        raise FsErr("NotFound")
    ni = Inode("file")
    dp.children[comp_key(dn)] = (dn, ni)
    inj = env.act("ficlone", src, dst, mutating=True)
    supported = env.reflink_supported
    if supported is None:
        supported = env.w.choose(2, "reflink-supported") == 0
        env.reflink_supported = supported
    if inj or not supported or sino.kind != "file":
        # AutoRemovedFile: best-effort unlink of the half-made destination
        env.act("unlink", dst, mutating=True, via="reflink-cleanup")
        dp.children.pop(comp_key(dn), None)
        if inj:
            raise FsErr(inj, injected=True)
        raise FsErr("Unsupported" if sino.kind == "file" else "InvalidInput")
    ni.sb = sino.sb
    return UNIT


def op_readdir(I, path):
    env = I.env
    fail_if_injected(env.act("readdir", path, mutating=False))
    ino = env.vfs.lookup(path)
    if ino.kind != "dir":
        raise FsErr("NotADirectory")
    ents = sorted(ino.children.values(), key=lambda e: repr(comp_key(e[0])))
    return [(name, child) for name, child in ents]


def op_remove_dir_all(I, path):
    env = I.env
    fail_if_injected(env.act("lstat", path, mutating=False))
    parent, name, ino = env.vfs.walk(path, follow_last=False)
    if ino is None:
        raise FsErr("NotFound")
    if ino.kind == "symlink":
        return op_unlink(I, path)
    if ino.kind != "dir":
        raise FsErr("NotADirectory")

    def rec(p, node):
        for nm, ch in op_readdir_raw(node):
            cp = path_join(p, nm)
            if ch.kind == "dir":
                rec(cp, ch)
            else:
                fail_if_injected(env.act("unlink", cp, mutating=True))
                node.children.pop(comp_key(nm), None)
                env.effect("unlink")
        fail_if_injected(env.act("rmdir", p, mutating=True))
        env.effect("rmdir")
    rec(path, ino)
    if parent is not None:
        parent.children.pop(comp_key(name), None)
    return UNIT


def op_readdir_raw(node):
    return sorted(node.children.values(), key=lambda e: repr(comp_key(e[0])))


class MetaObj:
    rust_type = "Metadata"

    def __init__(self, ino):
        self.kind = ino.kind
        self.len = ino.sb.length() if ino.kind == "file" else 4096
        if getattr(ino, "ino_no", None) is None:
            Inode._n += 1
            ino.ino_no = 1000 + Inode._n
        self.ino_id = ino.ino_no
        self.nlink = ino.nlink
        self.mtime = inode_mtime(ino)


# ---------------------------------------------------------------------------
# std::fs free functions

def _p(v):
    return as_sbytes(v)


@T.path("std::fs::create_dir_all", "create_dir_all")
def _create_dir_all(I, a, d):
    return wrap(I, lambda: op_mkdir_p(I, _p(a[0])))


@T.path("std::fs::create_dir")
def _create_dir(I, a, d):
    return wrap(I, lambda: op_mkdir(I, _p(a[0])))


@T.path("std::fs::remove_file", "remove_file")
def _remove_file(I, a, d):
    return wrap(I, lambda: op_unlink(I, _p(a[0])))


@T.path("std::fs::remove_dir_all", "remove_dir_all")
def _remove_dir_all(I, a, d):
    return wrap(I, lambda: op_remove_dir_all(I, _p(a[0])))


@T.path("std::fs::rename")
def _fs_rename(I, a, d):
    return wrap(I, lambda: op_rename(I, _p(a[0]), _p(a[1])))


@T.path("std::fs::copy")
def _fs_copy(I, a, d):
    return wrap(I, lambda: op_copy(I, _p(a[0]), _p(a[1])))


@T.path("std::fs::hard_link")
def _fs_hard_link(I, a, d):
    return wrap(I, lambda: op_link(I, _p(a[0]), _p(a[1])))


@T.path("std::os::unix::fs::symlink")
def _fs_symlink(I, a, d):
    return wrap(I, lambda: op_symlink(I, _p(a[0]), _p(a[1])))


def reflink_outer(I, src, dst):
    """reflink_copy::reflink: sys::reflink + error remapping when `from` is not a regular file."""
    try:
        return op_reflink(I, src, dst)
    except FsErr as e:
        try:
            I.env.act("lstat", src, mutating=False, via="reflink-diagnose")
            ino = I.env.vfs.lookup(src, follow=False)
            regular = ino.kind == "file"
        except FsErr:
            regular = False
        if not regular:
            raise FsErr("InvalidInput", injected=e.injected)
        raise


@T.path("reflink_copy::reflink")
def _reflink(I, a, d):
    return wrap(I, lambda: reflink_outer(I, _p(a[0]), _p(a[1])))


@T.path("reflink_copy::reflink_or_copy")
def _reflink_or_copy(I, a, d):
    def go():
        try:
            op_reflink(I, _p(a[0]), _p(a[1]))
            return NONE()
        except FsErr:
            return SOME(op_copy(I, _p(a[0]), _p(a[1])))
    return wrap(I, go)


@T.path("std::fs::read")
def _fs_read(I, a, d):
    def go():
        f = op_open(I, _p(a[0]), read=True)
        data = op_read_all(I, f)
        f.closed = True
        return mk_vec_u8(data)
    return wrap(I, go)


@T.path("std::fs::read_to_string")
def _fs_read_to_string(I, a, d):
    def go():
        f = op_open(I, _p(a[0]), read=True)
        data = op_read_all(I, f)
        if not utf8_check(I, data):
            raise FsErr("InvalidData")
        return mk_string(data)
    return wrap(I, go)


@T.path("std::fs::write")
def _fs_write(I, a, d):
    def go():
        f = op_open(I, _p(a[0]), write=True, create=True, truncate=True)
        op_write(I, f, as_sbytes(a[1]))
        return UNIT
    return wrap(I, go)


@T.path("std::fs::metadata", "std::path::Path::metadata")
def _fs_metadata(I, a, d):
    return wrap(I, lambda: op_stat(I, _p(a[0]), True))


@T.path("std::fs::symlink_metadata", "std::path::Path::symlink_metadata")
def _fs_symlink_metadata(I, a, d):
    return wrap(I, lambda: op_stat(I, _p(a[0]), False))


@T.path("std::path::Path::exists")
def _path_exists(I, a, d):
    try:
        op_stat(I, _p(a[0]), True)
        return True
    except FsErr:
        return False


@T.path("std::path::Path::try_exists")
def _path_try_exists(I, a, d):
    try:
        op_stat(I, _p(a[0]), True)
        return OK(True)
    except FsErr as e:
        if e.kind == "NotFound":
            return OK(False)
        return ERR(io_err(e.kind, e.injected))


@T.path("std::path::Path::is_file")
def _path_is_file(I, a, d):
    try:
        return op_stat(I, _p(a[0]), True).kind == "file"
    except FsErr:
        return False


@T.path("std::path::Path::is_dir")
def _path_is_dir(I, a, d):
    try:
        return op_stat(I, _p(a[0]), True).kind == "dir"
    except FsErr:
        return False


@T.path("std::fs::Metadata::len")
def _meta_len(I, a, d):
    return peel(a[0]).len


@T.path("std::fs::Metadata::is_dir")
def _meta_is_dir(I, a, d):
    return peel(a[0]).kind == "dir"


@T.path("std::fs::Metadata::is_file")
def _meta_is_file(I, a, d):
    return peel(a[0]).kind == "file"


@T.path("std::fs::Metadata::is_symlink")
def _meta_is_symlink(I, a, d):
    return peel(a[0]).kind == "symlink"


class FileTypeObj:
    rust_type = "FileType"

    def __init__(self, kind):
        self.kind = kind


@T.path("std::fs::Metadata::file_type")
def _meta_file_type(I, a, d):
    return FileTypeObj(peel(a[0]).kind)


@T.path("std::fs::FileType::is_dir")
def _ft_is_dir(I, a, d):
    return peel(a[0]).kind == "dir"


@T.path("std::fs::FileType::is_file")
def _ft_is_file(I, a, d):
    return peel(a[0]).kind == "file"


@T.path("std::fs::FileType::is_symlink")
def _ft_is_symlink(I, a, d):
    return peel(a[0]).kind == "symlink"


class DirEntryObj:
    rust_type = "DirEntry"

    def __init__(self, path, ino):
        self.path = path
        self.ino = ino


@T.path("std::fs::read_dir", "std::path::Path::read_dir")
def _read_dir(I, a, d):
    base = _p(a[0])

    def go():
        ents = op_readdir(I, base)
        return RIter.from_list([OK(DirEntryObj(path_join(base, nm), ch)) for nm, ch in ents])
    return wrap(I, go)


@T.path("std::fs::DirEntry::path")
def _direntry_path(I, a, d):
    return mk_pathbuf(peel(a[0]).path)


# -- OpenOptions / DirBuilder / File

class OpenOptionsObj:
    rust_type = "OpenOptions"

    def __init__(self):
        self.o = dict(read=False, write=False, append=False, create=False, truncate=False, create_new=False)

    def rust_clone(self, I):
        n = OpenOptionsObj()
        n.o = dict(self.o)
        return n


def _oo_new(I, a, d):
    return OpenOptionsObj()


def _oo_setter(name):
    def f(I, a, d):
        o = peel(a[0])
        v = a[1]
        if is_sym(v):
            v = I.w.branch(v, "openopt")
        o.o[name] = bool(v)
        return a[0]
    return f


T.path("std::fs::OpenOptions::new")(_oo_new)
for _n in ("read", "write", "append", "create", "truncate", "create_new"):
    T.path("std::fs::OpenOptions::" + _n)(_oo_setter(_n))


@T.path("std::fs::OpenOptions::open")
def _oo_open(I, a, d):
    o = peel(a[0])
    return wrap(I, lambda: op_open(I, _p(a[1]), **o.o))


@T.path("std::fs::File::open")
def _file_open(I, a, d):
    return wrap(I, lambda: op_open(I, _p(a[0]), read=True))


@T.path("std::fs::File::create")
def _file_create(I, a, d):
    return wrap(I, lambda: op_open(I, _p(a[0]), write=True, create=True, truncate=True))


@T.path("std::fs::File::create_new")
def _file_create_new(I, a, d):
    return wrap(I, lambda: op_open(I, _p(a[0]), write=True, create_new=True))


@T.path("std::fs::File::options")
def _file_options(I, a, d):
    return OpenOptionsObj()


@T.path("std::fs::File::metadata")
def _file_metadata(I, a, d):
    f = peel(a[0])
    return OK(MetaObj(f.inode))


@T.path("std::fs::File::set_len")
def _file_set_len(I, a, d):
    f = peel(a[0])
    n = a[1]

    def go():
        fail_if_injected(I.env.act("ftruncate", f.path, mutating=True, fobj=f))
        set_len(I, f.inode, n)
        I.env.effect("ftruncate")
        return UNIT
    return wrap(I, go)


def set_len(I, ino, n):
    cur = ino.sb.length()
    if is_sym(cur) or is_sym(n):
        shrink = I.w.branch(z3.ULE(bv(n, 64), bv(cur, 64)), "set_len")
    else:
        shrink = n <= cur
    if shrink:
        ino.sb = sb.slice_(ino.sb, 0, n, I.w)
    else:
        ino.sb = ino.sb + SBytes((sb.Fill(0, I._sub(n, cur)),))


@T.path("std::fs::File::sync_all", "std::fs::File::sync_data")
def _file_sync(I, a, d):
    f = peel(a[0])

    def go():
        fail_if_injected(I.env.act("fsync", f.path, mutating=False, fobj=f))
        return UNIT
    return wrap(I, go)


@T.path("std::fs::File::try_clone")
def _file_try_clone(I, a, d):
    return OK(peel(a[0]))


class DirBuilderObj:
    rust_type = "DirBuilder"

    def __init__(self):
        self.recursive = False


@T.path("std::fs::DirBuilder::new")
def _db_new(I, a, d):
    return DirBuilderObj()


@T.path("std::fs::DirBuilder::recursive")
def _db_recursive(I, a, d):
    peel(a[0]).recursive = bool(a[1])
    return a[0]


@T.path("std::fs::DirBuilder::create")
def _db_create(I, a, d):
    b = peel(a[0])
    if b.recursive:
        return wrap(I, lambda: op_mkdir_p(I, _p(a[1])))
    return wrap(I, lambda: op_mkdir(I, _p(a[1])))


# -- Read / Write traits on File

def _mut_window(I, v):
    v = peel(v)
    if isinstance(v, MutBytesRef):
        return v
    if isinstance(v, BufObj):
        return MutBytesRef(v, 0, v.sb.length())
    raise Inconclusive("expected &mut [u8], got %r" % (v,))


@T.trait("Read", "read", r"(^|::)File$")
def _file_read(I, a, d):
    f = peel(a[0])
    dst = _mut_window(I, a[1])
    return wrap(I, lambda: op_read(I, f, dst))


def generic_read(I, recv, dst):
    """<T as Read>::read on any receiver (model File or an interpreted impl)."""
    v = peel(recv)
    if isinstance(v, FileObj):
        return wrap(I, lambda: op_read(I, v, dst))
    return I.call_trait_method("Read", "read", [recv, dst])


@T.trait("Read", "read_to_end")
def _read_to_end(I, a, d):
    """Default std implementation: repeated read() into spare capacity until Ok(0)."""
    recv, vec = a[0], peel(a[1])
    v = peel(recv)
    if isinstance(v, FileObj):
        def go():
            data = op_read_all(I, v)
            vec.sb = vec.sb + data
            return data.length()
        return wrap(I, go)
    total = 0
    for _ in range(64):
        probe = BufObj("array", SBytes((sb.Fill(0, 8192),)))
        dst = MutBytesRef(probe, 0, 8192)
        r = I.call_trait_method("Read", "read", [recv, dst])
        if r.vname == "Err":
            e = r.fields[0]
            if isinstance(e, IoError) and e.kind == "Interrupted":
                continue
            return r
        n = r.fields[0]
        if is_sym(n):
            if I.w.branch(n == 0, "rte-eof"):
                return OK(total)
        elif n == 0:
            return OK(total)
        vec.sb = vec.sb + sb.slice_(probe.sb, 0, n, I.w)
        total = _addv(total, n)
    raise Hang("read_to_end does not terminate")


@T.trait("Read", "read_to_string")
def _read_to_string(I, a, d):
    recv, s = a[0], peel(a[1])
    tmp = BufObj("Vec<u8>", b"")
    r = _read_to_end(I, [recv, Ref(ValLoc(tmp), True)], d)
    if r.vname == "Err":
        return r
    s.sb = s.sb + tmp.sb
    return r


@T.trait("Read", "read_exact")
def _read_exact(I, a, d):
    raise Inconclusive("read_exact")


@T.trait("Write", "write", r"(^|::)File$")
def _file_write(I, a, d):
    f = peel(a[0])
    data = as_sbytes(a[1])
    return wrap(I, lambda: op_write(I, f, data))


@T.trait("Write", "flush", r"(^|::)File$")
def _file_flush(I, a, d):
    return OK(UNIT)


def generic_write(I, recv, data_ref):
    v = peel(recv)
    if isinstance(v, FileObj):
        return wrap(I, lambda: op_write(I, v, as_sbytes(data_ref)))
    if isinstance(v, NamedTempFileObj):
        return wrap(I, lambda: op_write(I, v.file, as_sbytes(data_ref)))
    return I.call_trait_method("Write", "write", [recv, data_ref])


@T.trait("Write", "write_all")
def _write_all(I, a, d):
    """std's default write_all: loop { write(buf) -> n; n == 0 => WriteZero; buf = &buf[n..] }"""
    recv = a[0]
    data = as_sbytes(a[1])
    pos = 0
    for _ in range(16):
        total = data.length()
        if is_sym(total) or is_sym(pos):
            done = I.w.branch(bv(pos, 64) == bv(total, 64), "write_all-done")
        else:
            done = pos == total
        if done:
            return OK(UNIT)
        chunk = BytesRef(sb.slice_(data, pos, total, I.w), "bytes")
        r = generic_write(I, recv, chunk)
        if r.vname == "Err":
            e = r.fields[0]
            if isinstance(e, IoError) and e.kind == "Interrupted":
                continue
            return r
        n = r.fields[0]
        if is_sym(n):
            if I.w.branch(n == 0, "write_all-zero"):
                return ERR(io_err("WriteZero"))
            rem = I._sub(total, pos)
            if not I.w.branch(z3.ULE(bv(n, 64), bv(rem, 64)), "write_all-n<=len"):
                panic("range start index out of range (write returned more than the buffer)")
        else:
            if n == 0:
                return ERR(io_err("WriteZero"))
            rem = I._sub(total, pos)
            if not is_sym(rem) and n > rem:
                panic("range start index out of range (write returned more than the buffer)")
        pos = _addv(pos, n)
    raise Hang("write_all does not make progress")


@T.trait("Write", "write_fmt")
def _write_fmt(I, a, d):
    """std's default write_fmt: core::fmt::write drives an adapter whose write_str is write_all, so every
    literal piece and every argument of the format string reaches the writer as its own write_all."""
    from .core import format_pieces
    fa = peel(a[1])
    for piece in format_pieces(I, fa):
        r = I.call_trait_method("Write", "write_all", [a[0], BytesRef(piece, "bytes")])
        if r.vname == "Err":
            return r
    return OK(UNIT)


@T.trait("Write", "flush")
def _generic_flush(I, a, d):
    v = peel(a[0])
    if isinstance(v, (FileObj, NamedTempFileObj)):
        return OK(UNIT)
    return I.call_trait_method("Write", "flush", a)


@T.trait("AsRawFd", "as_raw_fd")
def _as_raw_fd(I, a, d):
    return RawFd(peel(a[0]))


class RawFd:
    rust_type = "RawFd"

    def __init__(self, f):
        self.f = f if isinstance(f, FileObj) else f.file


@T.path("libc::posix_fallocate64", "posix_fallocate64", "libc::posix_fallocate", "posix_fallocate")
def _posix_fallocate(I, a, d):
    fd, off, ln = a
    f = fd.f
    inj = I.env.act("fallocate", f.path, mutating=True, length=ln, fobj=f)
    if inj:
        return ERRNO.get(inj, 5)
    # len is i64
    if is_sym(ln):
        if I.w.branch(ln == 0, "fallocate-len0"):
            return 22
        if I.w.branch(ln < 0, "fallocate-neg"):
            return 22
    elif ln == 0 or to_signed(ln, 64) < 0:
        return 22
    if not (isinstance(off, int) and off == 0):
        raise Inconclusive("fallocate with offset")
    cur = f.inode.sb.length()
    if is_sym(cur) or is_sym(ln):
        grow = I.w.branch(z3.UGT(bv(ln, 64), bv(cur, 64)), "fallocate-grow")
    else:
        grow = ln > cur
    if grow:
        f.inode.sb = f.inode.sb + SBytes((sb.Fill(0, I._sub(ln, cur)),))
    I.env.effect("fallocate")
    return 0


# -- BufReader / lines

class BufReaderObj:
    rust_type = "BufReader"

    def __init__(self, inner):
        self.inner = inner


@T.path("std::io::BufReader::new")
def _bufreader_new(I, a, d):
    return BufReaderObj(a[0])


def utf8_check(I, line):
    """Is this SBytes valid UTF-8?  bool (forks on symbolic bytes through the solver)."""
    segs = line.segs

    def is_text_atom(x):
        # text atoms (decimal / hex / base64 digits, opaque JSON text) and cuts of them are ASCII-safe boundaries
        return isinstance(x, sb.Atom) or (isinstance(x, sb.Junk) and isinstance(x.id, tuple) and x.id and x.id[0] == "atomcut")
    if any(isinstance(s, sb.CutSeg) or is_text_atom(s) for s in segs) and all(isinstance(s, (bytes, sb.CutSeg)) or is_text_atom(s) for s in segs):
        # validity decomposes over the runs between text atoms; a run is concrete bytes optionally ending in a symbolic cut
        run = b""
        for i, s_ in enumerate(segs):
            if isinstance(s_, bytes):
                run += s_
            elif isinstance(s_, sb.CutSeg):
                def valid(b, pre=run):
                    try:
                        (pre + b).decode("utf-8")
                        return True
                    except UnicodeDecodeError:
                        return False
                if not I.w.branch(sb.cut_cond(s_, valid), "utf8-cut"):
                    return False
                run = b""
                if i != len(segs) - 1 and not is_text_atom(segs[i + 1]):
                    raise Inconclusive("utf8 validity after a cut")
            else:
                try:
                    run.decode("utf-8")
                except UnicodeDecodeError:
                    return False
                run = b""
        try:
            run.decode("utf-8")
            return True
        except UnicodeDecodeError:
            return False
    if all(isinstance(s, (bytes, sb.Atom)) for s in segs):
        # atoms are valid UTF-8 text by axiom; concrete runs between them must be valid on their own
        buf = b""
        for s in segs:
            if isinstance(s, bytes):
                buf += s
            else:
                try:
                    buf.decode("utf-8")
                except UnicodeDecodeError:
                    return False
                buf = b""
        try:
            buf.decode("utf-8")
            return True
        except UnicodeDecodeError:
            return False
    # symbolic bytes: run the UTF-8 acceptor over the byte sequence with the symbolic bytes as z3 terms
    # and decide validity with ONE solver branch.
    flat = []
    for s in segs:
        if isinstance(s, bytes):
            flat.extend(s)
        elif isinstance(s, sb.SymByte):
            flat.append(s.bv)
        elif is_text_atom(s):
            flat.append(0x41)      # any ASCII stand-in
        else:
            raise Inconclusive("utf8 validity of %r" % (s,))
    return I.w.branch(utf8_valid_formula(flat), "utf8-valid")


# UTF-8 acceptor: states 0 start, 1 need one continuation, 2 need two (any first), 3 after E0, 4 after ED,
# 5 need three (any first), 6 after F0, 7 after F4, 8 reject
_U8_CLASSES = [(0x00, 0x7F), (0x80, 0x8F), (0x90, 0x9F), (0xA0, 0xBF), (0xC2, 0xDF), (0xE0, 0xE0), (0xE1, 0xEC), (0xED, 0xED),
               (0xEE, 0xEF), (0xF0, 0xF0), (0xF1, 0xF3), (0xF4, 0xF4)]


def _u8_class(b):
    for k, (lo, hi) in enumerate(_U8_CLASSES):
        if lo <= b <= hi:
            return k
    return 12


def _u8_step(state, cls):
    if state == 8:
        return 8
    if state == 0:
        return {0: 0, 4: 1, 5: 3, 6: 2, 7: 4, 8: 2, 9: 6, 10: 5, 11: 7}.get(cls, 8)
    cont = cls in (1, 2, 3)
    if state == 1:
        return 0 if cont else 8
    if state == 2:
        return 1 if cont else 8
    if state == 3:
        return 1 if cls == 3 else 8
    if state == 4:
        return 1 if cls in (1, 2) else 8
    if state == 5:
        return 2 if cont else 8
    if state == 6:
        return 2 if cls in (2, 3) else 8
    if state == 7:
        return 2 if cls == 1 else 8
    return 8


def utf8_valid_formula(flat):
    """flat: list of ints and z3 BitVec(8) terms -> bool or z3 Bool."""
    state = 0          # python int or z3 Int expression
    for x in flat:
        if not is_sym(x):
            cls = _u8_class(x)
            if not is_sym(state):
                state = _u8_step(state, cls)
            else:
                state = _ite_states(state, lambda s_: _u8_step(s_, cls))
            continue
        conds = [z3.And(z3.UGE(x, lo), z3.ULE(x, hi)) for lo, hi in _U8_CLASSES]

        def by_class(s_):
            e = z3.IntVal(_u8_step(s_, 12))
            for k in range(len(_U8_CLASSES) - 1, -1, -1):
                e = z3.If(conds[k], z3.IntVal(_u8_step(s_, k)), e)
            return e
        if not is_sym(state):
            state = by_class(state)
        else:
            e = by_class(8)
            for s_ in range(7, -1, -1):
                e = z3.If(state == s_, by_class(s_), e)
            state = e
    if not is_sym(state):
        return state == 0
    return z3.simplify(state == 0)


def _ite_states(state, f):
    e = z3.IntVal(f(8))
    for s_ in range(7, -1, -1):
        e = z3.If(state == s_, z3.IntVal(f(s_)), e)
    return e


def lines_of(I, content):
    """std::io::BufRead::lines semantics over a whole byte string -> list of Ok(String)/Err(InvalidData)."""
    from .core import decide_symbytes, split_with_cuts
    content = decide_symbytes(I, content, [0x0A])
    parts = split_with_cuts(I, content, 0x0A)
    # a trailing newline does not produce a final empty line
    if parts and not parts[-1].segs:
        parts = parts[:-1]
    out = []
    for p in parts:
        # strip one trailing '\r'
        if p.segs:
            last = p.segs[-1]
            if isinstance(last, sb.SymByte):
                if I.w.branch(last.bv == 0x0D, "line-cr"):
                    p = SBytes(p.segs[:-1])
            elif isinstance(last, bytes) and last.endswith(b"\r"):
                p = SBytes(p.segs[:-1] + (last[:-1],))
            elif isinstance(last, sb.CutSeg):
                if I.w.branch(sb.cut_cond(last, lambda b: b.endswith(b"\r")), "line-cr-cut"):
                    p = SBytes(p.segs[:-1] + (sb.CutSeg(last.data, last.lo, I._sub(last.hi, 1)),))
        if utf8_check(I, p):
            out.append(OK(mk_string(p)))
        else:
            out.append(ERR(io_err("InvalidData")))
    return out


@T.trait("BufRead", "lines")
def _bufread_lines(I, a, d):
    br = peel(a[0])
    f = peel(br.inner)
    if not isinstance(f, FileObj):
        raise Inconclusive("lines() over %r" % (f,))
    state = {"items": None}

    def nxt(I2):
        if state["items"] is None:
            try:
                data = op_read_all(I2, f)
            except FsErr as e:
                # std::io::Lines is not fused on errors: an injected fault happens once and reading then
                # continues; an error caused by the state of the filesystem (e.g. the path is a directory)
                # comes back on every call
                return ERR(io_err(e.kind, e.injected))
            state["items"] = lines_of(I2, data)
        if state["items"]:
            return state["items"].pop(0)
        return RIter.STOP
    return RIter(nxt)


# ---------------------------------------------------------------------------
# tempfile

class NamedTempFileObj:
    rust_type = "NamedTempFile"

    def __init__(self, file, path):
        self.file = file
        self.path = path
        self.live = True

    def rust_drop(self, I):
        if self.live:
            self.live = False
            try:
                op_unlink(I, self.path)
            except FsErr:
                pass
        self.file.closed = True

    def __repr__(self):
        return "NamedTempFile(%r)" % (self.path,)


def new_temp_in(I, dirpath):
    env = I.env
    t = getattr(env, "cur_thread", None)
    if t is not None:
        # concurrent users: names are unique per process (natively: random), independent of the schedule
        t.tmp_counter += 1
        name = (".tmpT%d_%04d" % (t.tid, t.tmp_counter)).encode()
    else:
        env.vfs.tmp_counter += 1
        name = (".tmp%06d" % env.vfs.tmp_counter).encode()
    path = path_join(dirpath, SBytes(name))
    f = op_open(I, path, read=True, write=True, create_new=True)
    f.inode.tag = ("tempfile", env.pid)
    return NamedTempFileObj(f, path)


@T.path("tempfile::NamedTempFile::new_in")
def _ntf_new_in(I, a, d):
    return wrap(I, lambda: new_temp_in(I, _p(a[0])))


@T.path("tempfile::NamedTempFile::new")
def _ntf_new(I, a, d):
    return wrap(I, lambda: new_temp_in(I, SBytes(b"/root/systmp")))


@T.path("tempfile::NamedTempFile::as_file")
def _ntf_as_file(I, a, d):
    return Ref(ValLoc(peel(a[0]).file))


@T.path("tempfile::NamedTempFile::as_file_mut")
def _ntf_as_file_mut(I, a, d):
    return Ref(ValLoc(peel(a[0]).file), True)


@T.path("tempfile::NamedTempFile::path")
def _ntf_path(I, a, d):
    return BytesRef(peel(a[0]).path, "path")


def _persist(I, a, noclobber):
    t = peel(a[0])
    dst = _p(a[1])
    try:
        if noclobber:
            # link + unlink
            op_link(I, t.path, dst)
            t.live = False
            try:
                op_unlink(I, t.path)
            except FsErr:
                pass
        else:
            op_rename(I, t.path, dst)
            t.live = False
        return OK(t.file)
    except FsErr as e:
        return ERR(Agg("struct", "PersistError", [io_err(e.kind, e.injected), t], ["error", "file"]))


@T.path("tempfile::NamedTempFile::persist")
def _ntf_persist(I, a, d):
    return _persist(I, a, False)


@T.path("tempfile::NamedTempFile::persist_noclobber")
def _ntf_persist_noclobber(I, a, d):
    return _persist(I, a, True)


@T.path("tempfile::NamedTempFile::keep")
def _ntf_keep(I, a, d):
    t = peel(a[0])
    t.live = False
    return OK(Agg("tuple", None, [t.file, mk_pathbuf(t.path)]))


@T.path("tempfile::NamedTempFile::into_file")
def _ntf_into_file(I, a, d):
    t = peel(a[0])
    t.rust_drop(I)
    return t.file


@T.path("tempfile::NamedTempFile::close")
def _ntf_close(I, a, d):
    t = peel(a[0])
    if t.live:
        t.live = False
        return wrap(I, lambda: op_unlink(I, t.path))
    return OK(UNIT)


T.structs["PersistError"] = ["error", "file"]


@T.trait("Write", "write", r"NamedTempFile$")
def _ntf_write(I, a, d):
    t = peel(a[0])
    data = as_sbytes(a[1])
    return wrap(I, lambda: op_write(I, t.file, data))


@T.trait("Write", "flush", r"NamedTempFile$")
def _ntf_flush(I, a, d):
    return OK(UNIT)


@T.trait("Seek", "seek")
def _seek(I, a, d):
    f = peel(a[0])
    if isinstance(f, NamedTempFileObj):
        f = f.file
    pos = peel(a[1])
    if not isinstance(f, FileObj) or not isinstance(pos, Adt):
        raise Inconclusive("Seek::seek on %r" % (f,))
    if pos.vname == "Start":
        f.offset = pos.fields[0]
    elif pos.vname == "End":
        if not (isinstance(pos.fields[0], int) and pos.fields[0] == 0):
            raise Inconclusive("SeekFrom::End(n)")
        f.offset = f.inode.sb.length()
    elif pos.vname == "Current":
        if not (isinstance(pos.fields[0], int) and pos.fields[0] == 0):
            raise Inconclusive("SeekFrom::Current(n)")
    else:
        raise Inconclusive("SeekFrom::%s" % pos.vname)
    return OK(f.offset)


@T.trait("Seek", "rewind")
def _rewind(I, a, d):
    f = peel(a[0])
    if isinstance(f, NamedTempFileObj):
        f = f.file
    f.offset = 0
    return OK(UNIT)


@T.path("tempfile::tempfile", "tempfile::tempfile_in", "tempfile::tempdir", "tempfile::tempdir_in", "tempfile::Builder::new")
def _tempfile_other(I, a, d):
    raise Inconclusive("tempfile API %s" % d.get("raw"))


# ---------------------------------------------------------------------------
# memmap2

class MmapObj:
    rust_type = "MmapMut"

    def __init__(self, inode, length):
        self.inode = inode
        self.len = length

    def as_mut_bytes(self, I):
        return MutBytesRef(self.inode, 0, self.len)

    def rust_drop(self, I):
        pass


@T.path("memmap2::MmapMut::map_mut")
def _mmap_map_mut(I, a, d):
    f = peel(a[0])
    inj = I.env.act("mmap", f.path, mutating=False, fobj=f)
    if inj:
        return ERR(io_err(inj, True))
    ln = f.inode.sb.length()
    if is_sym(ln):
        if I.w.branch(ln == 0, "mmap-len0"):
            return ERR(io_err("InvalidInput"))
    elif ln == 0:
        return ERR(io_err("InvalidInput"))
    return OK(MmapObj(f.inode, ln))


@T.trait("DerefMut", "deref_mut", r"MmapMut$")
def _mmap_deref_mut(I, a, d):
    return peel(a[0]).as_mut_bytes(I)


@T.trait("Deref", "deref", r"MmapMut$")
def _mmap_deref(I, a, d):
    m = peel(a[0])
    return BytesRef(sb.slice_(m.inode.sb, 0, m.len, I.w))


@T.path("memmap2::MmapMut::flush_async", "memmap2::MmapMut::flush")
def _mmap_flush(I, a, d):
    return OK(UNIT)


@T.trait("DerefMut", "deref_mut")
def _generic_deref_mut(I, a, d):
    v = peel(a[0])
    if isinstance(v, BufObj):
        return MutBytesRef(v, 0, v.sb.length())
    if isinstance(v, MmapObj):
        return v.as_mut_bytes(I)
    if isinstance(v, BoxV):
        return Ref(CellLoc(v.cell), True)
    if hasattr(v, "rust_deref_mut"):
        return v.rust_deref_mut(I)
    raise Inconclusive("DerefMut on %r" % (v,))


# ---------------------------------------------------------------------------
# walkdir

class WalkDirObj:
    rust_type = "WalkDir"

    def __init__(self, root):
        self.root = root

    def into_iter(self, I):
        root = self.root
        state = {"stack": None}

        def nxt(I2):
            if state["stack"] is None:
                state["stack"] = []
                try:
                    fail_if_injected(I2.env.act("lstat", root, mutating=False))
                    p, n, ino = I2.env.vfs.walk(root, follow_last=True)
                    if ino is None:
                        raise FsErr("NotFound")
                except FsErr as e:
                    return ERR(WalkDirError(e.kind, e.injected))
                state["stack"].append(("visit", root, ino))
            while state["stack"]:
                kind, path, ino = state["stack"].pop()
                if kind == "visit":
                    if ino.kind == "dir":
                        state["stack"].append(("expand", path, ino))
                    return OK(WDEntry(path, ino.kind))
                try:
                    ents = op_readdir(I2, path)
                except FsErr as e:
                    return ERR(WalkDirError(e.kind, e.injected))
                for nm, ch in reversed(ents):
                    state["stack"].append(("visit", path_join(path, nm), ch))
            return RIter.STOP
        return RIter(nxt)


class WDEntry:
    rust_type = "walkdir::DirEntry"

    def __init__(self, path, kind):
        self.path = path
        self.kind = kind


class WalkDirError:
    rust_type = "walkdir::Error"

    def __init__(self, kind, injected=False):
        self.kind = kind
        self.injected = injected


@T.path("walkdir::WalkDir::new")
def _walkdir_new(I, a, d):
    return WalkDirObj(_p(a[0]))


@T.path("walkdir::DirEntry::path")
def _wd_path(I, a, d):
    return BytesRef(peel(a[0]).path, "path")


@T.path("walkdir::DirEntry::file_type")
def _wd_file_type(I, a, d):
    return FileTypeObj(peel(a[0]).kind)


@T.path("walkdir::DirEntry::into_path")
def _wd_into_path(I, a, d):
    return mk_pathbuf(peel(a[0]).path)


@T.path("walkdir::Error::io_error")
def _wd_io_error(I, a, d):
    e = peel(a[0])
    return SOME(Ref(ValLoc(io_err(e.kind, e.injected))))


# ---------------------------------------------------------------------------
# io::Error

@T.path("std::io::Error::new")
def _ioerror_new(I, a, d):
    k = peel(a[0])
    return IoError(k.vname, payload=a[1])


@T.path("std::io::Error::other")
def _ioerror_other(I, a, d):
    return IoError("Other", payload=a[0])


@T.path("std::io::Error::kind")
def _ioerror_kind(I, a, d):
    e = peel(a[0])
    if e.kind == "?" and I.env.fault is not None:
        I.env.fault.decide_kind(I.env, e)
    return error_kind(e.kind if e.kind in __import__("mirsym.interp", fromlist=["STD_ENUMS"]).STD_ENUMS["ErrorKind"] else "Other")


@T.path("std::io::Error::last_os_error")
def _ioerror_last(I, a, d):
    return IoError("Other")


@T.path("std::io::Error::from_raw_os_error")
def _ioerror_from_raw(I, a, d):
    return IoError("Other")


@T.trait("From", "from", r"io::Error$|^Error$")
def _ioerror_from(I, a, d):
    v = peel(a[0])
    if isinstance(v, IoError):
        return v
    if isinstance(v, Adt) and v.ty == "ErrorKind":
        return IoError(v.vname)
    return IoError("Other", payload=v)


# ---------------------------------------------------------------------------
# time

class SystemTimeObj:
    rust_type = "SystemTime"

    def __init__(self, millis):
        self.millis = millis


class DurationObj:
    rust_type = "Duration"

    def __init__(self, millis):
        self.millis = millis


@T.path("std::time::SystemTime::now")
def _systemtime_now(I, a, d):
    return SystemTimeObj(I.env.now_millis())


T.consts["UNIX_EPOCH"] = lambda I: SystemTimeObj(0)


@T.path("std::time::SystemTime::duration_since")
def _duration_since(I, a, d):
    x, y = peel(a[0]), peel(a[1])
    if is_sym(x.millis) or is_sym(y.millis):
        ge = I.w.branch(z3.UGE(bv(x.millis, 64), bv(y.millis, 64)), "time-order")
    else:
        ge = x.millis >= y.millis
    if not ge:
        return ERR(Agg("struct", "SystemTimeError", []))
    return OK(DurationObj(I._sub(x.millis, y.millis)))


@T.path("std::time::Duration::as_millis")
def _as_millis(I, a, d):
    m = peel(a[0]).millis
    if is_sym(m):
        return z3.ZeroExt(64, m)
    return m


@T.path("std::time::Duration::as_secs")
def _as_secs(I, a, d):
    m = peel(a[0]).millis
    if is_sym(m):
        return z3.UDiv(m, z3.BitVecVal(1000, 64))
    return m // 1000


@T.path("std::time::Duration::as_micros")
def _as_micros(I, a, d):
    m = peel(a[0]).millis
    if is_sym(m):
        return z3.ZeroExt(64, m) * z3.BitVecVal(1000, 128)
    return m * 1000


@T.path("std::time::Duration::as_nanos")
def _as_nanos(I, a, d):
    m = peel(a[0]).millis
    if is_sym(m):
        return z3.ZeroExt(64, m) * z3.BitVecVal(1000000, 128)
    return m * 1000000


@T.path("std::time::Duration::as_secs_f64", "std::time::Duration::subsec_millis", "std::time::Duration::subsec_nanos")
def _dur_other(I, a, d):
    raise Inconclusive("Duration API %s" % d.get("raw"))


@T.path("std::io::copy")
def _io_copy(I, a, d):
    """std::io::copy(&mut reader, &mut writer): read until EOF, write_all each chunk."""
    r, w_ = a[0], a[1]
    rv = peel(r)
    total = 0
    for _ in range(8):
        if isinstance(rv, FileObj):
            try:
                data = op_read_all(I, rv)
            except FsErr as e:
                return ERR(io_err(e.kind, e.injected))
            n = data.length()
            done_after = True
        else:
            probe = BufObj("array", SBytes((sb.Fill(0, 8192),)))
            dst = MutBytesRef(probe, 0, 8192)
            res = I.call_trait_method("Read", "read", [r, dst])
            if res.vname == "Err":
                return res
            n = res.fields[0]
            data = sb.slice_(probe.sb, 0, n, I.w)
            done_after = False
        if is_sym(n):
            empty = I.w.branch(n == 0, "io-copy-eof")
        else:
            empty = n == 0
        if empty:
            return OK(total)
        res = _write_all(I, [w_, BytesRef(data)], d)
        if res.vname == "Err":
            return res
        total = _addv(total, n)
        if done_after:
            return OK(total)
    raise Hang("io::copy does not terminate")


def _raw_lines(I, content):
    """Split into lines INCLUDING their terminating newline (BufRead::read_line / read_until semantics)."""
    from .core import decide_symbytes, split_with_cuts
    content = decide_symbytes(I, content, [0x0A])
    parts = split_with_cuts(I, content, 0x0A)
    out = []
    for k, p in enumerate(parts):
        lastp = k == len(parts) - 1
        if lastp:
            if p.segs:
                out.append(p)
        else:
            out.append(p + b"\n")
    return out


@T.trait("BufRead", "read_line")
def _bufread_read_line(I, a, d):
    br = peel(a[0])
    buf = peel(a[1])
    f = peel(br.inner)
    if not isinstance(f, FileObj):
        raise Inconclusive("read_line over %r" % (f,))
    if getattr(br, "pending", None) is None:
        try:
            data = op_read_all(I, f)
        except FsErr as e:
            return ERR(io_err(e.kind, e.injected))
        br.pending = _raw_lines(I, data)
    if not br.pending:
        return OK(0)
    line = br.pending.pop(0)
    if not utf8_check(I, line):
        return ERR(io_err("InvalidData"))
    buf.sb = buf.sb + line
    return OK(line.length())


@T.trait("BufRead", "read_until")
def _bufread_read_until(I, a, d):
    raise Inconclusive("BufRead::read_until")


@T.trait("Seek", "stream_position")
def _stream_position(I, a, d):
    f = peel(a[0])
    if isinstance(f, NamedTempFileObj):
        f = f.file
    if not isinstance(f, FileObj):
        raise Inconclusive("stream_position on %r" % (f,))
    # an O_APPEND descriptor reports offset 0 until its first write; writes then move it to the end
    return OK(f.offset)


def op_rmdir(I, path):
    env = I.env
    fail_if_injected(env.act("rmdir", path, mutating=True))
    parent, name, ino = env.vfs.walk(path, follow_last=False)
    if ino is None:
        raise FsErr("NotFound")
    if ino.kind != "dir":
        raise FsErr("NotADirectory")
    if ino.children:
        raise FsErr("DirectoryNotEmpty")
    if parent is None:
        raise FsErr("PermissionDenied")
    del parent.children[comp_key(name)]
    env.effect("rmdir")
    return UNIT


@T.path("std::fs::remove_dir")
def _fs_remove_dir(I, a, d):
    return wrap(I, lambda: op_rmdir(I, _p(a[0])))
