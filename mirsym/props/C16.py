"""C16 -- addresses are pure digests: identical data is stored once, algorithms coexist."""
import z3
from .common import *
from ..models.fs import comp_key

BOUNDS = {"data": "any length", "entry_points": "write, write_hash, streamed keyed / by address with and without declared size, in every ordered pair",
          "algorithms": "all five; pairs of algorithms in one cache",
          "instants": "every filesystem action of the second write is inspected: the stored copy may only ever be replaced atomically by identical bytes",
          "outside": "concurrent second writers (C07)"}

ENTRIES = ["write", "write_hash", "open", "open_hash", "open_sized", "open_hash_sized"]


def store(scn, entry, key, blob, algo):
    data = scn.whole(blob)
    if entry == "write":
        return scn.write(key, data, algo=algo)
    if entry == "write_hash":
        return scn.write_hash(data, algo=algo)
    opts = {}
    if algo:
        opts["algorithm"] = algo
    if entry.endswith("sized"):
        opts["size"] = blob.len
    r = scn.open(key, opts) if entry.startswith("open_hash") is False else scn.open_hash(opts)
    if r.kind != "ok":
        return r
    # streamed in two chunks at a symbolic cut (either may be the longer one, either may be empty)
    for c in chunks_of(scn, blob, 2, prefix="cut_" + key):
        o = scn.hwrite_all(r.handle, c)
        if o.kind != "ok":
            return o
    return scn.commit(r.handle)


def content_files(scn, algo):
    try:
        root = scn.env.vfs.lookup(SBytes.of(CACHE + "/content-v2/" + algo.lower()))
    except Exception:
        return []
    out = []
    for n1, d1 in root.children.values():
        if d1.kind != "dir":
            continue
        for n2, d2 in d1.children.values():
            if d2.kind != "dir":
                continue
            for n3, f in d2.children.values():
                out.append((n1 + n2 + n3, f))
    return out


def dedup(ctx, e1, e2, algo, api):
    scn = ctx.new_scn(api=api)
    D = scn.blob("D")
    data = scn.whole(D)
    a = algo or "Sha256"
    tag = "C16:%s:%s-then-%s:%s" % (api, e1, e2, a)
    r1 = store(scn, e1, "k1", D, algo)
    if not expect_sri(ctx, r1, data, a, tag + ":first", "first store"):
        return
    cpath = scn.content_path_of(r1.value)
    ino_before = scn.file_at(cpath)
    ctx.expect(ino_before is not None and ino_before.kind == "file", tag + ":no-file", "no content file after the first store", native=None)
    mark = len(scn.env.trace)
    r2 = store(scn, e2, "k2", D, algo)
    s2 = last(scn)
    if not expect_sri(ctx, r2, data, a, tag + ":second", "second store of the same bytes"):
        return
    I = scn.s.I
    ctx.expect(values_eq(I, r1.value, r2.value), tag + ":address-differs", "the same bytes got two different addresses",
               native={"kind": "sri_eq_steps", "a": [i for i, st in enumerate(scn.log) if st.outcome is r1][0], "b": s2})
    files = content_files(scn, a)
    ctx.expect(len(files) == 1, tag + ":copies", "storing the same bytes again left %d content files for the algorithm" % len(files),
               native={"kind": "unreplayable", "why": "counted on the model filesystem"} if len(files) != 2 else None)
    if files:
        ctx.expect(sb.content_eq(files[0][1].sb, data, ctx.w), tag + ":content", "the stored copy is not the data", native={"kind": "tree_content_valid"})
    # every instant of the second write: the content path only ever changes by atomic replacement with identical bytes
    ck = sb.concretise_atoms(cpath).key()
    for rec in scn.env.trace[mark:]:
        if not rec.get("mutating") or not rec.get("done"):
            continue
        paths = [rec.get("path"), rec.get("path2")]
        hit = [p for p in paths if isinstance(p, SBytes) and sb.content_eq(p, cpath, ctx.w) is True]
        if not hit:
            continue
        if rec["kind"] == "rename" and isinstance(rec.get("path2"), SBytes) and sb.content_eq(rec["path2"], cpath, ctx.w) is True:
            src = rec.get("src_content")
            same = sb.content_eq(src, data, ctx.w) if src is not None else False
            ctx.expect(same, tag + ":replaced-with-other", "the stored copy was replaced by different bytes during the second write",
                       native={"kind": "tree_content_valid"})
        elif rec["kind"] in ("mkdir",):
            continue
        else:
            # replayed natively by killing the process right after that action and inspecting the content area
            k = scn.step_of_action(rec)
            ctx.expect(False, tag + ":touched:" + rec["kind"], "the stored copy was modified in place (%s) while the same bytes were stored again" % rec["kind"],
                       native={"kind": "tree_content_valid"},
                       shim={"mode": "crash", "step": k, "effects": rec["effects_before"] + 1, "torn": None} if k is not None else None)
    for k in ("k1", "k2"):
        if (k == "k1" and "hash" in e1) or (k == "k2" and "hash" in e2):
            continue
        expect_bytes(ctx, scn.read(k), data, tag + ":read-" + k, "reading %s after both stores" % k)
    expect_bytes(ctx, scn.read_hash(r1.value), data, tag + ":read-hash", "reading the address after both stores")


def coexist(ctx, a1, a2, api, by_hash=False):
    scn = ctx.new_scn(api=api)
    D = scn.blob("D")
    data = scn.whole(D)
    tag = "C16:%s:coexist:%s+%s%s" % (api, a1, a2, ":by-address" if by_hash else "")
    if by_hash:
        # keyless stores: the address returned for an algorithm must not depend on what other algorithms hold
        r1 = scn.write_hash(data, algo=a1)
        r2 = scn.write_hash(data, algo=a2)
        if not expect_sri(ctx, r1, data, a1, tag + ":first", "keyless store with " + a1) or not expect_sri(ctx, r2, data, a2, tag + ":second", "keyless store with " + a2):
            return
        expect_bytes(ctx, scn.read_hash(r1.value), data, tag + ":read1", "read of the %s address" % a1)
        expect_bytes(ctx, scn.read_hash(r2.value), data, tag + ":read2", "read of the %s address" % a2)
        want2 = scn.sri_of(data, a2)
        out = scn.exists(want2)
        ctx.expect(out.kind == "ok" and out.value is True, tag + ":no-file", "nothing is stored under the %s address after a keyless %s store" % (a2, a2),
                   native={"kind": "value_is", "step": last(scn), "value": {"bool": True}})
        return
    r1 = scn.write("k1", data, algo=a1)
    r2 = scn.write("k2", data, algo=a2)
    if not expect_sri(ctx, r1, data, a1, tag + ":first", "store with " + a1) or not expect_sri(ctx, r2, data, a2, tag + ":second", "store with " + a2):
        return
    expect_bytes(ctx, scn.read("k1"), data, tag + ":read1", "read of the %s entry" % a1)
    expect_bytes(ctx, scn.read("k2"), data, tag + ":read2", "read of the %s entry" % a2)
    # damage the copy addressed by a1: only that entry is affected, and it is detected with its own algorithm
    F = scn.blob("F")
    scn.distinct(F, D)
    scn.fs_set(scn.content_path_of(r1.value), scn.whole(F))
    out = scn.read("k1")
    ctx.expect(out.kind == "err", tag + ":undetected", "a damaged %s copy was not detected" % a1, native={"kind": "outcome_in", "step": last(scn), "allowed": ["err"]})
    expect_bytes(ctx, scn.read("k2"), data, tag + ":cross-effect", "the %s entry after the %s copy was damaged" % (a2, a1))


def restore(ctx, e1, e2, api):
    """The stored copy is damaged in place (any other bytes, in particular other bytes of the same length), then the
    same data is stored again through another entry point: a store that reports success must leave its key and
    the returned address resolving to the data -- the address names the bytes, not whatever file happens to sit there."""
    scn = ctx.new_scn(api=api)
    D = scn.blob("D")
    data = scn.whole(D)
    tag = "C16:%s:restore:%s-then-%s" % (api, e1, e2)
    r1 = store(scn, e1, "k1", D, None)
    if not expect_sri(ctx, r1, data, "Sha256", tag + ":first", "first store"):
        return
    cpath = scn.content_path_of(r1.value)
    F = scn.blob("F")
    scn.distinct(F, D)
    scn.fs_set(cpath, scn.whole(F))
    r2 = store(scn, e2, "k2", D, None)
    if not expect_sri(ctx, r2, data, "Sha256", tag + ":second", "store of the same bytes over a damaged copy"):
        return
    if "hash" not in e2:
        expect_bytes(ctx, scn.read("k2"), data, tag + ":read-k2", "reading the key just stored over a damaged copy")
    expect_bytes(ctx, scn.read_hash(r2.value), data, tag + ":read-hash", "reading the address just returned by a store over a damaged copy")


def tasks(tier, flavours):
    out = []
    for fl in flavours:
        api = "sync" if fl == "sync" else "async"
        pairs = [(a, b) for a in ENTRIES for b in ENTRIES]
        if tier == "quick":
            pairs = [p for k, p in enumerate(pairs) if (k % 3 == 0) or fl == "sync"]
        for k, (e1, e2) in enumerate(pairs):
            algo = [None, "Sha1", "Sha512", "Xxh3", "Sha384"][k % 5]
            out.append(dict(module="C16", family="dedup", flavour=fl, params=dict(e1=e1, e2=e2, algo=algo, api=api)))
        rp = [(a, b) for a in ENTRIES for b in ENTRIES]
        if tier == "quick":
            rp = [p for k, p in enumerate(rp) if k % 4 == 0]
        for e1, e2 in rp:
            out.append(dict(module="C16", family="restore", flavour=fl, params=dict(e1=e1, e2=e2, api=api)))
        for a1, a2 in (("Sha256", "Sha1"), ("Sha512", "Sha256"), ("Xxh3", "Sha384"), ("Sha1", "Sha512")):
            out.append(dict(module="C16", family="coexist", flavour=fl, params=dict(a1=a1, a2=a2, api=api)))
            out.append(dict(module="C16", family="coexist", flavour=fl, params=dict(a1=a1, a2=a2, api=api, by_hash=True)))
    return out
