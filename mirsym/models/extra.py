"""Further std surface: methods a refactor of the crate may reasonably start using (Result/Option
combinators, Vec/str/slice helpers, iterator adaptors, BufWriter, unix MetadataExt).  Semantics follow the
std documentation; anything not expressible raises Inconclusive (the check then exits 2, never 0)."""
import z3

from . import TABLE as T
from ..values import *
from ..interp import BufObj, BytesRef, MutBytesRef, NONE, SOME, OK, ERR
from .. import sbytes as sb
from ..sbytes import SBytes
from .core import (as_sbytes, peel, panic, _opt, _res, RIter, mk_string, mk_vec_u8, index_range, decide_symbytes,
                   split_with_cuts, _pattern_bytes, _concrete_or_none, values_eq)


def _truth(I, c, label):
    if c is True or c is False:
        return c
    return I.w.branch(c, label)


# ---------------------------------------------------------------------------
# Result

@T.path("std::result::Result::map_or", "core::result::Result::map_or")
def _res_map_or(I, a, d):
    r = _res(a[0])
    if r.vname == "Err":
        I.drop_value(r.fields[0])
        return a[1]
    I.drop_value(a[1])
    return I.call_value(a[2], [r.fields[0]])


@T.path("std::result::Result::map_or_else", "core::result::Result::map_or_else")
def _res_map_or_else(I, a, d):
    r = _res(a[0])
    if r.vname == "Err":
        return I.call_value(a[1], [r.fields[0]])
    return I.call_value(a[2], [r.fields[0]])


@T.path("std::result::Result::is_ok_and", "core::result::Result::is_ok_and")
def _res_is_ok_and(I, a, d):
    r = _res(a[0])
    if r.vname == "Err":
        I.drop_value(r.fields[0])
        return False
    return I.call_value(a[1], [r.fields[0]])


@T.path("std::result::Result::is_err_and", "core::result::Result::is_err_and")
def _res_is_err_and(I, a, d):
    r = _res(a[0])
    if r.vname == "Ok":
        I.drop_value(r.fields[0])
        return False
    return I.call_value(a[1], [r.fields[0]])


@T.path("std::result::Result::and", "core::result::Result::and")
def _res_and(I, a, d):
    r = _res(a[0])
    if r.vname == "Ok":
        I.drop_value(r.fields[0])
        return a[1]
    I.drop_value(a[1])
    return r


@T.path("std::result::Result::or", "core::result::Result::or")
def _res_or(I, a, d):
    r = _res(a[0])
    if r.vname == "Err":
        I.drop_value(r.fields[0])
        return a[1]
    I.drop_value(a[1])
    return r


@T.path("std::result::Result::unwrap_err", "core::result::Result::unwrap_err", "std::result::Result::expect_err", "core::result::Result::expect_err")
def _res_unwrap_err(I, a, d):
    r = _res(a[0])
    if r.vname == "Ok":
        panic("called `Result::unwrap_err()` on an `Ok` value")
    return r.fields[0]


@T.path("std::result::Result::inspect_err", "core::result::Result::inspect_err")
def _res_inspect_err(I, a, d):
    r = _res(a[0])
    if r.vname == "Err":
        I.call_value(a[1], [Ref(ValLoc(r.fields[0]))])
    return r


@T.path("std::result::Result::inspect", "core::result::Result::inspect")
def _res_inspect(I, a, d):
    r = _res(a[0])
    if r.vname == "Ok":
        I.call_value(a[1], [Ref(ValLoc(r.fields[0]))])
    return r


@T.path("std::result::Result::as_ref", "core::result::Result::as_ref")
def _res_as_ref(I, a, d):
    r = _res(a[0])
    return Adt("Result", r.vidx, r.vname, [Ref(ValLoc(r.fields[0]))])


@T.path("std::result::Result::copied", "core::result::Result::copied", "std::result::Result::cloned", "core::result::Result::cloned")
def _res_copied(I, a, d):
    r = _res(a[0])
    if r.vname == "Ok":
        return OK(peel(r.fields[0]))
    return r


@T.path("std::result::Result::transpose", "core::result::Result::transpose")
def _res_transpose(I, a, d):
    r = _res(a[0])
    if r.vname == "Err":
        return SOME(r)
    o = _opt(r.fields[0])
    if o.vname == "None":
        return NONE()
    return SOME(OK(o.fields[0]))


# ---------------------------------------------------------------------------
# Option

@T.path("std::option::Option::and", "core::option::Option::and")
def _opt_and(I, a, d):
    o = _opt(a[0])
    if o.vname == "None":
        I.drop_value(a[1])
        return o
    I.drop_value(o.fields[0])
    return a[1]


@T.path("std::option::Option::xor", "core::option::Option::xor")
def _opt_xor(I, a, d):
    o, p = _opt(a[0]), _opt(a[1])
    if (o.vname == "Some") != (p.vname == "Some"):
        return o if o.vname == "Some" else p
    return NONE()


@T.path("std::option::Option::zip", "core::option::Option::zip")
def _opt_zip(I, a, d):
    o, p = _opt(a[0]), _opt(a[1])
    if o.vname == "Some" and p.vname == "Some":
        return SOME(Agg("tuple", None, [o.fields[0], p.fields[0]]))
    return NONE()


@T.path("std::option::Option::is_none_or", "core::option::Option::is_none_or")
def _opt_is_none_or(I, a, d):
    o = _opt(a[0])
    if o.vname == "None":
        return True
    return I.call_value(a[1], [o.fields[0]])


@T.path("std::option::Option::cloned", "core::option::Option::cloned", "std::option::Option::copied", "core::option::Option::copied")
def _opt_cloned(I, a, d):
    o = _opt(a[0])
    if o.vname == "None":
        return o
    return SOME(I.call_trait_method("Clone", "clone", [o.fields[0]]) if isinstance(o.fields[0], Ref) else o.fields[0])


@T.path("std::option::Option::as_deref", "core::option::Option::as_deref")
def _opt_as_deref(I, a, d):
    o = _opt(a[0])
    if o.vname == "None":
        return NONE()
    v = peel(o.fields[0])
    if isinstance(v, BufObj):
        kind = {"String": "str", "PathBuf": "path"}.get(v.kind, "bytes")
        return SOME(BytesRef(v.sb, kind))
    if isinstance(v, BytesRef):
        return SOME(v)
    return SOME(I.call_trait_method("Deref", "deref", [o.fields[0] if isinstance(o.fields[0], Ref) else Ref(ValLoc(o.fields[0]))]))


@T.path("std::option::Option::insert", "core::option::Option::insert")
def _opt_insert(I, a, d):
    r = a[0]
    new = SOME(a[1])
    r.loc.set(new)
    return Ref(ValLoc(new.fields[0]), True)


@T.path("std::option::Option::replace", "core::option::Option::replace")
def _opt_replace(I, a, d):
    r = a[0]
    old = r.loc.get()
    r.loc.set(SOME(a[1]))
    return old


@T.path("std::option::Option::get_or_insert_with", "core::option::Option::get_or_insert_with")
def _opt_get_or_insert_with(I, a, d):
    r = a[0]
    o = _opt(r.loc.get())
    if o.vname == "None":
        o = SOME(I.call_value(a[1], []))
        r.loc.set(o)
    return Ref(ValLoc(o.fields[0]), True)


@T.path("std::option::Option::inspect", "core::option::Option::inspect")
def _opt_inspect(I, a, d):
    o = _opt(a[0])
    if o.vname == "Some":
        I.call_value(a[1], [Ref(ValLoc(o.fields[0]))])
    return o


@T.path("std::option::Option::flatten", "core::option::Option::flatten")
def _opt_flatten(I, a, d):
    o = _opt(a[0])
    if o.vname == "None":
        return o
    return _opt(o.fields[0])


@T.path("std::option::Option::transpose", "core::option::Option::transpose")
def _opt_transpose(I, a, d):
    o = _opt(a[0])
    if o.vname == "None":
        return OK(NONE())
    r = _res(o.fields[0])
    if r.vname == "Ok":
        return OK(SOME(r.fields[0]))
    return r


# ---------------------------------------------------------------------------
# bytes helpers

def byte_at(I, s, idx):
    """The byte at a concrete index: int, a BV8 term, or "ascii" (inside a hex/base64/decimal atom).
    None when it cannot be told."""
    if is_sym(idx):
        return None
    pos = 0
    for seg in s.segs:
        if isinstance(seg, bytes):
            n = len(seg)
            if idx < pos + n:
                return seg[idx - pos]
        elif isinstance(seg, sb.SymByte):
            n = 1
            if idx == pos:
                return seg.bv
        elif isinstance(seg, sb.Atom) and seg.kind in ("hex", "b64", "dec"):
            n = SBytes((seg,)).length()
            if is_sym(n):
                return None
            if idx < pos + n:
                return "ascii"
        else:
            return None
        pos += n
    return None


def check_char_boundary(I, s, idx, what="byte index"):
    """Panic (on the branch where it applies) when idx is not a UTF-8 character boundary of the text s."""
    ln = s.length()
    if is_sym(idx):
        return
    if idx == 0 or (not is_sym(ln) and idx == ln):
        return
    b = byte_at(I, s, idx)
    if b is None or isinstance(b, str):
        return
    if isinstance(b, int):
        if (b & 0xC0) == 0x80:
            panic("%s %d is not a char boundary" % (what, idx))
        return
    cont = (b & z3.BitVecVal(0xC0, 8)) == z3.BitVecVal(0x80, 8)
    if I.w.branch(cont, "char-boundary"):
        panic("%s %d is not a char boundary" % (what, idx))


def _is_boundary(I, s, idx):
    ln = s.length()
    if is_sym(idx) or is_sym(ln):
        raise Inconclusive("char boundary of a symbolic index")
    if idx == 0 or idx == ln:
        return True
    if idx > ln:
        return False
    b = byte_at(I, s, idx)
    if b is None:
        raise Inconclusive("char boundary inside opaque text")
    if isinstance(b, str):
        return True
    if isinstance(b, int):
        return (b & 0xC0) != 0x80
    return not I.w.branch((b & z3.BitVecVal(0xC0, 8)) == z3.BitVecVal(0x80, 8), "char-boundary")


@T.path("core::str::split_at", "str::split_at")
def _str_split_at(I, a, d):
    s = as_sbytes(a[0])
    mid = a[1]
    ln = s.length()
    if is_sym(mid) or is_sym(ln):
        if not I.w.branch(z3.ULE(sb._bv(mid), sb._bv(ln)), "split_at-in-range"):
            panic("failed to slice string: byte index out of range")
    elif mid > ln:
        panic("failed to slice string: byte index %d is out of bounds" % mid)
    check_char_boundary(I, s, mid, "end byte index")
    return Agg("tuple", None, [BytesRef(sb.slice_(s, 0, mid, I.w), "str"), BytesRef(sb.slice_(s, mid, ln, I.w), "str")])


@T.path("core::str::split_at_checked", "str::split_at_checked")
def _str_split_at_checked(I, a, d):
    s = as_sbytes(a[0])
    mid = a[1]
    ln = s.length()
    if is_sym(mid) or is_sym(ln):
        raise Inconclusive("split_at_checked with symbolic index")
    if mid > ln or not _is_boundary(I, s, mid):
        return NONE()
    return SOME(Agg("tuple", None, [BytesRef(sb.slice_(s, 0, mid, I.w), "str"), BytesRef(sb.slice_(s, mid, ln, I.w), "str")]))


@T.path("core::str::is_char_boundary", "str::is_char_boundary")
def _str_is_char_boundary(I, a, d):
    return _is_boundary(I, as_sbytes(a[0]), a[1])


def _range_bounds(I, rng, ln):
    rng = peel(rng)
    name = rng.ty.split("::")[-1] if isinstance(rng, Agg) else None
    if name == "RangeFull":
        return 0, ln
    if name == "Range":
        return rng.fields[0], rng.fields[1]
    if name == "RangeFrom":
        return rng.fields[0], ln
    if name == "RangeTo":
        return 0, rng.fields[0]
    if name == "RangeInclusive":
        return rng.fields[0], rng.fields[1] + 1
    if name == "RangeToInclusive":
        return 0, rng.fields[0] + 1
    raise Inconclusive("range %r" % (rng,))


@T.path("core::str::get", "str::get")
def _str_get(I, a, d):
    s = as_sbytes(a[0])
    ln = s.length()
    lo, hi = _range_bounds(I, a[1], ln)
    if is_sym(lo) or is_sym(hi) or is_sym(ln):
        raise Inconclusive("str::get with symbolic bounds")
    if lo > hi or hi > ln or not _is_boundary(I, s, lo) or not _is_boundary(I, s, hi):
        return NONE()
    return SOME(BytesRef(sb.slice_(s, lo, hi, I.w), "str"))


@T.path("core::slice::split_at", "slice::split_at")
def _slice_split_at(I, a, d):
    v = peel(a[0])
    if isinstance(v, (BufObj, BytesRef)):
        s = v.sb
        ln, mid = s.length(), a[1]
        if is_sym(mid) or is_sym(ln):
            if not I.w.branch(z3.ULE(sb._bv(mid), sb._bv(ln)), "split_at-in-range"):
                panic("mid > len")
        elif mid > ln:
            panic("mid > len")
        return Agg("tuple", None, [BytesRef(sb.slice_(s, 0, mid, I.w), "bytes"), BytesRef(sb.slice_(s, mid, ln, I.w), "bytes")])
    raise Inconclusive("split_at on %r" % (v,))


@T.path("core::slice::starts_with", "slice::starts_with")
def _slice_starts_with(I, a, d):
    s, p = as_sbytes(a[0]), as_sbytes(a[1])
    pl, sl = p.length(), s.length()
    if is_sym(pl) or is_sym(sl):
        raise Inconclusive("starts_with over symbolic lengths")
    if pl > sl:
        return False
    return sb.content_eq(sb.slice_(s, 0, pl, I.w), p, I.w)


@T.path("core::slice::ends_with", "slice::ends_with")
def _slice_ends_with(I, a, d):
    s, p = as_sbytes(a[0]), as_sbytes(a[1])
    pl, sl = p.length(), s.length()
    if is_sym(pl) or is_sym(sl):
        raise Inconclusive("ends_with over symbolic lengths")
    if pl > sl:
        return False
    return sb.content_eq(sb.slice_(s, sl - pl, sl, I.w), p, I.w)


@T.path("core::str::rfind", "str::rfind")
def _str_rfind(I, a, d):
    s, p = _concrete_or_none(as_sbytes(a[0])), _pattern_bytes(a[1])
    if s is None or p is None:
        raise Inconclusive("str::rfind over symbolic text")
    i = s.rfind(p)
    return NONE() if i < 0 else SOME(i)


@T.path("core::str::rsplit_once", "str::rsplit_once")
def _str_rsplit_once(I, a, d):
    s, p = as_sbytes(a[0]), _pattern_bytes(a[1])
    if p is None or len(p) != 1:
        raise Inconclusive("rsplit_once pattern")
    s2 = decide_symbytes(I, s, [p[0]])
    parts = split_with_cuts(I, s2, p[0])
    if len(parts) < 2:
        return NONE()
    head = parts[0]
    for q in parts[1:-1]:
        head = head + p + q
    return SOME(Agg("tuple", None, [BytesRef(head, "str"), BytesRef(parts[-1], "str")]))


@T.path("core::str::rsplit", "str::rsplit")
def _str_rsplit(I, a, d):
    s, p = as_sbytes(a[0]), _pattern_bytes(a[1])
    if p is None or len(p) != 1:
        raise Inconclusive("rsplit pattern")
    s2 = decide_symbytes(I, s, [p[0]])
    parts = [BytesRef(x, "str") for x in split_with_cuts(I, s2, p[0])]
    parts.reverse()
    return RIter.from_list(parts)


@T.path("core::str::repeat", "str::repeat", "alloc::str::repeat")
def _str_repeat(I, a, d):
    s, n = as_sbytes(a[0]), a[1]
    if is_sym(n):
        raise Inconclusive("repeat with symbolic count")
    out = SBytes()
    for _ in range(n):
        out = out + s
    return mk_string(out)


@T.path("std::string::String::into_bytes", "alloc::string::String::into_bytes")
def _string_into_bytes(I, a, d):
    return mk_vec_u8(as_sbytes(a[0]))


@T.path("std::string::String::insert_str", "alloc::string::String::insert_str")
def _string_insert_str(I, a, d):
    b = peel(a[0])
    idx = a[1]
    check_char_boundary(I, b.sb, idx)
    b.sb = sb.slice_(b.sb, 0, idx, I.w) + as_sbytes(a[2]) + sb.slice_(b.sb, idx, b.sb.length(), I.w)
    return UNIT


@T.path("std::string::String::reserve", "alloc::string::String::reserve", "std::string::String::shrink_to_fit", "alloc::string::String::shrink_to_fit",
        "std::vec::Vec::shrink_to_fit", "alloc::vec::Vec::shrink_to_fit", "std::vec::Vec::reserve_exact", "alloc::vec::Vec::reserve_exact")
def _noop_capacity(I, a, d):
    return UNIT


@T.path("std::string::String::capacity", "alloc::string::String::capacity", "std::vec::Vec::capacity", "alloc::vec::Vec::capacity")
def _capacity(I, a, d):
    v = peel(a[0])
    if isinstance(v, BufObj):
        return v.sb.length()
    return len(v.items)


# ---------------------------------------------------------------------------
# Vec<u8> / Vec<T>

@T.path("std::vec::Vec::resize", "alloc::vec::Vec::resize")
def _vec_resize(I, a, d):
    v = peel(a[0])
    n, val = a[1], a[2]
    if isinstance(v, BufObj):
        cur = v.sb.length()
        if is_sym(cur) or is_sym(n):
            shrink = I.w.branch(z3.ULE(sb._bv(n), sb._bv(cur)), "resize-shrink")
        else:
            shrink = n <= cur
        if shrink:
            v.sb = sb.slice_(v.sb, 0, n, I.w)
        else:
            if is_sym(val):
                raise Inconclusive("resize with a symbolic fill byte")
            v.sb = v.sb + SBytes((sb.Fill(val, I._sub(n, cur)),))
        return UNIT
    if isinstance(v, VecObj):
        if is_sym(n):
            raise Inconclusive("Vec<T>::resize with symbolic length")
        if n <= len(v.items):
            del v.items[n:]
        else:
            for _ in range(n - len(v.items)):
                v.items.append(val)
        return UNIT
    raise Inconclusive("resize on %r" % (v,))


@T.path("std::vec::Vec::split_off", "alloc::vec::Vec::split_off")
def _vec_split_off(I, a, d):
    v = peel(a[0])
    at = a[1]
    if isinstance(v, BufObj):
        ln = v.sb.length()
        if is_sym(at) or is_sym(ln):
            if not I.w.branch(z3.ULE(sb._bv(at), sb._bv(ln)), "split_off-in-range"):
                panic("`at` split index out of range")
        elif at > ln:
            panic("`at` split index (is %d) should be <= len" % at)
        tail = sb.slice_(v.sb, at, ln, I.w)
        v.sb = sb.slice_(v.sb, 0, at, I.w)
        return BufObj(v.kind, tail)
    if isinstance(v, VecObj):
        if at > len(v.items):
            panic("`at` split index out of range")
        tail = v.items[at:]
        del v.items[at:]
        return VecObj(tail, v.ty)
    raise Inconclusive("split_off on %r" % (v,))


@T.path("core::slice::fill", "slice::fill")
def _slice_fill(I, a, d):
    v = peel(a[0])
    val = a[1]
    if is_sym(val):
        raise Inconclusive("fill with symbolic byte")
    if isinstance(v, BufObj):
        v.sb = SBytes((sb.Fill(val, v.sb.length()),))
        return UNIT
    if isinstance(v, MutBytesRef):
        from .fs import write_window
        write_window(I, v.buf, v.start, SBytes((sb.Fill(val, I._sub(v.end, v.start)),)))
        return UNIT
    raise Inconclusive("fill on %r" % (v,))


@T.path("core::slice::concat", "slice::concat", "alloc::slice::concat")
def _slice_concat(I, a, d):
    v = peel(a[0])
    items = v.items if isinstance(v, VecObj) else list(getattr(v, "items", []))
    out = SBytes()
    kind = "Vec<u8>"
    for it in items:
        p = peel(it)
        if isinstance(p, BufObj) and p.kind == "String" or isinstance(p, BytesRef) and p.kind == "str":
            kind = "String"
        out = out + as_sbytes(it)
    return BufObj(kind, out)


@T.path("core::slice::join", "slice::join", "alloc::slice::join")
def _slice_join(I, a, d):
    v = peel(a[0])
    items = v.items if isinstance(v, VecObj) else list(getattr(v, "items", []))
    sep = as_sbytes(a[1])
    out = SBytes()
    for k, it in enumerate(items):
        if k:
            out = out + sep
        out = out + as_sbytes(it)
    return mk_string(out)


# ---------------------------------------------------------------------------
# iterator adaptors

def _iter(v):
    v = peel(v)
    if isinstance(v, RIter):
        return v
    raise Inconclusive("iterator adaptor on %r" % (type(v).__name__,))


@T.trait("Iterator", "zip")
def _it_zip(I, a, d):
    x = _iter(a[0])
    y = I.call_trait_method("IntoIterator", "into_iter", [a[1]]) if not isinstance(peel(a[1]), RIter) else peel(a[1])

    def nxt(I2):
        p = x.next(I2)
        if p is RIter.STOP:
            return RIter.STOP
        q = y.next(I2)
        if q is RIter.STOP:
            return RIter.STOP
        return Agg("tuple", None, [p, q])
    return RIter(nxt)


@T.trait("Iterator", "skip_while")
def _it_skip_while(I, a, d):
    x = _iter(a[0])
    f = a[1]
    state = {"done": False}

    def nxt(I2):
        while True:
            v = x.next(I2)
            if v is RIter.STOP:
                return v
            if state["done"]:
                return v
            if not _truth(I2, I2.call_value(f, [Ref(ValLoc(v))]), "skip_while"):
                state["done"] = True
                return v
    return RIter(nxt)


@T.trait("Iterator", "inspect")
def _it_inspect(I, a, d):
    x = _iter(a[0])
    f = a[1]

    def nxt(I2):
        v = x.next(I2)
        if v is not RIter.STOP:
            I2.call_value(f, [Ref(ValLoc(v))])
        return v
    return RIter(nxt)


@T.trait("Iterator", "copied")
def _it_copied(I, a, d):
    x = _iter(a[0])

    def nxt(I2):
        v = x.next(I2)
        return v if v is RIter.STOP else peel(v)
    return RIter(nxt, None)


@T.trait("Iterator", "fuse")
def _it_fuse(I, a, d):
    x = _iter(a[0])
    st = {"end": False}

    def nxt(I2):
        if st["end"]:
            return RIter.STOP
        v = x.next(I2)
        if v is RIter.STOP:
            st["end"] = True
        return v
    return RIter(nxt)


@T.trait("Iterator", "sum")
def _it_sum(I, a, d):
    total = 0
    for v in _iter(a[0]).to_list(I):
        v = peel(v)
        total = I._add(total, v) if hasattr(I, "_add") else (total + v)
    return total


@T.trait("Iterator", "reduce")
def _it_reduce(I, a, d):
    items = _iter(a[0]).to_list(I)
    if not items:
        return NONE()
    acc = items[0]
    for v in items[1:]:
        acc = I.call_value(a[1], [acc, v])
    return SOME(acc)


@T.trait("Iterator", "try_fold")
def _it_try_fold(I, a, d):
    x = _iter(a[0])
    acc = a[1]
    while True:
        v = x.next(I)
        if v is RIter.STOP:
            break
        r = peel(I.call_value(a[2], [acc, v]))
        if isinstance(r, Adt) and r.ty == "Result":
            if r.vname == "Err":
                return r
            acc = r.fields[0]
        elif isinstance(r, Adt) and r.ty == "Option":
            if r.vname == "None":
                return r
            acc = r.fields[0]
        else:
            raise Inconclusive("try_fold over %r" % (r,))
    # wrap like the closure's return type: decided by the last result seen, Ok by default
    return OK(acc)


@T.trait("Iterator", "try_for_each")
def _it_try_for_each(I, a, d):
    x = _iter(a[0])
    while True:
        v = x.next(I)
        if v is RIter.STOP:
            return OK(UNIT)
        r = peel(I.call_value(a[1], [v]))
        if isinstance(r, Adt) and r.ty == "Result":
            if r.vname == "Err":
                return r
        elif isinstance(r, Adt) and r.ty == "Option":
            if r.vname == "None":
                return r
        else:
            raise Inconclusive("try_for_each over %r" % (r,))


@T.trait("Iterator", "min_by")
def _it_min_by(I, a, d):
    items = _iter(a[0]).to_list(I)
    if not items:
        return NONE()
    best = items[0]
    for v in items[1:]:
        o = peel(I.call_value(a[1], [Ref(ValLoc(best)), Ref(ValLoc(v))]))
        if isinstance(o, Adt) and o.vname == "Greater":
            best = v
    return SOME(best)


@T.trait("Iterator", "partition")
def _it_partition(I, a, d):
    yes, no = [], []
    for v in _iter(a[0]).to_list(I):
        (yes if _truth(I, I.call_value(a[1], [Ref(ValLoc(v))]), "partition") else no).append(v)
    return Agg("tuple", None, [VecObj(yes), VecObj(no)])


@T.trait("Iterator", "unzip")
def _it_unzip(I, a, d):
    xs, ys = [], []
    for v in _iter(a[0]).to_list(I):
        v = peel(v)
        xs.append(v.fields[0])
        ys.append(v.fields[1])
    return Agg("tuple", None, [VecObj(xs), VecObj(ys)])


@T.trait("Iterator", "step_by")
def _it_step_by(I, a, d):
    x = _iter(a[0])
    n = a[1]
    if is_sym(n) or n <= 0:
        raise Inconclusive("step_by")
    st = {"first": True}

    def nxt(I2):
        if st["first"]:
            st["first"] = False
            return x.next(I2)
        v = RIter.STOP
        for _ in range(n):
            v = x.next(I2)
            if v is RIter.STOP:
                return v
        return v
    return RIter(nxt)


# ---------------------------------------------------------------------------
# std::io::BufWriter

class BufWriterObj:
    """std::io::BufWriter<W>: bytes are handed to the inner writer when the buffer would overflow, on
    flush, and -- errors ignored -- when the writer is dropped."""
    rust_type = "BufWriter"

    def __init__(self, inner, cap):
        self.inner = inner
        self.cap = cap
        self.buf = SBytes()
        self.panicked = False

    def flush_buf(self, I):
        if self.buf.length() == 0 if not is_sym(self.buf.length()) else False:
            return OK(UNIT)
        data = self.buf
        self.buf = SBytes()
        return I.call_trait_method("Write", "write_all", [self._inner_ref(), BytesRef(data, "bytes")])

    def _inner_ref(self):
        return self.inner if isinstance(self.inner, Ref) else Ref(ValLoc(self.inner), True)

    def rust_drop(self, I):
        try:
            self.flush_buf(I)
        finally:
            I.drop_value(self.inner)


@T.path("std::io::BufWriter::new", "std::io::buffered::BufWriter::new")
def _bufwriter_new(I, a, d):
    return BufWriterObj(a[0], 8192)


@T.path("std::io::BufWriter::with_capacity", "std::io::buffered::BufWriter::with_capacity")
def _bufwriter_with_capacity(I, a, d):
    return BufWriterObj(a[1], a[0])


def _bw_write(I, bw, data, all_):
    n = data.length()
    cur = bw.buf.length()
    total = I._add(cur, n) if hasattr(I, "_add") else None
    if total is None:
        total = (sb._bv(cur) + sb._bv(n)) if (is_sym(cur) or is_sym(n)) else cur + n
    if is_sym(total) or is_sym(bw.cap):
        overflow = I.w.branch(z3.UGT(sb._bv(total), sb._bv(bw.cap)), "bufwriter-overflow")
    else:
        overflow = total > bw.cap
    if overflow:
        r = bw.flush_buf(I)
        if r.vname == "Err":
            return r
    if is_sym(n) or is_sym(bw.cap):
        big = I.w.branch(z3.UGE(sb._bv(n), sb._bv(bw.cap)), "bufwriter-big")
    else:
        big = n >= bw.cap
    if big:
        m = "write_all" if all_ else "write"
        return I.call_trait_method("Write", m, [bw._inner_ref(), BytesRef(data, "bytes")])
    bw.buf = bw.buf + data
    return OK(UNIT) if all_ else OK(n)


@T.trait("Write", "write", r"BufWriter$")
def _bufwriter_write(I, a, d):
    return _bw_write(I, peel(a[0]), as_sbytes(a[1]), False)


@T.trait("Write", "write_all", r"BufWriter$")
def _bufwriter_write_all(I, a, d):
    return _bw_write(I, peel(a[0]), as_sbytes(a[1]), True)


@T.trait("Write", "flush", r"BufWriter$")
def _bufwriter_flush(I, a, d):
    bw = peel(a[0])
    r = bw.flush_buf(I)
    if r.vname == "Err":
        return r
    return I.call_trait_method("Write", "flush", [bw._inner_ref()])


@T.path("std::io::BufWriter::get_ref", "std::io::BufWriter::get_mut")
def _bufwriter_get_ref(I, a, d):
    return peel(a[0])._inner_ref()


@T.path("std::io::BufWriter::into_inner")
def _bufwriter_into_inner(I, a, d):
    bw = peel(a[0])
    r = bw.flush_buf(I)
    if r.vname == "Err":
        raise Inconclusive("BufWriter::into_inner with a failing flush (IntoInnerError)")
    return OK(bw.inner)


@T.path("std::io::BufWriter::buffer")
def _bufwriter_buffer(I, a, d):
    return BytesRef(peel(a[0]).buf, "bytes")


# ---------------------------------------------------------------------------
# std::os::unix::fs::MetadataExt

def _meta(v):
    m = peel(v)
    if not hasattr(m, "ino_id"):
        raise Inconclusive("MetadataExt on %r" % (m,))
    return m


@T.trait("MetadataExt", "ino")
def _meta_ino(I, a, d):
    return _meta(a[0]).ino_id


@T.trait("MetadataExt", "dev")
def _meta_dev(I, a, d):
    return 2049


@T.trait("MetadataExt", "nlink")
def _meta_nlink(I, a, d):
    return _meta(a[0]).nlink


@T.trait("MetadataExt", "size")
def _meta_size(I, a, d):
    return _meta(a[0]).len


@T.trait("MetadataExt", "mode")
def _meta_mode(I, a, d):
    m = _meta(a[0])
    return {"file": 0o100644, "dir": 0o040755, "symlink": 0o120777}[m.kind]


# ---------------------------------------------------------------------------
# HashMap / BTreeMap: entry API and a few more accessors

from .core import MapObj, truthy  # noqa: E402


class MapEntry:
    rust_type = "Entry"

    def __init__(self, m, key, ent):
        self.m, self.key, self.ent = m, key, ent


@T.path("std::collections::HashMap::entry", "std::collections::BTreeMap::entry")
def _map_entry(I, a, d):
    m = peel(a[0])
    return MapEntry(m, a[1], m.find(I, a[1]))


def _entry_slot(e, make):
    if e.ent is None:
        e.ent = [e.key, make()]
        e.m.items.append(e.ent)
    return Ref(ElemLoc(e.ent, 1), True)


@T.path("std::collections::hash_map::Entry::or_insert", "std::collections::btree_map::Entry::or_insert")
def _entry_or_insert(I, a, d):
    e = peel(a[0])
    if e.ent is not None:
        I.drop_value(a[1])
    return _entry_slot(e, lambda: a[1])


@T.path("std::collections::hash_map::Entry::or_insert_with", "std::collections::btree_map::Entry::or_insert_with")
def _entry_or_insert_with(I, a, d):
    e = peel(a[0])
    return _entry_slot(e, lambda: I.call_value(a[1], []))


@T.path("std::collections::hash_map::Entry::or_default", "std::collections::btree_map::Entry::or_default")
def _entry_or_default(I, a, d):
    raise Inconclusive("Entry::or_default")


@T.path("std::collections::hash_map::Entry::and_modify", "std::collections::btree_map::Entry::and_modify")
def _entry_and_modify(I, a, d):
    e = peel(a[0])
    if e.ent is not None:
        I.call_value(a[1], [Ref(ElemLoc(e.ent, 1), True)])
    return e


@T.path("std::collections::hash_map::Entry::key", "std::collections::btree_map::Entry::key")
def _entry_key(I, a, d):
    return Ref(ValLoc(peel(a[0]).key))


@T.path("std::collections::HashMap::get_mut", "std::collections::BTreeMap::get_mut")
def _map_get_mut(I, a, d):
    ent = peel(a[0]).find(I, a[1])
    return SOME(Ref(ElemLoc(ent, 1), True)) if ent is not None else NONE()


@T.path("std::collections::HashMap::len", "std::collections::BTreeMap::len", "std::collections::HashSet::len")
def _map_len(I, a, d):
    return len(peel(a[0]).items)


@T.path("std::collections::HashMap::is_empty", "std::collections::BTreeMap::is_empty", "std::collections::HashSet::is_empty")
def _map_is_empty(I, a, d):
    return len(peel(a[0]).items) == 0


def _map_order(I, m, items):
    items = list(items)
    if not getattr(m, "ordered", False) and len(items) > 1 and I.w.choose(2, "hashmap-order") == 1:
        items.reverse()
    return items


@T.path("std::collections::HashMap::into_iter", "std::collections::BTreeMap::into_iter")
def _map_into_iter(I, a, d):
    m = peel(a[0])
    return RIter.from_list([Agg("tuple", None, [k, v]) for k, v in _map_order(I, m, m.items)])


@T.path("std::collections::HashMap::iter", "std::collections::BTreeMap::iter")
def _map_iter(I, a, d):
    m = peel(a[0])
    return RIter.from_list([Agg("tuple", None, [Ref(ElemLoc(e, 0)), Ref(ElemLoc(e, 1))]) for e in _map_order(I, m, m.items)])


@T.path("std::collections::HashMap::keys", "std::collections::BTreeMap::keys", "std::collections::HashMap::into_keys", "std::collections::BTreeMap::into_keys")
def _map_keys(I, a, d):
    m = peel(a[0])
    ents = _map_order(I, m, m.items)
    if d["segs"][-1] == "keys":
        return RIter.from_list([Ref(ElemLoc(e, 0)) for e in ents])
    return RIter.from_list([e[0] for e in ents])


@T.path("std::collections::HashMap::values_mut", "std::collections::BTreeMap::values_mut")
def _map_values_mut(I, a, d):
    m = peel(a[0])
    return RIter.from_list([Ref(ElemLoc(e, 1), True) for e in _map_order(I, m, m.items)])


@T.path("std::collections::HashMap::retain", "std::collections::BTreeMap::retain")
def _map_retain(I, a, d):
    m = peel(a[0])
    keep = []
    for e in m.items:
        if truthy(I, I.call_value(a[1], [Ref(ElemLoc(e, 0)), Ref(ElemLoc(e, 1), True)]), "map-retain"):
            keep.append(e)
    m.items[:] = keep
    return UNIT


def _mapobj_into_iter(self, I):
    return RIter.from_list([Agg("tuple", None, [k, v]) for k, v in _map_order(I, self, self.items)])


def _mapobj_iter_refs(self, I, mut=False):
    return RIter.from_list([Agg("tuple", None, [Ref(ElemLoc(e, 0)), Ref(ElemLoc(e, 1), mut)]) for e in _map_order(I, self, self.items)])


MapObj.into_iter = _mapobj_into_iter
MapObj.iter_refs = _mapobj_iter_refs


# ---------------------------------------------------------------------------
# Path components, PathBuf editing, OsString

from ..interp import STD_ENUMS  # noqa: E402
from .core import path_components, path_from, mk_pathbuf  # noqa: E402

STD_ENUMS["Component"] = ["Prefix", "RootDir", "CurDir", "ParentDir", "Normal"]


def _component_values(s):
    """std::path::Components of a unix path."""
    from .core import split_sbytes
    parts = split_sbytes(s, 0x2F)
    out = []
    is_abs = bool(s.segs) and isinstance(s.segs[0], bytes) and s.segs[0].startswith(b"/")
    if is_abs:
        out.append(Adt("Component", 1, "RootDir", []))
    first = True
    for p in parts:
        if not p.segs:
            continue
        if p.is_concrete() and p.concrete() == b".":
            if first and not is_abs:
                out.append(Adt("Component", 2, "CurDir", []))
            first = False
            continue
        first = False
        if p.is_concrete() and p.concrete() == b"..":
            out.append(Adt("Component", 3, "ParentDir", []))
        else:
            out.append(Adt("Component", 4, "Normal", [BytesRef(p, "path")]))
    return out


def _component_text(c):
    c = peel(c)
    return {"RootDir": SBytes.of(b"/"), "CurDir": SBytes.of(b"."), "ParentDir": SBytes.of(b"..")}.get(c.vname) or \
        (as_sbytes(c.fields[0]) if c.fields else SBytes())


@T.path("std::path::Path::components")
def _path_components(I, a, d):
    return RIter.from_list(_component_values(as_sbytes(a[0])))


@T.path("std::path::Path::iter")
def _path_iter(I, a, d):
    return RIter.from_list([BytesRef(_component_text(c), "path") for c in _component_values(as_sbytes(a[0]))])


@T.path("std::path::Component::as_os_str")
def _component_as_os_str(I, a, d):
    return BytesRef(_component_text(a[0]), "path")


@T.trait("AsRef", "as_ref", r"Component$")
def _component_as_ref(I, a, d):
    return BytesRef(_component_text(a[0]), "path")


@T.path("std::path::PathBuf::pop")
def _pathbuf_pop(I, a, d):
    b = peel(a[0])
    is_abs, comps = path_components(b.sb)
    if not comps:
        return False
    b.sb = path_from(is_abs, comps[:-1])
    if not comps[:-1] and is_abs:
        b.sb = SBytes.of(b"/")
    return True


@T.path("std::path::PathBuf::set_file_name")
def _pathbuf_set_file_name(I, a, d):
    b = peel(a[0])
    is_abs, comps = path_components(b.sb)
    if comps and not (comps[-1].is_concrete() and comps[-1].concrete() == b".."):
        comps = comps[:-1]
    b.sb = path_from(is_abs, comps + [as_sbytes(a[1])])
    return UNIT


@T.path("std::ffi::OsString::new")
def _osstring_new(I, a, d):
    return BufObj("OsString", b"")


@T.path("std::ffi::OsString::push", "OsString::push")
def _osstring_push(I, a, d):
    b = peel(a[0])
    b.sb = b.sb + as_sbytes(a[1])
    return UNIT


@T.path("std::ffi::OsStr::to_os_string", "std::ffi::OsStr::to_owned", "std::path::Path::into_os_string", "std::path::PathBuf::into_os_string",
        "std::path::Path::as_os_str", "std::path::PathBuf::as_os_str", "std::ffi::OsString::as_os_str")
def _os_string_conv(I, a, d):
    last = d["segs"][-1]
    s = as_sbytes(a[0])
    if last in ("as_os_str",):
        return BytesRef(s, "path")
    return BufObj("OsString", s)


@T.path("std::ffi::OsStr::to_str", "std::ffi::OsStr::to_string_lossy", "std::ffi::OsStr::len", "std::ffi::OsStr::is_empty", "std::ffi::OsStr::as_encoded_bytes")
def _osstr_misc(I, a, d):
    last = d["segs"][-1]
    s = as_sbytes(a[0])
    if last == "to_str":
        return SOME(BytesRef(s, "str"))
    if last == "to_string_lossy":
        return mk_string(s)
    if last == "len":
        return s.length()
    if last == "is_empty":
        ln = s.length()
        return (ln == 0) if not is_sym(ln) else (ln == z3.BitVecVal(0, 64))
    return BytesRef(s, "bytes")


# ---------------------------------------------------------------------------
# slices: windows / chunks; bool::then_some / then

def _seq_items(v):
    v = peel(v)
    if isinstance(v, VecObj):
        return v.items
    if isinstance(v, SliceRef):
        return v.items[v.start:v.end]
    raise Inconclusive("windows/chunks over %r" % (type(v).__name__,))


def _byte_windows(I, s, n):
    """Windows of n bytes over a byte string.  Fully concrete: all of them.  Otherwise (symbolic pieces or
    symbolic n -- a substring search over file content): the windows that start where a segment of the
    string starts or right at a line feed, which is where structured text can match; other alignments
    are not produced (stated approximation of this model)."""
    ln = s.length()
    if not is_sym(ln) and not is_sym(n) and s.is_concrete():
        data = s.concrete()
        return RIter.from_list([BytesRef(data[i:i + n], "bytes") for i in range(0, max(ln - n + 1, 0))])
    offs = []
    pos = 0
    for seg in s.segs:
        offs.append(pos)
        if isinstance(seg, bytes):
            for k, c in enumerate(seg):
                if c == 0x0A and k:
                    offs.append(pos + k if not is_sym(pos) else z3.simplify(pos + k))
        seglen = SBytes((seg,)).length()
        pos = (pos + seglen) if not (is_sym(pos) or is_sym(seglen)) else z3.simplify(sb._bv(pos) + sb._bv(seglen))
    wins = []
    for off in offs:
        end = (off + n) if not (is_sym(off) or is_sym(n)) else z3.simplify(sb._bv(off) + sb._bv(n))
        fits = z3.ULE(sb._bv(end), sb._bv(ln)) if (is_sym(end) or is_sym(ln)) else end <= ln
        if fits is False:
            continue
        if fits is not True and not I.w.branch(fits, "window-fits"):
            continue
        wins.append(BytesRef(sb.slice_(s, off, end, I.w), "bytes"))
    return RIter.from_list(wins)


@T.path("core::slice::windows", "slice::windows")
def _slice_windows(I, a, d):
    n = a[1]
    if not is_sym(n) and n == 0:
        panic("window size must be non-zero")
    v = peel(a[0])
    if isinstance(v, (BufObj, BytesRef)):
        return _byte_windows(I, v.sb, n)
    items = _seq_items(v)
    return RIter.from_list([SliceRef(items, i, i + n) for i in range(0, max(len(items) - n + 1, 0))])


@T.path("core::slice::chunks", "slice::chunks")
def _slice_chunks(I, a, d):
    n = a[1]
    if is_sym(n):
        raise Inconclusive("chunks with symbolic size")
    if n == 0:
        panic("chunk size must be non-zero")
    v = peel(a[0])
    if isinstance(v, (BufObj, BytesRef)):
        ln = v.sb.length()
        if is_sym(ln):
            raise Inconclusive("chunks over bytes of symbolic length")
        return RIter.from_list([BytesRef(sb.slice_(v.sb, i, min(i + n, ln), I.w), "bytes") for i in range(0, ln, n)])
    items = _seq_items(v)
    return RIter.from_list([SliceRef(items, i, min(i + n, len(items))) for i in range(0, len(items), n)])


@T.path("core::bool::then_some", "bool::then_some")
def _bool_then_some(I, a, d):
    if _truth(I, a[0], "then_some"):
        return SOME(a[1])
    I.drop_value(a[1])
    return NONE()


@T.path("core::bool::then", "bool::then")
def _bool_then(I, a, d):
    if _truth(I, a[0], "then"):
        return SOME(I.call_value(a[1], []))
    return NONE()


@T.path("std::path::PathBuf::with_capacity")
def _pathbuf_with_capacity(I, a, d):
    return mk_pathbuf(b"")


@T.path("std::path::PathBuf::reserve", "std::path::PathBuf::shrink_to_fit", "std::path::PathBuf::clear")
def _pathbuf_misc(I, a, d):
    if d["segs"][-1] == "clear":
        peel(a[0]).sb = SBytes()
    return UNIT


# ---------------------------------------------------------------------------
# serde_json: to_writer / from_slice

from . import serde as _serde  # noqa: E402


@T.path("serde_json::to_writer")
def _json_to_writer(I, a, d):
    """serde_json::to_writer hands the text to the writer token by token (many small write_all calls).  The
    model emits it in three pieces (first byte, middle, last byte): enough to make the writer observe that the
    text does not arrive in one call, without one call per token."""
    r = _serde._to_string(I, [a[1]], d)
    if r.vname == "Err":
        return r
    text = as_sbytes(r.fields[0])
    ln = text.length()
    if is_sym(ln):
        pieces = [sb.slice_(text, 0, 1, I.w), sb.slice_(text, 1, I._sub(ln, 1), I.w), sb.slice_(text, I._sub(ln, 1), ln, I.w)]
    elif ln >= 3:
        pieces = [sb.slice_(text, 0, 1, I.w), sb.slice_(text, 1, ln - 1, I.w), sb.slice_(text, ln - 1, ln, I.w)]
    else:
        pieces = [text]
    w = a[0] if isinstance(a[0], Ref) else Ref(ValLoc(a[0]), True)
    for pc in pieces:
        rr = I.call_trait_method("Write", "write_all", [w, BytesRef(pc, "bytes")])
        if rr.vname == "Err":
            return ERR(_serde.SerdeError("io"))
    return OK(UNIT)


@T.path("serde_json::from_slice")
def _json_from_slice(I, a, d):
    d2 = dict(d)
    d2["raw"] = d.get("raw", "").replace("from_slice", "from_str")
    return _serde._from_str(I, a, d2)


@T.path("serde_json::to_string_pretty", "serde_json::to_vec_pretty")
def _json_pretty(I, a, d):
    raise Inconclusive("pretty-printed JSON is not modelled")


# ---------------------------------------------------------------------------
# tempfile::Builder and TempPath

from . import fs as _fs  # noqa: E402


class TempBuilder:
    rust_type = "Builder"

    def __init__(self):
        self.prefix, self.suffix = b".tmp", b""


@T.path("tempfile::Builder::new")
def _tb_new(I, a, d):
    return TempBuilder()


@T.path("tempfile::Builder::prefix", "tempfile::Builder::suffix", "tempfile::Builder::rand_bytes", "tempfile::Builder::append",
        "tempfile::Builder::permissions", "tempfile::Builder::keep", "tempfile::Builder::disable_cleanup")
def _tb_set(I, a, d):
    b = peel(a[0])
    which = d["segs"][-1]
    if which in ("prefix", "suffix"):
        txt = as_sbytes(a[1])
        if not txt.is_concrete():
            raise Inconclusive("tempfile::Builder::%s with symbolic text" % which)
        setattr(b, which, txt.concrete())
    elif which in ("keep", "disable_cleanup"):
        raise Inconclusive("tempfile::Builder::%s" % which)
    return a[0]


def _tb_make(I, b, dirpath):
    t = _fs.new_temp_in(I, dirpath)
    return t


@T.path("tempfile::Builder::tempfile_in")
def _tb_tempfile_in(I, a, d):
    b = peel(a[0])
    return _fs.wrap(I, lambda: _tb_make(I, b, as_sbytes(a[1])))


@T.path("tempfile::Builder::tempfile")
def _tb_tempfile(I, a, d):
    b = peel(a[0])
    return _fs.wrap(I, lambda: _tb_make(I, b, SBytes(b"/root/systmp")))


@T.path("tempfile::NamedTempFile::into_temp_path")
def _ntf_into_temp_path(I, a, d):
    return peel(a[0])        # same object: path + cleanup on drop


@T.path("tempfile::TempPath::persist")
def _tp_persist(I, a, d):
    r = _fs._persist(I, a, False)
    return OK(UNIT) if r.vname == "Ok" else r


@T.path("tempfile::TempPath::persist_noclobber")
def _tp_persist_noclobber(I, a, d):
    r = _fs._persist(I, a, True)
    return OK(UNIT) if r.vname == "Ok" else r


@T.path("tempfile::TempPath::close")
def _tp_close(I, a, d):
    return _fs._ntf_close(I, a, d)


@T.path("tempfile::NamedTempFile::reopen")
def _ntf_reopen(I, a, d):
    t = peel(a[0])
    return _fs.wrap(I, lambda: _fs.op_open(I, t.path, read=True, write=True))


@T.path("tempfile::NamedTempFile::into_parts")
def _ntf_into_parts(I, a, d):
    t = peel(a[0])
    return Agg("tuple", None, [t.file, t])


# ---------------------------------------------------------------------------
# more std::fs

@T.path("std::fs::read_link", "std::path::Path::read_link")
def _fs_read_link(I, a, d):
    def go():
        p, n, ino = I.env.vfs.walk(as_sbytes(a[0]), follow_last=False)
        _fs.fail_if_injected(I.env.act("readlink", as_sbytes(a[0]), mutating=False))
        if ino is None:
            raise _fs.FsErr("NotFound")
        if ino.kind != "symlink":
            raise _fs.FsErr("InvalidInput")
        return mk_pathbuf(ino.target)
    return _fs.wrap(I, go)


@T.path("std::fs::exists")
def _fs_exists(I, a, d):
    def go():
        try:
            _fs.op_stat(I, as_sbytes(a[0]), True)
            return True
        except _fs.FsErr as e:
            if e.kind == "NotFound":
                return False
            raise
    return _fs.wrap(I, go)


@T.path("std::path::Path::is_symlink")
def _path_is_symlink(I, a, d):
    try:
        m = _fs.op_stat(I, as_sbytes(a[0]), False)
        return m.kind == "symlink"
    except _fs.FsErr:
        return False


@T.path("std::io::BufReader::with_capacity")
def _bufreader_with_capacity(I, a, d):
    return _fs.BufReaderObj(a[1])


# ---------------------------------------------------------------------------
# BufRead::fill_buf / consume (std BufReader over a File)

@T.trait("BufRead", "fill_buf")
def _bufread_fill_buf(I, a, d):
    br = peel(a[0])
    f = peel(br.inner)
    if isinstance(f, _fs.NamedTempFileObj):
        f = f.file
    if not isinstance(f, _fs.FileObj):
        raise Inconclusive("fill_buf over %r" % (f,))
    if getattr(br, "pending", None) is not None:
        raise Inconclusive("fill_buf after line reads")

    def go():
        _fs.fail_if_injected(I.env.act("read", f.path, mutating=False, fobj=f))
        if f.inode.kind == "dir":
            raise _fs.FsErr("IsADirectory")
        content = f.inode.sb
        total = content.length()
        off = f.offset
        if is_sym(total) or is_sym(off):
            rem_small = I.w.branch(z3.ULE(sb._bv(total), sb._bv(off) + 8192), "fill_buf-all")
        else:
            rem_small = total <= off + 8192
        end = total if rem_small else (off + 8192 if not is_sym(off) else z3.simplify(sb._bv(off) + 8192))
        return BytesRef(sb.slice_(content, off, end, I.w), "bytes")
    return _fs.wrap(I, go)


@T.trait("BufRead", "consume")
def _bufread_consume(I, a, d):
    br = peel(a[0])
    f = peel(br.inner)
    if isinstance(f, _fs.NamedTempFileObj):
        f = f.file
    n = a[1]
    f.offset = (f.offset + n) if not (is_sym(f.offset) or is_sym(n)) else z3.simplify(sb._bv(f.offset) + sb._bv(n))
    return UNIT


@T.path("std::io::BufReader::buffer")
def _bufreader_buffer(I, a, d):
    return BytesRef(SBytes(), "bytes")


@T.path("std::io::BufReader::get_ref", "std::io::BufReader::get_mut", "std::io::BufReader::into_inner")
def _bufreader_inner(I, a, d):
    br = peel(a[0])
    if d["segs"][-1] == "into_inner":
        return br.inner
    return br.inner if isinstance(br.inner, Ref) else Ref(ValLoc(br.inner), True)


# ---------------------------------------------------------------------------
# modification times

@T.path("std::fs::Metadata::modified", "std::fs::Metadata::accessed", "std::fs::Metadata::created")
def _meta_modified(I, a, d):
    m = peel(a[0])
    if d["segs"][-1] != "modified":
        raise Inconclusive("Metadata::%s" % d["segs"][-1])
    t = getattr(m, "mtime", None)
    if t is None:
        raise Inconclusive("modification time of %r" % (m,))
    return OK(_fs.SystemTimeObj(t))


def _systemtime_eq(self, I, other):
    other = peel(other)
    a_, b_ = self.millis, getattr(other, "millis", None)
    if b_ is None:
        return False
    if is_sym(a_) or is_sym(b_):
        return sb._bv(a_) == sb._bv(b_)
    return a_ == b_


_fs.SystemTimeObj.rust_eq = _systemtime_eq


@T.path("std::fs::File::set_modified", "std::fs::File::set_times")
def _file_set_modified(I, a, d):
    raise Inconclusive("File::set_modified")


# ---------------------------------------------------------------------------
# more of async_std::fs / tokio::fs

def _reg_more_async_fs(P):
    from .asyncrt import _afut

    @T.path(P + "::fs::read_to_string")
    def _read_to_string(I, a, d):
        p = as_sbytes(a[0])

        def go():
            def inner():
                f = _fs.op_open(I, p, read=True)
                data = _fs.op_read_all(I, f)
                f.closed = True
                if not _fs.utf8_check(I, data):
                    raise _fs.FsErr("InvalidData")
                return mk_string(data)
            return _fs.wrap(I, inner)
        return _afut(go, "fs::read_to_string")

    @T.path(P + "::fs::create_dir")
    def _create_dir(I, a, d):
        p = as_sbytes(a[0])
        return _afut(lambda: _fs.wrap(I, lambda: _fs.op_mkdir(I, p)), "fs::create_dir")

    @T.path(P + "::fs::try_exists")
    def _try_exists(I, a, d):
        p = as_sbytes(a[0])

        def go():
            def inner():
                try:
                    _fs.op_stat(I, p, True)
                    return True
                except _fs.FsErr as e:
                    if e.kind == "NotFound":
                        return False
                    raise
            return _fs.wrap(I, inner)
        return _afut(go, "fs::try_exists")

    @T.path(P + "::fs::read_link")
    def _read_link(I, a, d):
        return _afut(lambda: _fs_read_link(I, a, d), "fs::read_link")


_reg_more_async_fs("async_std")
_reg_more_async_fs("tokio")


# ---------------------------------------------------------------------------
# integer conversions: TryFrom / TryInto

_INT_BITS = {"u8": 8, "u16": 16, "u32": 32, "u64": 64, "u128": 128, "usize": 64, "i8": 8, "i16": 16, "i32": 32, "i64": 64, "i128": 128, "isize": 64}


def _try_int(I, v, to, frm=None):
    if to not in _INT_BITS or to.startswith("i"):
        raise Inconclusive("TryFrom into %s" % to)
    tb = _INT_BITS[to]
    v = peel(v)
    if isinstance(v, bool):
        raise Inconclusive("TryFrom<bool>")
    if isinstance(v, int):
        if 0 <= v < (1 << tb):
            return OK(v)
        return ERR(Agg("struct", "TryFromIntError", []))
    if is_sym(v):
        fb = v.size()
        if fb <= tb:
            return OK(z3.ZeroExt(tb - fb, v) if fb < tb else v)
        if I.w.branch(z3.ULE(v, z3.BitVecVal((1 << tb) - 1, fb)), "try_from-fits"):
            return OK(z3.Extract(tb - 1, 0, v))
        return ERR(Agg("struct", "TryFromIntError", []))
    raise Inconclusive("TryFrom of %r" % (v,))


@T.trait("TryFrom", "try_from")
def _try_from(I, a, d):
    from .core import base_type_name
    to = base_type_name(d.get("self") or "")[-1] if d.get("self") else ""
    return _try_int(I, a[0], to)


@T.trait("TryInto", "try_into")
def _try_into(I, a, d):
    from .core import generic_args, base_type_name
    targ = generic_args(d.get("trait") or "")
    to = base_type_name(targ[0])[-1] if targ else ""
    return _try_int(I, a[0], to)


T.consts["PhantomData"] = lambda I: Agg("struct", "PhantomData", [])


@T.trait("From", "from", r"^(u16|u32|u64|u128|usize)$")
def _int_from(I, a, d):
    """Lossless widening (u64::from(u32), u128::from(u64) ...)."""
    from .core import base_type_name
    to = base_type_name(d.get("self") or "")[-1]
    wd = {"u16": 16, "u32": 32, "u64": 64, "u128": 128, "usize": 64}[to]
    v = peel(a[0])
    if isinstance(v, bool):
        return int(v)
    if isinstance(v, int):
        return v
    if is_sym(v):
        if z3.is_bool(v):
            return z3.If(v, z3.BitVecVal(1, wd), z3.BitVecVal(0, wd))
        return z3.ZeroExt(wd - v.size(), v) if v.size() < wd else v
    raise Inconclusive("From<%r> for %s" % (v, to))


# ---------------------------------------------------------------------------
# futures: ready(), StreamExt combinators over model streams

from . import asyncrt as _art  # noqa: E402


@T.path("futures::future::ready", "futures_util::future::ready", "std::future::ready", "core::future::ready")
def _future_ready(I, a, d):
    v = a[0]
    return _art.ModelFuture(lambda: v, "ready")


def _await_now(I, fut, cx):
    """Drive a future produced inside a stream combinator to completion (it must not be Pending)."""
    if not (hasattr(peel(fut), "poll") or isinstance(peel(fut), (Coroutine, BoxV))):
        return fut          # a plain value (sync closure)
    cell = Cell(fut)
    for _ in range(64):
        r = _art.poll_any(I, _art.mk_pin(Ref(CellLoc(cell), True)), cx)
        if r.vname == "Ready":
            return r.fields[0]
        rt = getattr(I.env, "runtime", None)
        if rt is None or not rt.run_one(I):
            raise Inconclusive("future inside a stream combinator stays Pending")
    raise Hang("future inside a stream combinator never completes")


class ComboStream:
    rust_type = "ComboStream"

    def __init__(self, kind, inner, f):
        self.kind, self.inner, self.f = kind, inner, f
        self.done = False

    def _inner_next(self, I, cx):
        s = peel(self.inner)
        if not hasattr(s, "poll_next"):
            raise Inconclusive("stream combinator over %r" % (s,))
        r = s.poll_next(I, cx)
        if r.vname == "Pending":
            raise Inconclusive("Pending stream inside a combinator")
        return r.fields[0]          # Option<item>

    def poll_next(self, I, cx):
        from .asyncrt import READY
        if self.done:
            return READY(NONE())
        while True:
            o = self._inner_next(I, cx)
            if o.vname == "None":
                self.done = True
                return READY(NONE())
            item = o.fields[0]
            k = self.kind
            if k == "map":
                return READY(SOME(I.call_value(self.f, [item])))
            if k == "then":
                return READY(SOME(_await_now(I, I.call_value(self.f, [item]), cx)))
            if k == "take_while":
                keep = _await_now(I, I.call_value(self.f, [Ref(ValLoc(item))]), cx)
                if _truth(I, keep, "stream-take_while"):
                    return READY(SOME(item))
                self.done = True
                I.drop_value(item)
                return READY(NONE())
            if k == "filter":
                keep = _await_now(I, I.call_value(self.f, [Ref(ValLoc(item))]), cx)
                if _truth(I, keep, "stream-filter"):
                    return READY(SOME(item))
                I.drop_value(item)
                continue
            if k == "filter_map":
                r = _opt(_await_now(I, I.call_value(self.f, [item]), cx))
                if r.vname == "Some":
                    return READY(SOME(r.fields[0]))
                continue
            raise Inconclusive("stream combinator %s" % k)


for _k in ("map", "then", "take_while", "filter", "filter_map"):
    def _mk(kind):
        def model(I, a, d):
            return ComboStream(kind, a[0], a[1])
        return model
    T.trait("StreamExt", _k)(_mk(_k))


class StreamDrain:
    """collect / fold / for_each / count futures over a model stream."""
    rust_type = "StreamDrain"

    def __init__(self, kind, stream, f=None, acc=None):
        self.kind, self.stream, self.f, self.acc = kind, stream, f, acc

    def poll(self, I, cx):
        from .asyncrt import READY
        items = []
        s = ComboStream("map", self.stream, None)
        n = 0
        while True:
            o = s._inner_next(I, cx)
            if o.vname == "None":
                break
            item = o.fields[0]
            n += 1
            if n > 10000:
                raise Hang("stream does not terminate")
            if self.kind == "collect":
                items.append(item)
            elif self.kind == "fold":
                self.acc = _await_now(I, I.call_value(self.f, [self.acc, item]), cx)
            elif self.kind == "for_each":
                _await_now(I, I.call_value(self.f, [item]), cx)
        if self.kind == "collect":
            return READY(VecObj(items))
        if self.kind == "fold":
            return READY(self.acc)
        if self.kind == "count":
            return READY(n)
        return READY(UNIT)

    def rust_drop(self, I):
        pass


@T.trait("StreamExt", "collect")
def _stream_collect(I, a, d):
    return StreamDrain("collect", a[0])


@T.trait("StreamExt", "fold")
def _stream_fold(I, a, d):
    return StreamDrain("fold", a[0], f=a[2], acc=a[1])


@T.trait("StreamExt", "for_each")
def _stream_for_each(I, a, d):
    return StreamDrain("for_each", a[0], f=a[1])


@T.trait("StreamExt", "count")
def _stream_count(I, a, d):
    return StreamDrain("count", a[0])


# ---------------------------------------------------------------------------
# round-4 additions: Duration constructors, thread::sleep, hex::decode_to_slice, DirEntry accessors,
# HashSet::remove, SystemTime ordering

@T.path("std::time::Duration::from_millis", "core::time::Duration::from_millis")
def _dur_from_millis(I, a, d):
    return _fs.DurationObj(a[0])


@T.path("std::time::Duration::from_secs", "core::time::Duration::from_secs")
def _dur_from_secs(I, a, d):
    v = a[0]
    return _fs.DurationObj(v * 1000 if not is_sym(v) else z3.simplify(v * 1000))


@T.path("std::time::Duration::from_micros", "core::time::Duration::from_micros", "std::time::Duration::from_nanos", "core::time::Duration::from_nanos")
def _dur_from_small(I, a, d):
    return _fs.DurationObj(0)


@T.path("std::thread::sleep", "std::thread::yield_now")
def _thread_sleep(I, a, d):
    I.w.tick(200)       # waiting costs steps: a retry loop that never ends still runs into the step budget
    return UNIT


@T.path("hex::decode_to_slice", "decode_to_slice")
def _hex_decode_to_slice(I, a, d):
    """hex::decode_to_slice(data, &mut out): Err on odd length, a non-hex digit or a length mismatch."""
    src = as_sbytes(a[0])
    dst = peel(a[1])
    err = lambda name: ERR(Adt("FromHexError", 0, name, []))     # noqa: E731
    if src.has_kind(sb.SymByte) and all(isinstance(x, (bytes, sb.SymByte)) for x in src.segs):
        # damaged digits: decide each symbolic byte against the 22 hex digits (anything else is an invalid character)
        src = decide_symbytes(I, src, list(b"0123456789abcdefABCDEF"))
        if src.has_kind(sb.SymByte):
            return err("InvalidHexCharacter")
    if not src.is_concrete():
        # digest atoms are lower-case hex by construction: decode them back to the digest
        if len(src.segs) == 1 and isinstance(src.segs[0], sb.Atom) and src.segs[0].kind == "hex" and src.segs[0].a is None:
            dg = src.segs[0].payload
            out = SBytes.of(dg.raw) if dg.raw is not None else SBytes((sb.Atom("rawdigest", dg),))
            _store_bytes(I, dst, out)
            return OK(UNIT)
        raise Inconclusive("hex::decode_to_slice over symbolic text")
    text = src.concrete()
    want = _dst_len(dst)
    if len(text) % 2 == 1:
        return err("OddLength")
    if want is not None and len(text) // 2 != want:
        return err("InvalidStringLength")
    try:
        raw = bytes.fromhex(text.decode("ascii"))
    except (ValueError, UnicodeDecodeError):
        return err("InvalidHexCharacter")
    if any(c in b" \t\n" for c in text):
        return err("InvalidHexCharacter")
    _store_bytes(I, dst, SBytes.of(raw))
    return OK(UNIT)


def _dst_len(dst):
    if isinstance(dst, MutBytesRef):
        n = dst.end - dst.start if not (is_sym(dst.end) or is_sym(dst.start)) else None
        return n
    if isinstance(dst, BufObj):
        n = dst.sb.length()
        return None if is_sym(n) else n
    return None


def _store_bytes(I, dst, data):
    if isinstance(dst, MutBytesRef):
        _fs.write_window(I, dst.buf, dst.start, data)
    elif isinstance(dst, BufObj):
        dst.sb = data
    else:
        raise Inconclusive("byte destination %r" % (dst,))


@T.path("std::fs::DirEntry::metadata")
def _direntry_metadata(I, a, d):
    e = peel(a[0])
    return _fs.wrap(I, lambda: _fs.op_stat(I, e.path, False))


@T.path("std::fs::DirEntry::file_type")
def _direntry_file_type(I, a, d):
    e = peel(a[0])
    return OK(_fs.FileTypeObj(e.ino.kind))


@T.path("std::fs::DirEntry::file_name")
def _direntry_file_name(I, a, d):
    e = peel(a[0])
    _abs, comps = path_components(e.path)
    return BufObj("OsString", comps[-1] if comps else SBytes())


@T.path("std::collections::HashSet::remove")
def _hashset_remove(I, a, d):
    hs = peel(a[0])
    for k, x in enumerate(hs.items):
        if truthy(I, I.call_trait_method("PartialEq", "eq", [Ref(ValLoc(x)), a[1]]), "hashset-remove"):
            del hs.items[k]
            if k < len(hs.hashes):
                del hs.hashes[k]
            return True
    return False


@T.path("std::collections::HashSet::iter", "std::collections::HashSet::into_iter")
def _hashset_iter(I, a, d):
    hs = peel(a[0])
    items = list(hs.items)
    if len(items) > 1 and I.w.choose(2, "hashset-order") == 1:
        items.reverse()
    if d["segs"][-1] == "iter":
        return RIter.from_list([Ref(ValLoc(x)) for x in items])
    return RIter.from_list(items)


def _st_millis(v):
    v = peel(v)
    m = getattr(v, "millis", None)
    if m is None:
        raise Inconclusive("time comparison of %r" % (v,))
    return m


def _st_cmp(I, a, op):
    x, y = _st_millis(a[0]), _st_millis(a[1])
    if is_sym(x) or is_sym(y):
        bx, by = sb._bv(x), sb._bv(y)
        return {"lt": z3.ULT, "le": z3.ULE, "gt": z3.UGT, "ge": z3.UGE}[op](bx, by)
    return {"lt": x < y, "le": x <= y, "gt": x > y, "ge": x >= y}[op]


for _op in ("lt", "le", "gt", "ge"):
    T.trait("PartialOrd", _op, r"SystemTime$|Duration$")((lambda o: (lambda I, a, d: _st_cmp(I, a, o)))(_op))


@T.trait("Deref", "deref", r"GenericArray$")
def _generic_array_deref(I, a, d):
    v = peel(a[0])
    return BytesRef(v.as_sbytes(), "bytes")


@T.trait("AsRef", "as_ref", r"GenericArray$")
def _generic_array_as_ref(I, a, d):
    v = peel(a[0])
    return BytesRef(v.as_sbytes(), "bytes")
