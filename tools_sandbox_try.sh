#!/bin/bash
# usage: tools_sandbox_try.sh <name> <patch.diff|-> <check ids...>
# Development aid: runs checks against a PATCHED COPY of the repository without touching /repo:
# a scratch worktree of /repo + a scratch copy of /verif whose runner depends on that worktree.
# (The registered commands always run /verif against /repo itself; this is only for trying seeded
# changes and refactors in parallel.)  Everything lives under /tmp/vt/<name> and is removed afterwards.
name=$1; patch=$2; shift 2
T=/tmp/vt/$name
rm -rf $T; mkdir -p $T
git -C /repo worktree add -q --detach $T/repo ${BASE:-HEAD} || exit 9
if [ "$patch" != "-" ]; then
  (cd $T/repo && git apply "$patch") || { echo "$name PATCH-DOES-NOT-APPLY"; git -C /repo worktree remove --force $T/repo; rm -rf $T; exit 9; }
fi
rsync -a --exclude .git --exclude replays --exclude 'build/mir' --exclude 'build/witness_mismatch' --exclude '*.lock' /verif/ $T/verif/
sed -i "s#path = \"/repo\"#path = \"$T/repo\"#" $T/verif/replay/Cargo.toml
cd $T/verif
export VERIF_REPO=$T/repo VERIF_JOBS=${VERIF_JOBS:-5} VERIF_SEED=${VERIF_SEED:-1} CARGO_NET_OFFLINE=true
for c in "$@"; do
  s=$(date +%s)
  out=$(./check $c --tier ${TIER:-quick} 2>&1); rc=$?
  e=$(date +%s)
  echo "$name $c rc=$rc $((e-s))s viol=$(echo "$out" | grep -c '^VIOLATION') $(echo "$out" | grep -E 'what:|INCONCLUSIVE|MISMATCH|UNREPLAY|Traceback|Error' | head -3 | cut -c1-260 | tr '\n' '|')"
done
cd /
git -C /repo worktree remove --force $T/repo
rm -rf $T
