#!/usr/bin/env python3
import json, sys
name, caught, note = sys.argv[1], sys.argv[2], (sys.argv[3] if len(sys.argv) > 3 else "")
p = '/verif/seeded/%s/meta.json' % name
m = json.load(open(p))
m["caught_by"] = [c.strip() for c in caught.split(";")] if caught else None
if note:
    m["note"] = note
json.dump(m, open(p, 'w'), indent=1)
