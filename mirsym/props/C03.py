"""C03 -- content files appear atomically: never partial, always matching their address."""
import z3
from .common import *
from ..models.fs import comp_key

BOUNDS = {"crash_points": "before every filesystem action of the write (one-shot, streamed, keyed, by address), and inside every "
                          "data write after a symbolic torn prefix",
          "data": "any length, <= 2 chunks (thorough 3); declared size absent / equal / any other value (symbolic) so the mmap path, "
                  "its overflow fallback and its shortfall truncation are all inside",
          "failing_calls": "additionally (family failing-*) one rename / mkdir / link of the write fails (EXDEV, EIO) and the process is killed at any later point",
          "cache_state": "cold, warm (directories exist), or the address already present",
          "also": "the invariant is asserted at normal return too",
          "outside": "power loss with unflushed page cache (no fsync model); kernel crash during rename"}


def content_invariant(ctx, scn, tag, what):
    """Every regular file under content-v2/<algo>/aa/bb/rest holds data whose digest is aabbrest."""
    I = scn.s.I
    vfs = scn.env.vfs
    try:
        root = vfs.lookup(SBytes.of(CACHE + "/content-v2"))
    except Exception:
        ctx.expect(True, tag + ":invariant", what)
        return True
    ok_all = True
    for algo_name, algo_dir in root.children.values():
        if algo_dir.kind != "dir":
            continue
        algo = algo_name.concrete().decode()
        for n1, d1 in algo_dir.children.values():
            if d1.kind != "dir":
                continue
            for n2, d2 in d1.children.values():
                if d2.kind != "dir":
                    continue
                for n3, f in d2.children.values():
                    if f.kind != "file":
                        continue
                    addr = n1 + n2 + n3
                    dg = scn.env.intern_digest(algo, f.sb)
                    hx = SBytes.of(dg.raw.hex().encode()) if dg.raw is not None else SBytes((sb.Atom("hex", dg),))
                    e = sb.content_eq(hx, addr, ctx.w)
                    good = ctx.expect(e, tag + ":invariant", what + ": a file in the content area does not hold the data its address names",
                                      native={"kind": "tree_content_valid"})
                    ok_all = ok_all and good
    return ok_all


def crash_write(ctx, entry, keyed, size_mode, nchunks, warm, api, failing=None):
    scn = ctx.new_scn(api=api)
    D = scn.blob("D")
    data = scn.whole(D)
    tag = "C03:%s:%s:%s:size-%s:%dchunks:%s" % (api, entry, "keyed" if keyed else "hash", size_mode, nchunks, warm)
    if warm == "warm":
        # another entry was written before: tmp/ and the fan-out directories may already exist
        O = scn.blob("O")
        scn.distinct(O, D)
        if scn.write("other", scn.whole(O)).kind != "ok":
            return
    elif warm == "present":
        if scn.write_hash(data).kind != "ok":
            return
    scn.arm_crash()
    if failing:
        # additionally one call of this kind fails during the write (e.g. the publishing rename: tmp/ on another
        # filesystem); whatever the library does instead must be just as atomic
        tag += ":failing-" + failing
        scn.arm_fault(kinds=["CrossesDevices", "Other"], short_write=False, actions=[failing])
    outs = []
    if entry == "oneshot":
        outs.append(scn.write("k", data) if keyed else scn.write_hash(data))
    else:
        opts = {}
        if size_mode == "equal":
            opts["size"] = D.len
        elif size_mode == "any":
            opts["size"] = scn.sym("declared", 64)
        r = scn.open("k", opts) if keyed else scn.open_hash(opts)
        outs.append(r)
        if r.kind == "ok":
            h = r.handle
            for c in chunks_of(scn, D, nchunks):
                o = scn.hwrite_all(h, c)
                outs.append(o)
                if o.kind != "ok":
                    break
            else:
                outs.append(scn.commit(h))
    scn.disarm()
    for o in outs:
        if o.kind in ("panic", "abort", "hang"):
            ctx.expect(False, tag + ":" + o.kind, "write %s: %s" % (o.kind, o.detail), native={"kind": "outcome_in", "step": last(scn), "allowed": ["ok", "err", "crash"]})
            return
    where = "after the kill" if scn.crashed() else "at normal return"
    if scn.crashed():
        fired = scn.env.crash.fired
        ctx.note("killed before %s (effects=%s, torn=%s)" % (fired["kind"], fired["effects"], fired["torn"]))
        scn.restart()
    content_invariant(ctx, scn, tag, "content area %s" % where)


def tasks(tier, flavours):
    out = []
    for fl in flavours:
        api = "sync" if fl == "sync" else "async"
        for keyed in (True, False):
            for warm in ("cold", "warm", "present"):
                if tier == "quick" and fl != "sync" and warm == "warm":
                    continue
                out.append(dict(module="C03", family="crash_write", flavour=fl, params=dict(entry="oneshot", keyed=keyed, size_mode="none", nchunks=1, warm=warm, api=api)))
            for size_mode in ("none", "equal", "any"):
                for n in ((1, 2) if tier == "quick" else (1, 2, 3)):
                    if tier == "quick" and fl != "sync" and n == 2 and size_mode == "none":
                        continue
                    out.append(dict(module="C03", family="crash_write", flavour=fl,
                                    params=dict(entry="streamed", keyed=keyed, size_mode=size_mode, nchunks=n, warm="cold" if n == 1 else "warm", api=api)))
            for failing in ("rename",) if tier == "quick" else ("rename", "mkdir", "link"):
                if tier == "quick" and fl != "sync" and not keyed:
                    continue
                out.append(dict(module="C03", family="crash_write", flavour=fl,
                                params=dict(entry="oneshot", keyed=keyed, size_mode="none", nchunks=1, warm="warm", api=api, failing=failing)))
    return out
