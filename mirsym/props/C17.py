"""C17 -- the on-disk layout is the fixed, versioned cacache format, readable by others."""
import hashlib
import json
import z3
from .common import *
from ..models.serde import JsonValue
from .. import refmodel
from ..replay import render_value

BOUNDS = {"direction_1": "library writes (hostile and non-ASCII keys, metadata with escapes, raw metadata, all algorithms, tombstones, several records per "
                         "bucket; time/size symbolic) -> files must be byte-identical to the independent reference writer's output and at the reference's paths",
          "direction_2": "reference writes a cache (concrete) -> library lookups, reads and listing must return the reference's entries",
          "reference": "mirsym/refmodel.py, ~100 lines, written from the format description only",
          "outside": "JSON values beyond the restricted domain; readers other than the reference"}

KEYS = ["a", "clé/ключ ✓", "k\t\"q\"\\\n", "../../etc/passwd", "x" * 70]
METAS = [None, {"a": [1, "é\n"], "b": None}, "str\"ing"]


def ref_record_sbytes(scn, key, integrity_text, time, size, meta, raw):
    """The reference record as SBytes; symbolic numbers appear as decimal atoms, the checksum as the
    (interned) SHA-256 of the reference JSON text."""
    def dec(v, width):
        if is_sym(v):
            return SBytes((sb.Atom("dec", (v, width)),))
        return SBytes.of(str(v).encode())
    j = SBytes.of(('{"key":' + refmodel.json_text(key) + ',"integrity":').encode("utf-8"))
    if integrity_text is None:
        j = j + b"null"
    else:
        j = j + b'"' + integrity_text + b'"'
    j = j + b',"time":' + dec(time, 128) + b',"size":' + dec(size, 64)
    j = j + (',"metadata":' + refmodel.json_text(meta)).encode("utf-8")
    j = j + b',"raw_metadata":' + (b"null" if raw is None else ("[" + ",".join(str(b) for b in raw) + "]").encode())
    j = j + b"}"
    dg = scn.env.intern_digest("sha256", j)
    hx = SBytes.of(dg.raw.hex().encode()) if dg.raw is not None else SBytes((sb.Atom("hex", dg),))
    return SBytes(b"\n") + hx + b"\t" + j


def lib_writes(ctx, key, algo, meta_i, raw, then, api):
    scn = ctx.new_scn(api=api)
    I = scn.s.I
    D = scn.blob("D")
    data = scn.whole(D)
    a = algo or "Sha256"
    tag = "C17:%s:lib-writes:%s:%s" % (api, a, then)
    T1 = scn.sym("time1", 128)
    meta = METAS[meta_i]
    opts = {"time": T1}
    if algo:
        opts["algorithm"] = algo
    if meta is not None:
        opts["metadata"] = JsonValue(meta)
    if raw:
        opts["raw_metadata"] = SBytes.of(bytes(raw))
    r = scn.open(key, opts)
    if not expect_ok(ctx, r, tag + ":open", "open"):
        return
    if not expect_ok(ctx, scn.hwrite_all(r.handle, data), tag + ":write", "write"):
        return
    r = scn.commit(r.handle)
    if not expect_ok(ctx, r, tag + ":commit", "commit"):
        return
    sri = r.value
    # expected files
    dg = scn.env.intern_digest(a.lower(), data)
    hexs = SBytes.of(dg.raw.hex().encode()) if dg.raw is not None else SBytes((sb.Atom("hex", dg),))
    b64 = sri.hashes[0].text
    want_cpath = SBytes.of(CACHE + "/content-v2/" + a.lower() + "/") + sb.slice_(hexs, 0, 2, ctx.w) + b"/" + sb.slice_(hexs, 2, 4, ctx.w) + b"/" + \
        sb.slice_(hexs, 4, hexs.length(), ctx.w)
    f = scn.file_at(want_cpath)
    ctx.expect(f is not None and f.kind == "file", tag + ":content-path", "no content file at content-v2/<algorithm>/<hex 2>/<hex 2>/<rest>",
               native=lambda cz: {"kind": "tree_file", "path": cz.bytes_of(want_cpath).decode()[len(ROOT) + 1:], "type": "file"})
    if f is not None and f.kind == "file":
        ctx.expect(sb.content_eq(f.sb, data, ctx.w), tag + ":content-bytes", "the content file does not hold the raw data", native={"kind": "tree_content_valid"})
    want_bpath = CACHE + "/" + refmodel.bucket_rel(key)
    records = ref_record_sbytes(scn, key, SBytes.of(a.lower().encode() + b"-") + b64, T1, D.len, meta, raw)
    if then == "tombstone":
        if not expect_ok(ctx, scn.remove(key), tag + ":remove", "remove"):
            return
        now = scn.env.clock_terms[-1]
        records = records + ref_record_sbytes(scn, key, None, z3.ZeroExt(64, now), 0, None, None)
    elif then == "rewrite":
        T2 = scn.sym("time2", 128)
        r = scn.open(key, {"time": T2, "algorithm": a})
        if r.kind != "ok" or scn.hwrite_all(r.handle, data).kind != "ok" or scn.commit(r.handle).kind != "ok":
            return
        records = records + ref_record_sbytes(scn, key, SBytes.of(a.lower().encode() + b"-") + b64, T2, D.len, None, None)
    b = scn.file_at(SBytes.of(want_bpath))
    ctx.expect(b is not None and b.kind == "file", tag + ":bucket-path", "no bucket file at index-v5/<sha1(key) split 2/2/rest>",
               native={"kind": "tree_file", "path": want_bpath[len(ROOT) + 1:], "type": "file"})
    if b is not None and b.kind == "file":
        e = sb.content_eq(b.sb, records, ctx.w)

        def nat(cz):
            bb = cz.bytes_of(records)
            return {"kind": "tree_file", "path": want_bpath[len(ROOT) + 1:], "len": len(bb), "sha256": hashlib.sha256(bb).hexdigest()}
        ctx.expect(e, tag + ":bucket-bytes", "the bucket file differs from the reference writer's bytes", native=nat if then != "tombstone" else None)


def ref_writes(ctx, key, algo, meta_i, raw, api):
    """A cache produced by the reference implementation is read identically by the library."""
    scn = ctx.new_scn(api=api)
    a = algo or "Sha256"
    tag = "C17:%s:ref-writes:%s" % (api, a)
    data = ("payload of " + key).encode("utf-8")
    other = b"another payload"
    import base64
    recs = b""
    entries = {}
    for k, d, t, meta, rw in ((key, data, 1234567890123, METAS[meta_i], raw), ("second-key", other, (1 << 100) + 7, None, None)):
        if a == "Xxh3":
            return
        dg = hashlib.new(a.lower(), d).digest()
        integ = "%s-%s" % (a.lower(), base64.b64encode(dg).decode())
        scn.fs_write(CACHE + "/" + refmodel.content_rel(a.lower(), dg.hex()), d)
        entries[k] = dict(key=k, integrity=integ, time=t, size=len(d), metadata=meta, raw=rw, data=d)
    # bucket of `key`: an older record, a tombstone and the live record; second-key in its own bucket
    e = entries[key]
    bucket = refmodel.record_bytes(key, "sha1-deadbeef", 5, 1) + refmodel.record_bytes(key, None, 6, 0) + \
        refmodel.record_bytes(key, e["integrity"], e["time"], e["size"], e["metadata"], e["raw"])
    scn.fs_write(CACHE + "/" + refmodel.bucket_rel(key), bucket)
    e2 = entries["second-key"]
    scn.fs_write(CACHE + "/" + refmodel.bucket_rel("second-key"), refmodel.record_bytes("second-key", e2["integrity"], e2["time"], e2["size"]))
    scn.fs_write(CACHE + "/" + refmodel.bucket_rel("gone"), refmodel.record_bytes("gone", "sha1-deadbeef", 1, 1) + refmodel.record_bytes("gone", None, 2, 0))
    apis = ["sync"] if scn.flavour == "sync" else ["sync", "async"]
    for la in apis:
        for k, ent in entries.items():
            out = scn.metadata(k, api=la)
            step = last(scn)
            want = {"key": k, "integrity": ent["integrity"], "time": str(ent["time"]), "size": ent["size"], "metadata": ent["metadata"],
                    "raw_metadata": bytes(ent["raw"]).hex() if ent["raw"] else None}
            if not expect_ok(ctx, out, tag + ":lookup", "lookup of a reference-written entry"):
                return
            from ..replay import render_meta
            from ..scn import Concretiser
            got = out.value
            ok = got.vname == "Some"
            if ok:
                cz = Concretiser(scn, ctx.w.model())
                ok = render_meta(got.fields[0], cz) == want
            ctx.expect(ok, tag + ":entry-%s" % la, "the library reads a reference-written entry differently (%s API)" % la,
                       native={"kind": "value_is", "step": step, "value": {"meta": want}})
            expect_bytes(ctx, scn.read(k, api=la), ent["data"], tag + ":data-%s" % la, "reading reference-written data (%s API)" % la)
        out = scn.metadata("gone", api=la)
        if expect_ok(ctx, out, tag + ":gone", "lookup of a key the reference removed"):
            ctx.expect(out.value.vname == "None", tag + ":tombstone-%s" % la, "a reference-written tombstone is not honoured",
                       native={"kind": "value_is", "step": last(scn), "value": {"meta": None}})
    out = scn.list()
    step = last(scn)
    if expect_ok(ctx, out, tag + ":list", "listing a reference-written cache"):
        keys = sorted(x.fields[0].fields[0].sb.concrete().decode("utf-8") for x in out.value.items if x.vname == "Ok")
        ctx.expect(keys == sorted(entries), tag + ":list-keys", "listing of a reference-written cache yields %r" % (keys,), native=None)


def tasks(tier, flavours):
    out = []
    for fl in flavours:
        api = "sync" if fl == "sync" else "async"
        algos = [None, "Sha1", "Sha512", "Sha384", "Xxh3"]
        for i, key in enumerate(KEYS):
            for then in ("none", "tombstone", "rewrite"):
                if tier == "quick" and fl != "sync" and then != "none" and i > 1:
                    continue
                out.append(dict(module="C17", family="lib_writes", flavour=fl,
                                params=dict(key=key, algo=algos[i % 5], meta_i=i % 3, raw=[0, 255, 10] if i % 2 else None, then=then, api=api)))
            out.append(dict(module="C17", family="ref_writes", flavour=fl, params=dict(key=key, algo=algos[i % 4], meta_i=i % 3, raw=[1, 2, 3] if i % 2 else None, api=api)))
    return out
