"""Symbolic byte strings.

An SBytes is an immutable sequence of segments:
  bytes                      concrete bytes
  BlobSeg(blob, a, b)        the bytes [a, b) of an opaque blob (a, b: int or BV64)
  Fill(byte, n)              n copies of one byte (n: int or BV64)
  SymByte(bv8)               one symbolic byte
  Atom(kind, payload, a, b)  text of fixed charset that cacache never looks into:
       'hex'  hex digits of Digest payload, chars [a, b) of total 2*len(digest)
       'b64'  base64 of Digest payload
       'dec'  decimal digits of an integer term (payload = (term, width))
       'json' serde_json text of an opaque JSON value (payload = id)
       'rawmeta' serde_json text "[1,2,..]" of an opaque byte vector (payload = id)
  Junk(id, n)                stale / uninitialised buffer bytes
All text atoms are axiomatised to contain no '\n', '\t', '\r' and to be valid UTF-8.
"""
import hashlib
import z3
from .values import is_sym, Inconclusive

W = 64


class Blob:
    _n = 0

    def __init__(self, name, length):
        self.name = name
        self.len = length

    def __repr__(self):
        return "Blob(%s)" % self.name


class BlobSeg:
    __slots__ = ("blob", "a", "b")

    def __init__(self, blob, a, b):
        self.blob, self.a, self.b = blob, a, b

    def __repr__(self):
        return "%s[%s:%s]" % (self.blob.name, _pp(self.a), _pp(self.b))


class Fill:
    __slots__ = ("byte", "n")

    def __init__(self, byte, n):
        self.byte, self.n = byte, n

    def __repr__(self):
        return "Fill(%d x %s)" % (self.byte, _pp(self.n))


class SymByte:
    __slots__ = ("bv",)

    def __init__(self, bvv):
        self.bv = bvv

    def __repr__(self):
        return "SymByte(%s)" % self.bv


class Junk:
    __slots__ = ("id", "n")

    def __init__(self, id_, n):
        self.id, self.n = id_, n

    def __repr__(self):
        return "Junk(%s)" % _pp(self.n)


class CutSeg:
    """data[lo:hi] of CONCRETE bytes with a symbolic upper bound (a torn write, a truncation).
    lo is a concrete int; hi is a BV64 term with lo <= hi <= len(data) in the path condition."""
    __slots__ = ("data", "lo", "hi")

    def __init__(self, data, lo, hi):
        self.data, self.lo, self.hi = data, lo, hi

    def __repr__(self):
        return "Cut(%r...[%d:%s])" % (self.data[:12], self.lo, _pp(self.hi))


def cut_cond(seg, pred):
    """z3 condition on seg.hi equivalent to pred(seg.data[seg.lo:hi]) -- built from a table over the
    (concrete) candidate lengths, merged into ranges."""
    n = len(seg.data)
    vals = [v for v in range(seg.lo, n + 1) if pred(seg.data[seg.lo:v])]
    if not vals:
        return False
    if len(vals) == n + 1 - seg.lo:
        return True
    ranges = []
    start = prev = vals[0]
    for v in vals[1:]:
        if v == prev + 1:
            prev = v
            continue
        ranges.append((start, prev))
        start = prev = v
    ranges.append((start, prev))
    hi = _bv(seg.hi)
    conds = []
    for a, b in ranges:
        if a == b:
            conds.append(hi == a)
        else:
            conds.append(z3.And(z3.UGE(hi, z3.BitVecVal(a, W)), z3.ULE(hi, z3.BitVecVal(b, W))))
    return z3.Or(*conds) if len(conds) > 1 else conds[0]


def resolve_cuts(sbv, ctx):
    """Replace every CutSeg whose bound is determined by the path condition with concrete bytes."""
    if not any(isinstance(s, CutSeg) for s in sbv.segs):
        return sbv
    out = []
    for s in sbv.segs:
        if isinstance(s, CutSeg) and ctx is not None:
            m = ctx.model()
            if m is not None:
                v = m.eval(_bv(s.hi), model_completion=True).as_long()
                if ctx.known(_bv(s.hi) == v):
                    out.append(s.data[s.lo:v])
                    continue
        out.append(s)
    return SBytes(out)


def resolve_symbytes(sbv, ctx):
    """Replace symbolic bytes whose value the path condition determines by that value."""
    if ctx is None or not any(isinstance(s, SymByte) for s in sbv.segs):
        return sbv
    m = ctx.model()
    if m is None:
        return sbv
    out = []
    for s in sbv.segs:
        if isinstance(s, SymByte):
            v = m.eval(s.bv, model_completion=True).as_long()
            if ctx.known(s.bv == v):
                out.append(bytes([v]))
                continue
        out.append(s)
    return SBytes(out)


class Atom:
    __slots__ = ("kind", "payload", "a", "b")

    def __init__(self, kind, payload, a=None, b=None):
        self.kind, self.payload, self.a, self.b = kind, payload, a, b

    def total(self):
        if self.kind == "hex":
            return 2 * self.payload.nbytes()
        if self.kind == "b64":
            return 4 * ((self.payload.nbytes() + 2) // 3)
        if self.kind == "rawdigest":
            return self.payload.nbytes()
        return None

    def key(self):
        if self.kind == "dec":
            return (self.kind, self.payload[0].get_id() if is_sym(self.payload[0]) else self.payload[0], self.payload[1], self.a, self.b)
        return (self.kind, id(self.payload) if not isinstance(self.payload, (int, str, tuple)) else self.payload, self.a, self.b)

    def __repr__(self):
        return "Atom(%s,%r,%s,%s)" % (self.kind, self.payload, self.a, self.b)


def _pp(x):
    return str(x)


DIGEST_LEN = {"sha512": 64, "sha384": 48, "sha256": 32, "sha1": 20, "xxh3": 16}


RAW_CONTENT = {}    # (algo, raw digest) -> concrete content known to hash to it


class Digest:
    """Digest of an SBytes under an algorithm.  Concrete when the content is."""

    def __init__(self, algo, content=None, raw=None):
        self.algo = algo
        self.content = content
        self.raw = raw
        if raw is None and content is not None and content.is_concrete() and algo in ("sha512", "sha384", "sha256", "sha1"):
            self.raw = hashlib.new(algo, content.concrete()).digest()
            RAW_CONTENT[(algo, self.raw)] = content

    def nbytes(self):
        if self.raw is not None:
            return len(self.raw)
        return DIGEST_LEN[self.algo]

    def __repr__(self):
        if self.raw is not None:
            return "Digest(%s,%s)" % (self.algo, self.raw.hex()[:12])
        return "Digest(%s,%r)" % (self.algo, self.content)


class SBytes:
    __slots__ = ("segs",)

    def __init__(self, segs=()):
        if isinstance(segs, (bytes, bytearray, str)):
            segs = (segs,)
        self.segs = tuple(_normalise(segs))

    # -- constructors
    @staticmethod
    def of(x):
        if isinstance(x, SBytes):
            return x
        if isinstance(x, (bytes, bytearray)):
            return SBytes((bytes(x),))
        if isinstance(x, str):
            return SBytes((x.encode("utf-8"),))
        if isinstance(x, (list, tuple)):
            return SBytes(x)
        return SBytes((x,))

    @staticmethod
    def blob(blob):
        return SBytes((BlobSeg(blob, 0, blob.len),))

    def is_concrete(self):
        return all(isinstance(s, bytes) for s in self.segs)

    def concrete(self):
        assert self.is_concrete()
        return b"".join(self.segs)

    def __add__(self, other):
        return SBytes(self.segs + SBytes.of(other).segs)

    def __repr__(self):
        if self.is_concrete():
            return "S%r" % (self.concrete(),)
        return "S[%s]" % ", ".join(repr(s) for s in self.segs)

    def length(self):
        tot = 0
        sym = None
        for s in self.segs:
            ln = seg_len(s)
            if is_sym(ln):
                sym = ln if sym is None else sym + ln
            else:
                tot += ln
        if sym is None:
            return tot
        return z3.simplify(sym + z3.BitVecVal(tot, W)) if tot else z3.simplify(sym)

    def key(self):
        """Structural identity key (hashable) -- equal keys imply equal bytes."""
        out = []
        for s in self.segs:
            out.append(seg_key(s))
        return tuple(out)

    def has_kind(self, cls):
        return any(isinstance(s, cls) for s in self.segs)


_declen = z3.Function("declen", z3.BitVecSort(128), z3.BitVecSort(W))
_opaque_len = z3.Function("atomlen", z3.IntSort(), z3.BitVecSort(W))
CURRENT_WORLD = [None]
_digits_cache = {}


def _digits(term, width):
    """Number of decimal digits of an unsigned term, as a BV64 expression (exact: a chain of comparisons)."""
    # a zero-extended narrower value has the narrower value's digits
    while z3.is_app_of(term, z3.Z3_OP_ZERO_EXT):
        term = term.arg(0)
        width = term.size()
    w = CURRENT_WORLD[0]
    if w is not None and z3.is_const(term):
        rng = w.var_ranges.get(str(term))
        if rng is not None and len(str(rng[0])) == len(str(rng[1])):
            return len(str(rng[0]))
    if width > 64:
        # full-range 128-bit values (caller-supplied timestamps): the exact comparison chain is too heavy for
        # the solver; their digit count is left abstract (bounded), which is sound for every use that does
        # not pin the value -- and pinned values are printed as concrete digits by canon() on both sides
        return _axiom_len(_declen(term if width == 128 else z3.ZeroExt(128 - width, term)), 1, 39)
    k = (term.get_id(), width)
    hit = _digits_cache.get(k)
    if hit is not None and hit[0].eq(term):
        return hit[1]
    maxd = len(str((1 << width) - 1))
    e = z3.BitVecVal(maxd, W)
    for d in range(maxd - 1, 0, -1):
        e = z3.If(z3.ULT(term, z3.BitVecVal(10 ** d, width)), z3.BitVecVal(d, W), e)
    _digits_cache[k] = (term, e)
    if len(_digits_cache) > 5000:
        _digits_cache.clear()
    return e


def _axiom_len(term, lo, hi):
    """Length axioms of variable-length text atoms are added to the current path condition once."""
    w = CURRENT_WORLD[0]
    if w is None:
        return term
    k = term.get_id()
    if k not in w.len_axioms:
        w.len_axioms[k] = term      # keep the term alive: z3 reuses AST ids of collected terms
        w.assume(z3.And(z3.UGE(term, z3.BitVecVal(lo, W)), z3.ULE(term, z3.BitVecVal(hi, W))))
    return term


def seg_len(s):
    if isinstance(s, bytes):
        return len(s)
    if isinstance(s, BlobSeg):
        if not is_sym(s.a) and not is_sym(s.b):
            return s.b - s.a
        if not is_sym(s.a) and s.a == 0:
            return s.b
        return z3.simplify(_bv(s.b) - _bv(s.a))
    if isinstance(s, (Fill, Junk)):
        return s.n
    if isinstance(s, SymByte):
        return 1
    if isinstance(s, CutSeg):
        return z3.simplify(_bv(s.hi) - z3.BitVecVal(s.lo, W))
    if isinstance(s, Atom):
        if s.a is not None:
            return s.b - s.a
        t = s.total()
        if t is not None:
            return t
        if s.kind == "dec":
            term, width = s.payload
            if not is_sym(term):
                return len(str(term))
            return _digits(term, width)
        return _axiom_len(_opaque_len(z3.IntVal(_atom_id(s))), 0, 1 << 32)
    raise TypeError(s)


_atom_ids = {}


def _atom_id(s):
    k = s.key()
    if k not in _atom_ids:
        _atom_ids[k] = len(_atom_ids)
    return _atom_ids[k]


def _bv(x):
    return x if is_sym(x) else z3.BitVecVal(x, W)


def _tkey(x):
    return ("t", x.get_id()) if is_sym(x) else x


def seg_key(s):
    if isinstance(s, bytes):
        return s
    if isinstance(s, BlobSeg):
        return ("blob", id(s.blob), _tkey(s.a), _tkey(s.b))
    if isinstance(s, Fill):
        return ("fill", s.byte, _tkey(s.n))
    if isinstance(s, Junk):
        return ("junk", s.id, _tkey(s.n))
    if isinstance(s, SymByte):
        return ("symbyte", s.bv.get_id())
    if isinstance(s, CutSeg):
        return ("cut", s.data, s.lo, _tkey(s.hi))
    if isinstance(s, Atom):
        return ("atom",) + s.key()
    raise TypeError(s)


def _same_term(a, b):
    if is_sym(a) and is_sym(b):
        return a.eq(b) or z3.is_true(z3.simplify(a == b))
    if is_sym(a) or is_sym(b):
        return False
    return a == b


def _normalise(segs):
    out = []
    for s in segs:
        if isinstance(s, SBytes):
            inner = s.segs
        elif isinstance(s, str):
            inner = (s.encode("utf-8"),)
        elif isinstance(s, bytearray):
            inner = (bytes(s),)
        else:
            inner = (s,)
        for t in inner:
            if isinstance(t, bytes):
                if not t:
                    continue
                if out and isinstance(out[-1], bytes):
                    out[-1] = out[-1] + t
                    continue
            elif isinstance(t, BlobSeg):
                if _same_term(t.a, t.b):
                    continue
                if out and isinstance(out[-1], BlobSeg) and out[-1].blob is t.blob and _same_term(out[-1].b, t.a):
                    out[-1] = BlobSeg(t.blob, out[-1].a, t.b)
                    continue
            elif isinstance(t, (Fill, Junk)):
                if not is_sym(t.n) and t.n == 0:
                    continue
                if isinstance(t, Fill) and out and isinstance(out[-1], Fill) and out[-1].byte == t.byte:
                    a, b = out[-1].n, t.n
                    out[-1] = Fill(t.byte, a + b if not (is_sym(a) or is_sym(b)) else z3.simplify(_bv(a) + _bv(b)))
                    continue
            elif isinstance(t, Atom):
                if t.a is not None and t.a == t.b:
                    continue
                if out and isinstance(out[-1], Atom) and out[-1].kind == t.kind and out[-1].payload is t.payload \
                        and t.a is not None and out[-1].b == t.a:
                    a0 = out[-1].a
                    if a0 == 0 and t.b == t.total():
                        out[-1] = Atom(t.kind, t.payload)
                    else:
                        out[-1] = Atom(t.kind, t.payload, a0, t.b)
                    continue
            out.append(t)
    return out


# ---------------------------------------------------------------------------
# operations that may need the path context (ctx): ctx.known(cond) -> bool (pc entails cond)
#                                                   ctx.branch(cond, label) -> bool (forks)

def to_concrete_atom(s):
    """Concrete text of an atom when its payload is concrete, else None."""
    if s.kind in ("hex", "b64"):
        d = s.payload
        if d.raw is None:
            return None
        import base64
        txt = d.raw.hex().encode() if s.kind == "hex" else base64.b64encode(d.raw)
        return txt if s.a is None else txt[s.a:s.b]
    if s.kind == "dec":
        term, _ = s.payload
        if is_sym(term):
            return None
        return str(term).encode()
    return None


def concretise_atoms(sb):
    segs = []
    for s in sb.segs:
        if isinstance(s, Atom):
            c = to_concrete_atom(s)
            segs.append(c if c is not None else s)
        else:
            segs.append(s)
    return SBytes(segs)


def slice_(sb, a, b, ctx):
    """sb[a:b]; caller guarantees 0 <= a <= b <= len (checked by caller where Rust checks)."""
    # fast path: one homogeneous segment -- the slice is a sub-segment, no case analysis needed
    if len(sb.segs) == 1 and isinstance(sb.segs[0], (BlobSeg, Fill, Junk)):
        s0 = sb.segs[0]
        if _same_term(a, b):
            return SBytes()
        return SBytes((_subseg(s0, a, b, seg_len(s0)),))
    if len(sb.segs) == 0:
        return SBytes()
    out = []
    pos = 0  # int or BV
    segs = list(sb.segs)
    started = False
    done = False
    for s in segs:
        if done:
            break
        ln = seg_len(s)
        end = _add(pos, ln)
        # relation of a, b to [pos, end)
        # portion of this segment inside [a,b): [max(a,pos)-pos, min(b,end)-pos)
        if _le(ctx, end, a) and not (_same_term(pos, end) and False):
            # entirely before the slice (end <= a)
            pos = end
            continue
        if _le(ctx, b, pos):
            done = True
            break
        lo = 0 if _le(ctx, a, pos) else _sub(a, pos)
        hi = ln if _le(ctx, end, b) else _sub(b, pos)
        out.append(_subseg(s, lo, hi, ln))
        pos = end
    return SBytes(out)


def _add(a, b):
    if is_sym(a) or is_sym(b):
        return z3.simplify(_bv(a) + _bv(b))
    return a + b


def _sub(a, b):
    if is_sym(a) or is_sym(b):
        return z3.simplify(_bv(a) - _bv(b))
    return a - b


def _le(ctx, a, b):
    """Decide a <= b (unsigned), forking through ctx when undetermined."""
    if not is_sym(a) and not is_sym(b):
        return a <= b
    if _same_term(a, b):
        return True
    return ctx.branch(z3.ULE(_bv(a), _bv(b)), "slice-bound")


def _subseg(s, lo, hi, ln):
    if _same_term(lo, 0) and _same_term(hi, ln):
        return s
    if isinstance(s, bytes):
        if is_sym(lo):
            # symbolic START inside concrete bytes: content-dependent uses will be inconclusive
            return Junk(("cut", s, _tkey(lo), _tkey(hi)), _sub(hi, lo))
        if is_sym(hi):
            return CutSeg(s, lo, hi)
        return s[lo:hi]
    if isinstance(s, CutSeg):
        if is_sym(lo):
            return Junk(("cut2", s.data, _tkey(lo), _tkey(hi)), _sub(hi, lo))
        return CutSeg(s.data, s.lo + lo, _add(s.lo, hi) if not _same_term(hi, ln) else s.hi)
    if isinstance(s, BlobSeg):
        return BlobSeg(s.blob, _add(s.a, lo), _add(s.a, hi))
    if isinstance(s, Fill):
        return Fill(s.byte, _sub(hi, lo))
    if isinstance(s, Junk):
        return Junk(("sub", s.id, _tkey(lo), _tkey(hi)), _sub(hi, lo))
    if isinstance(s, SymByte):
        return s
    if isinstance(s, Atom):
        if is_sym(lo) or is_sym(hi):
            # a symbolic cut through opaque text: the remainder is opaque bytes of that length
            return Junk(("atomcut", s.key(), _tkey(lo), _tkey(hi)), _sub(hi, lo))
        c = to_concrete_atom(s)
        if c is not None:
            return c[lo:hi]
        if s.total() is None:
            raise Inconclusive("slice through variable-length atom %r" % (s,))
        base = s.a or 0
        return Atom(s.kind, s.payload, base + lo, base + hi)
    raise TypeError(s)


def digest_eq(d1, d2, ctx):
    """Ideal-hash equality of two digests: bool or z3 Bool."""
    if d1.algo != d2.algo:
        return False
    if d1.raw is not None and d2.raw is not None:
        return d1.raw == d2.raw
    if d1.raw is not None or d2.raw is not None:
        # one concrete, one symbolic content: equal iff contents equal
        c1 = d1.content
        c2 = d2.content
        if c1 is None or c2 is None:
            # a raw digest that was never computed from content: an arbitrary constant.
            # Ideal hash: data not produced to match it does not match it.
            return False
        return content_eq(c1, c2, ctx)
    return content_eq(d1.content, d2.content, ctx)


_same_vars = {}
EQ_PAIRS = {}      # name of an abstract equality variable -> (var, left, right)
SHARED_PREFIX = {}  # frozenset({blob name, blob name}) -> number of leading hex digits their digests share (scenario choice)


def _whole_blob_name(d):
    c = d.content
    if d.raw is None and c is not None and len(c.segs) == 1 and isinstance(c.segs[0], BlobSeg):
        s_ = c.segs[0]
        if (not is_sym(s_.a)) and s_.a == 0 and _same_term(s_.b, s_.blob.len):
            return s_.blob.name
    return None


def shares_prefix(a, b):
    """Two hex slices of digests (same algorithm, same slice) of blobs the scenario declared to fall into the
    same shard directory."""
    if not SHARED_PREFIX or a.kind != "hex" or b.kind != "hex" or a.a is None or (a.a, a.b) != (b.a, b.b):
        return False
    if a.payload.algo != b.payload.algo:
        return False
    n1, n2 = _whole_blob_name(a.payload), _whole_blob_name(b.payload)
    if n1 is None or n2 is None or n1 == n2:
        return False
    n = SHARED_PREFIX.get(frozenset((n1, n2)))
    return n is not None and a.b <= n


def same_blob_var(b1, b2):
    k = tuple(sorted((id(b1), id(b2))))
    if k not in _same_vars:
        n1, n2 = sorted((b1.name, b2.name))
        _same_vars[k] = z3.Bool("same(%s,%s)" % (n1, n2))
    return _same_vars[k]


def canon(c, ctx):
    """Normalise using facts the path condition entails: drop provably empty segments and merge
    blob slices that are provably adjacent."""
    if ctx is None or not any(isinstance(s, (BlobSeg, Fill)) or (isinstance(s, Atom) and s.kind == "dec") for s in c.segs):
        return c
    out = []
    for s in c.segs:
        if isinstance(s, Atom) and s.kind == "dec" and is_sym(s.payload[0]):
            # a decimal atom whose value the path condition pins down is just digits
            m = ctx.model()
            if m is not None:
                v = m.eval(s.payload[0], model_completion=True).as_long()
                if ctx.known(s.payload[0] == v):
                    out.append(str(v).encode())
                    continue
        if isinstance(s, BlobSeg):
            if not _same_term(s.a, s.b) and (is_sym(s.a) or is_sym(s.b)) and ctx.known(_bv(s.a) == _bv(s.b)):
                continue
            if out and isinstance(out[-1], BlobSeg) and out[-1].blob is s.blob and \
                    (is_sym(out[-1].b) or is_sym(s.a)) and ctx.known(_bv(out[-1].b) == _bv(s.a)):
                out[-1] = BlobSeg(s.blob, out[-1].a, s.b)
                continue
        elif isinstance(s, Fill) and is_sym(s.n) and ctx.known(s.n == 0):
            continue
        out.append(s)
    # normalise bounds that provably coincide with the blob's own bounds
    for i, s in enumerate(out):
        if isinstance(s, BlobSeg):
            a, b = s.a, s.b
            if is_sym(a) and ctx.known(_bv(a) == 0):
                a = 0
            if not _same_term(b, s.blob.len) and (is_sym(b) or is_sym(s.blob.len)) and ctx.known(_bv(b) == _bv(s.blob.len)):
                b = s.blob.len
            if a is not s.a or b is not s.b:
                out[i] = BlobSeg(s.blob, a, b)
    return SBytes(out)


def content_eq(c1, c2, ctx):
    """Equality of two byte strings: bool or z3 Bool (symbolic)."""
    c1 = concretise_atoms(c1)
    c2 = concretise_atoms(c2)
    if c1.key() == c2.key():
        return True
    c1, c2 = canon(c1, ctx), canon(c2, ctx)
    if c1.key() == c2.key():
        return True
    r = _content_eq_inner(c1, c2, ctx)
    if r is True or r is False:
        return r
    # equal byte strings have equal lengths
    l1, l2 = c1.length(), c2.length()
    if is_sym(l1) or is_sym(l2):
        return z3.And(_bv(l1) == _bv(l2), r)
    return r


def _content_eq_inner(c1, c2, ctx):
    if c1.is_concrete() and c2.is_concrete():
        return c1.concrete() == c2.concrete()
    l1, l2 = c1.length(), c2.length()
    if not is_sym(l1) and not is_sym(l2) and l1 != l2:
        return False
    if not c1.segs:
        return _bv(l2) == 0
    if not c2.segs:
        return _bv(l1) == 0
    # whole-blob versus whole-blob
    if len(c1.segs) == 1 and len(c2.segs) == 1 and isinstance(c1.segs[0], BlobSeg) and isinstance(c2.segs[0], BlobSeg):
        s1, s2 = c1.segs[0], c2.segs[0]
        if _whole(s1) and _whole(s2):
            return same_blob_var(s1.blob, s2.blob)
    # segment-wise comparison when both sides have the same segmentation kinds
    if len(c1.segs) == len(c2.segs):
        conds = []
        ok = True
        for a, b in zip(c1.segs, c2.segs):
            if seg_key(a) == seg_key(b):
                continue
            if isinstance(a, BlobSeg) and isinstance(b, BlobSeg) and a.blob is b.blob:
                # same blob: equal when the bounds coincide (for arbitrary data this is also necessary)
                conds.append(z3.And(_bv(a.a) == _bv(b.a), _bv(a.b) == _bv(b.b)))
                continue
            if isinstance(a, Fill) and isinstance(b, Fill) and a.byte == b.byte:
                conds.append(_bv(a.n) == _bv(b.n))
                continue
            if isinstance(a, SymByte) and isinstance(b, bytes) and len(b) == 1:
                conds.append(a.bv == b[0])
            elif isinstance(b, SymByte) and isinstance(a, bytes) and len(a) == 1:
                conds.append(b.bv == a[0])
            elif isinstance(a, SymByte) and isinstance(b, SymByte):
                conds.append(a.bv == b.bv)
            elif isinstance(a, Atom) and isinstance(b, Atom) and a.kind == b.kind and a.kind in ("hex", "b64") \
                    and (a.a, a.b) == (b.a, b.b):
                if shares_prefix(a, b):
                    continue
                e = digest_eq(a.payload, b.payload, ctx)
                if e is False:
                    return False
                if e is not True:
                    conds.append(e)
            elif isinstance(a, Atom) and isinstance(b, Atom) and a.kind == b.kind == "dec":
                ta, wa = a.payload
                tb, wb = b.payload
                w = max(wa, wb)
                conds.append(_zext(ta, wa, w) == _zext(tb, wb, w))
            else:
                ok = False
                break
        if ok:
            if not conds:
                return True
            return z3.And(*conds) if len(conds) > 1 else conds[0]
    # aligned common prefix: a definite difference in it settles the question
    for a, b in zip(c1.segs, c2.segs):
        if seg_key(a) == seg_key(b):
            continue
        if isinstance(a, bytes) and isinstance(b, bytes):
            n = min(len(a), len(b))
            if a[:n] != b[:n]:
                return False
            break
        if isinstance(a, Atom) and isinstance(b, Atom) and a.kind == b.kind and a.kind in ("hex", "b64") and (a.a, a.b) == (b.a, b.b):
            if shares_prefix(a, b):
                continue
            e = digest_eq(a.payload, b.payload, ctx)
            if e is False:
                return False
            if e is True:
                continue
            if ctx is not None and ctx.known(z3.Not(e)):
                return False
        break
    # a symbolic cut of concrete bytes against concrete bytes (single segments)
    for x, y in ((c1, c2), (c2, c1)):
        if len(x.segs) == 1 and isinstance(x.segs[0], CutSeg) and y.is_concrete():
            want = y.concrete()
            return cut_cond(x.segs[0], lambda b: b == want)
    if all(isinstance(t, (bytes, CutSeg)) for t in c1.segs + c2.segs) and (c1.has_kind(CutSeg) or c2.has_kind(CutSeg)):
        r = _cut_general_eq(c1, c2)
        if r is not None:
            return r
    # raw digest of symbolic content versus concrete raw bytes: the same question as for their hex texts
    for x, y in ((c1, c2), (c2, c1)):
        if len(y.segs) == 1 and isinstance(y.segs[0], Atom) and y.segs[0].kind == "rawdigest":
            hx = SBytes((Atom("hex", y.segs[0].payload),))
            if x.is_concrete():
                return content_eq(SBytes.of(x.concrete().hex().encode()), hx, ctx)
            if len(x.segs) == 1 and isinstance(x.segs[0], Atom) and x.segs[0].kind == "rawdigest":
                return digest_eq(x.segs[0].payload, y.segs[0].payload, ctx)
    # concrete digest text versus the digest atom of symbolic content (ideal hash)
    for x, y in ((c1, c2), (c2, c1)):
        if len(y.segs) == 1 and isinstance(y.segs[0], Atom) and y.segs[0].kind in ("hex", "b64") \
                and y.segs[0].payload.raw is None and all(isinstance(t, (bytes, SymByte, CutSeg)) for t in x.segs):
            return _text_vs_digest_atom(x, y.segs[0], ctx)
    # expand bytes vs symbytes of differing segmentation
    e = _bytewise_eq(c1, c2)
    if e is not None:
        return e
    # otherwise unknown: a fresh uninterpreted Boolean (never claims either way)
    ks = sorted([repr(c1.key()), repr(c2.key())])
    k = ("eq", ks[0], ks[1])
    if k not in _same_vars:
        _same_vars[k] = z3.Bool("eq_%d" % len(_same_vars))
        EQ_PAIRS[str(_same_vars[k])] = (_same_vars[k], c1, c2)
    return _same_vars[k]


def _text_vs_digest_atom(text, atom, ctx):
    """text (concrete / symbolic bytes) == hex|b64(H(X)) for symbolic X.  Under the ideal-hash
    assumption this can only hold when the text is the encoding of H(Y) for a content Y that was
    actually hashed (known) and X == Y."""
    import base64
    d = atom.payload
    conds = []
    for (algo, raw), content in list(RAW_CONTENT.items()):
        if algo != d.algo:
            continue
        enc = raw.hex().encode() if atom.kind == "hex" else base64.b64encode(raw)
        if atom.a is not None:
            enc = enc[atom.a:atom.b]
        te = _bytewise_eq(text, SBytes.of(enc))
        if te is None and text.has_kind(CutSeg):
            te = _cut_general_eq(text, SBytes.of(enc))
        if te is False or te is None:
            continue
        ce = content_eq(d.content, content, ctx)
        if ce is False:
            continue
        both = ce if te is True else (te if ce is True else z3.And(te, ce))
        if both is True:
            return True
        conds.append(both)
    if not conds:
        return False
    return z3.Or(*conds) if len(conds) > 1 else conds[0]


def _cut_general_eq(c1, c2):
    """bytes/Cut sequences where at most one side ends in a Cut and the other is concrete, or both
    are prefix cuts of concrete data: compare through the single symbolic bound."""
    def shape(c):
        pre = b""
        for i, t in enumerate(c.segs):
            if isinstance(t, bytes):
                pre += t
            else:
                if i != len(c.segs) - 1:
                    return None
                return pre, t
        return pre, None
    s1, s2 = shape(c1), shape(c2)
    if s1 is None or s2 is None:
        return None
    (p1, k1), (p2, k2) = s1, s2
    if k1 is not None and k2 is None:
        if not p2.startswith(p1):
            return False
        rest = p2[len(p1):]
        return cut_cond(k1, lambda b: b == rest)
    if k2 is not None and k1 is None:
        if not p1.startswith(p2):
            return False
        rest = p1[len(p2):]
        return cut_cond(k2, lambda b: b == rest)
    return None


def _zext(t, w, to):
    t = t if is_sym(t) else z3.BitVecVal(t, w)
    return z3.ZeroExt(to - w, t) if to > w else t


def _whole(s):
    return _same_term(s.a, 0) and _same_term(s.b, s.blob.len)


def _flat_bytes(c):
    out = []
    for s in c.segs:
        if isinstance(s, bytes):
            out.extend(s)
        elif isinstance(s, SymByte):
            out.append(s.bv)
        else:
            return None
    return out


def _bytewise_eq(c1, c2):
    f1, f2 = _flat_bytes(c1), _flat_bytes(c2)
    if f1 is None or f2 is None:
        return None
    if len(f1) != len(f2):
        return False
    conds = []
    for a, b in zip(f1, f2):
        if is_sym(a) or is_sym(b):
            conds.append(_bv8(a) == _bv8(b))
        elif a != b:
            return False
    if not conds:
        return True
    return z3.And(*conds) if len(conds) > 1 else conds[0]


def _bv8(x):
    return x if is_sym(x) else z3.BitVecVal(x, 8)
