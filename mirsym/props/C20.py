"""C20 -- no public call panics, aborts or hangs; every failure is a returned error."""
import z3
from .common import *
from ..models.serde import JsonValue
from .. import refmodel
from .C05 import bucket_path_of

BOUNDS = {"programs": "every public operation on (a) healthy caches with symbolic data, declared sizes of any value, 1..3 chunks, zero-length data; "
                      "(b) hostile on-disk states: index records with a VALID checksum but empty / unparsable / non-base64 / truncated integrity strings, "
                      "wrong field types, missing fields, extra fields; empty, NUL-filled and newline-only buckets; files where directories are expected and "
                      "directories where files are expected; dangling and looping symlinks",
          "integrity_arguments": "well-formed (as the property assumes)",
          "destinations": "extraction to the empty path, '/', '.', '..', an existing directory (incl. the cache's own), a path below a missing directory "
                          "(trailing slashes and relative file names are not modelled)",
          "open_writers": "the cache is cleared / tmp removed / directories replaced by files between a writer's first chunk and its commit",
          "outside": "out-of-memory; data larger than the address space"}

RECORD_VARIANTS = {
    "empty-integrity": lambda k: refmodel.record_bytes(k, "", 5, 1),
    "unknown-algo": lambda k: refmodel.record_bytes(k, "sha7-abcd", 5, 1),
    "bad-base64": lambda k: refmodel.record_bytes(k, "sha256-!!!not base64!!!", 5, 1),
    "bad-base64-tight": lambda k: refmodel.record_bytes(k, "sha256-!!!!", 5, 1),
    "no-dash": lambda k: refmodel.record_bytes(k, "sha256", 5, 1),
    "short-digest": lambda k: refmodel.record_bytes(k, "sha256-QQ==", 5, 1),
    "two-hashes-one-bad": lambda k: refmodel.record_bytes(k, "sha512-@@@@ sha256-LPJNul+wow4m6DsqxbninhsWHlwfp0JecwQzYpOLmCQ=", 5, 5),
    "whitespace-integrity": lambda k: refmodel.record_bytes(k, "   ", 5, 1),
    "huge-time": lambda k: (lambda j: b"\n" + __import__("hashlib").sha256(j).hexdigest().encode() + b"\t" + j)(
        ('{"key":%s,"integrity":"sha1-deadbeef","time":1e400,"size":1,"metadata":null,"raw_metadata":null}' % refmodel.json_text(k)).encode()),
    "negative-size": lambda k: (lambda j: b"\n" + __import__("hashlib").sha256(j).hexdigest().encode() + b"\t" + j)(
        ('{"key":%s,"integrity":"sha1-deadbeef","time":1,"size":-1,"metadata":null,"raw_metadata":null}' % refmodel.json_text(k)).encode()),
    "missing-fields": lambda k: (lambda j: b"\n" + __import__("hashlib").sha256(j).hexdigest().encode() + b"\t" + j)(
        ('{"key":%s}' % refmodel.json_text(k)).encode()),
    "key-not-string": lambda k: (lambda j: b"\n" + __import__("hashlib").sha256(j).hexdigest().encode() + b"\t" + j)(
        b'{"key":5,"integrity":"sha1-deadbeef","time":1,"size":1,"metadata":null,"raw_metadata":null}'),
    "json-array": lambda k: (lambda j: b"\n" + __import__("hashlib").sha256(j).hexdigest().encode() + b"\t" + j)(b'[1,2,3]'),
    "nul-bucket": lambda k: b"\0" * 64,
    "newlines-only": lambda k: b"\n\n\n\r\n",
    "tabs-only": lambda k: b"\n\t\t\t\n\t",
    "empty-bucket": lambda k: b"",
}

OPS = ["metadata", "read", "stream", "copy", "hard_link", "list", "remove", "remove_fully", "write", "exists-roundtrip"]


def all_ops(ctx, scn, tag, key, what):
    """Run every kind of operation; nothing may panic, abort or hang."""
    apis = ["sync"] if scn.flavour == "sync" else ["sync", "async"]
    for la in apis:
        for op in OPS:
            if op == "metadata":
                outs = [scn.metadata(key, api=la)]
                if outs[0].kind == "ok" and outs[0].value.vname == "Some":
                    sri = outs[0].value.fields[0].fields[1]
                    outs.append(scn.exists(sri, api=la))
                    outs.append(scn.read_hash(sri, api=la))
            elif op == "read":
                outs = [scn.read(key, api=la)]
            elif op == "stream":
                r = scn.ropen(key, api=la)
                outs = [r]
                if r.kind == "ok":
                    outs.append(scn.hread(r.handle, 64, api=la))
                    outs.append(scn.check(r.handle, api=la))
            elif op == "copy":
                outs = [scn.extract("copy", ROOT + "/out-" + la, key=key, api=la)]
            elif op == "hard_link":
                outs = [scn.extract("hard_link", ROOT + "/lnk-" + la, key=key, api=la)]
            elif op == "list":
                if la != "sync":
                    continue
                outs = [scn.list()]
            elif op == "remove":
                continue
            elif op == "remove_fully":
                continue
            elif op == "write":
                continue
            else:
                continue
            for o in outs:
                if not expect_no_panic(ctx, o, tag + ":" + op + "-" + la, "%s on %s" % (op, what)):
                    return False
    # mutating operations last
    for la in apis:
        for o in (scn.write(key, b"fresh", api=la), scn.read(key, api=la), scn.remove(key, api=la), scn.remove_fully(key, api=la)):
            if not expect_no_panic(ctx, o, tag + ":mutate-" + la, "write/read/remove on %s" % what):
                return False
    return True


def hostile_index(ctx, variant, with_honest, api):
    scn = ctx.new_scn(api=api)
    scn.env.short_read_budget = 0
    key = "victim"
    tag = "C20:%s:index:%s%s" % (api, variant, ":after-honest" if with_honest else "")
    if with_honest:
        if scn.write(key, b"hello").kind != "ok":
            return
    bp = bucket_path_of(scn, key)
    rec = RECORD_VARIANTS[variant](key)
    if with_honest:
        scn.fs_append(bp, rec)
    else:
        scn.fs_write(bp, rec)
    all_ops(ctx, scn, tag, key, "a bucket holding a checksum-valid but hostile record (%s)" % variant)


def hostile_layout(ctx, variant, api):
    scn = ctx.new_scn(api=api)
    scn.env.short_read_budget = 0
    key = "victim"
    tag = "C20:%s:layout:%s" % (api, variant)
    r = scn.write("seed", b"seed data")
    if r.kind != "ok":
        return
    sri = r.value
    if variant == "index-is-file":
        scn.fs_remove_dir_all(CACHE + "/index-v5")
        scn.fs_write(CACHE + "/index-v5", b"i am a file")
    elif variant == "content-is-file":
        scn.fs_remove_dir_all(CACHE + "/content-v2")
        scn.fs_write(CACHE + "/content-v2", b"i am a file")
    elif variant == "tmp-is-file":
        scn.fs_remove_dir_all(CACHE + "/tmp")
        scn.fs_write(CACHE + "/tmp", b"i am a file")
    elif variant == "bucket-is-dir":
        scn.fs_mkdir_p(bucket_path_of(scn, key))
    elif variant == "content-file-is-dir":
        cp = scn.content_path_of(sri)
        scn.fs_remove(cp)
        scn.fs_mkdir_p(cp)
        key = "seed"
    elif variant == "content-symlink-loop":
        cp = scn.content_path_of(sri)
        scn.fs_remove(cp)
        scn.fs_symlink(cp, cp)
        key = "seed"
    elif variant == "content-symlink-dangling":
        cp = scn.content_path_of(sri)
        scn.fs_remove(cp)
        scn.fs_symlink(ROOT + "/nowhere", cp)
        key = "seed"
    all_ops(ctx, scn, tag, key, "a cache directory with a hostile layout (%s)" % variant)


def sizes(ctx, keyed, nchunks, api):
    """Healthy cache, any data, ANY declared size, several chunks: totality of the write path."""
    scn = ctx.new_scn(api=api)
    D = scn.blob("D")
    S = scn.sym("declared", 64)
    tag = "C20:%s:sizes:%s:%dchunks" % (api, "keyed" if keyed else "hash", nchunks)
    # ... and ANY explicit timestamp (the option takes a u128) and arbitrary raw metadata
    opts = {"size": S, "time": scn.sym("time", 128), "raw_metadata": scn.whole(scn.blob("R", max_len=16))}
    r = scn.open("k", opts) if keyed else scn.open_hash(opts)
    if not expect_no_panic(ctx, r, tag + ":open", "opening a writer with an arbitrary declared size"):
        return
    if r.kind != "ok":
        return
    for c in chunks_of(scn, D, nchunks):
        o = scn.hwrite_all(r.handle, c)
        if not expect_no_panic(ctx, o, tag + ":write", "writing a chunk into a writer whose declared size is arbitrary"):
            return
        if o.kind != "ok":
            scn.hdrop(r.handle)
            return
    o = scn.commit(r.handle)
    expect_no_panic(ctx, o, tag + ":commit", "committing with an arbitrary declared size")


ODD_DESTS = ["", "/", ".", "..", ROOT, ROOT + "/missing-dir/file", ROOT + "/cache", ROOT + "/cache/index-v5"]


def odd_destinations(ctx, op, dest, api):
    """Extraction to destinations that are empty, the root, a directory, relative, or below a missing directory:
    an error is fine, a panic / abort / hang is not."""
    scn = ctx.new_scn(api=api)
    D = scn.blob("D", max_len=64)
    r = scn.write("k", scn.whole(D))
    if r.kind != "ok":
        return
    tag = "C20:%s:odd-dest:%s:%r" % (api, op, dest)
    by_hash = "_hash" in op
    out = scn.extract(op, dest, sri=r.value) if by_hash else scn.extract(op, dest, key="k")
    expect_no_panic(ctx, out, tag, "%s to the destination %r" % (op, dest))
    expect_no_panic(ctx, scn.read("k"), tag + ":read-after", "reading the entry afterwards")


def open_writer(ctx, change, keyed, declared, api):
    """The cache directory changes under an open writer (another process clears the cache, removes tmp/, or
    replaces directories): write, commit and drop must still terminate with a value or an error."""
    scn = ctx.new_scn(api=api)
    scn.env.short_read_budget = 0
    D = scn.blob("D")
    tag = "C20:%s:open-writer:%s:%s%s" % (api, change, "keyed" if keyed else "hash", ":declared" if declared else "")
    if scn.write("seed", b"seed data").kind != "ok":
        return
    opts = {"size": D.len} if declared else {}
    r = scn.open("k", opts) if keyed else scn.open_hash(opts)
    if not expect_no_panic(ctx, r, tag + ":open", "opening a writer"):
        return
    if r.kind != "ok":
        return
    chunks = chunks_of(scn, D, 2)
    o = scn.hwrite_all(r.handle, chunks[0])
    if not expect_no_panic(ctx, o, tag + ":write", "writing"):
        return
    if change == "clear":
        scn.clear()
    elif change == "tmp-removed":
        scn.fs_remove_dir_all(CACHE + "/tmp")
    elif change == "cache-removed":
        scn.fs_remove_dir_all(CACHE)
    elif change == "tmp-is-file":
        scn.fs_remove_dir_all(CACHE + "/tmp")
        scn.fs_write(CACHE + "/tmp", b"i am a file")
    elif change == "content-is-file":
        scn.fs_remove_dir_all(CACHE + "/content-v2")
        scn.fs_write(CACHE + "/content-v2", b"i am a file")
    elif change == "index-is-file":
        scn.fs_remove_dir_all(CACHE + "/index-v5")
        scn.fs_write(CACHE + "/index-v5", b"i am a file")
    what = "with the cache changed under the open writer (%s)" % change
    if o.kind == "ok":
        o2 = scn.hwrite_all(r.handle, chunks[1])
        if not expect_no_panic(ctx, o2, tag + ":write2", "writing " + what):
            return
    o3 = scn.commit(r.handle)
    if not expect_no_panic(ctx, o3, tag + ":commit", "commit " + what):
        return
    for name, out in (("read", scn.read("k")), ("metadata", scn.metadata("k")), ("list", scn.list())):
        if not expect_no_panic(ctx, out, tag + ":" + name, name + " afterwards"):
            return


def tasks(tier, flavours):
    out = []
    for fl in flavours:
        api = "sync" if fl == "sync" else "async"
        for v in RECORD_VARIANTS:
            for wh in (False, True):
                if tier == "quick" and fl != "sync" and wh:
                    continue
                out.append(dict(module="C20", family="hostile_index", flavour=fl, params=dict(variant=v, with_honest=wh, api=api)))
        for v in ("index-is-file", "content-is-file", "tmp-is-file", "bucket-is-dir", "content-file-is-dir", "content-symlink-loop", "content-symlink-dangling"):
            out.append(dict(module="C20", family="hostile_layout", flavour=fl, params=dict(variant=v, api=api)))
        for change in ("clear", "tmp-removed", "cache-removed", "tmp-is-file", "content-is-file", "index-is-file"):
            for keyed in (True, False):
                for declared in (False, True):
                    if tier == "quick" and ((fl != "sync" and (declared or not keyed)) or (declared and not keyed)):
                        continue
                    out.append(dict(module="C20", family="open_writer", flavour=fl, params=dict(change=change, keyed=keyed, declared=declared, api=api)))
        xops = ["copy", "copy_unchecked", "copy_hash", "hard_link", "reflink"] if api == "sync" else ["copy", "copy_unchecked", "hard_link"]
        for i, dest in enumerate(ODD_DESTS):
            for j, op in enumerate(xops):
                if tier == "quick" and (fl != "sync" and (i + j) % 3) :
                    continue
                out.append(dict(module="C20", family="odd_destinations", flavour=fl, params=dict(op=op, dest=dest, api=api)))
        for keyed in (True, False):
            for n in ((1, 2) if tier == "quick" else (1, 2, 3)):
                out.append(dict(module="C20", family="sizes", flavour=fl, params=dict(keyed=keyed, nchunks=n, api=api)))
    return out
