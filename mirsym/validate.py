"""Differential validation of the models: concrete scenarios are executed by the symbolic engine
(concrete mode) and natively by the replay runner; every observation must agree.  A disagreement is a
*model bug*: checks then exit 2 (inconclusive), never 1."""
import json
import random
import sys
import time
import traceback

from .world import World
from .scn import Scn, Concretiser, Unreplayable, ROOT, CACHE
from .replay import run_native, render_outcome, obs_equal
from .values import Inconclusive, PathInfeasible
from .sbytes import SBytes
from .models.serde import JsonValue

SANDBOX_REFLINK = False     # this sandbox's filesystem has no FICLONE (probed natively by validate())

KEYS = ["a", "b", "", "k\té\n\"\\", "../../x", "/abs", "A", "é", "é", "x" * 300, "nul\0key"]
ALGOS = ["Sha256", "Sha1", "Sha512", "Sha384"]
DATAS = [b"", b"x", b"hello world", b"\0\xff\n\t", bytes(range(256)) * 5]
METAS = [None, 1, "s\n\"é", [1, {"a": None, "b": [True, False]}], {"k": 18446744073709551615, "n": -5}, 1.5]


def rand_scenario(rng, scn, n_ops=6):
    """Drive scn with a random op sequence; all inputs concrete."""
    keys = rng.sample(KEYS, 2)
    sris = []
    api = scn.api

    def pick_key():
        return rng.choice(keys)

    for _ in range(n_ops):
        c = rng.randrange(16)
        if c == 0:
            r = scn.write(pick_key(), rng.choice(DATAS), algo=rng.choice([None] + ALGOS))
            if r.kind == "ok":
                sris.append(r.value)
        elif c == 1:
            r = scn.write_hash(rng.choice(DATAS[1:]), algo=rng.choice([None] + ALGOS))
            if r.kind == "ok":
                sris.append(r.value)
        elif c == 2:
            data = rng.choice(DATAS)
            opts = {}
            if rng.random() < 0.5:
                opts["algorithm"] = rng.choice(ALGOS)
            if rng.random() < 0.3 and len(data) > 0:
                opts["size"] = len(data)
            if rng.random() < 0.2:
                opts["size"] = len(data) + (2 << 20)
            if rng.random() < 0.4:
                opts["time"] = rng.choice([0, 1, 1234567, (1 << 64) + 5, (1 << 128) - 1])
            if rng.random() < 0.4:
                opts["metadata"] = JsonValue(rng.choice(METAS))
            if rng.random() < 0.3:
                opts["raw_metadata"] = SBytes.of(rng.choice([b"", b"\x00\x01\xff", b"raw"]))
            keyed = rng.random() < 0.7
            r = scn.open(pick_key(), opts) if keyed else scn.open_hash(opts)
            if r.kind == "ok":
                h = r.handle
                if len(data) > 1 and rng.random() < 0.4 and "size" not in opts:
                    k = rng.randrange(len(data))
                    scn.hwrite_all(h, data[:k])
                    scn.hwrite_all(h, data[k:])
                else:
                    scn.hwrite_all(h, data)
                if rng.random() < 0.15:
                    scn.hdrop(h)
                else:
                    r = scn.commit(h)
                    if r.kind == "ok":
                        sris.append(r.value)
        elif c == 3:
            scn.read(pick_key())
        elif c == 4 and sris:
            scn.read_hash(rng.choice(sris))
        elif c == 5:
            scn.metadata(pick_key())
        elif c == 6:
            scn.remove(pick_key())
        elif c == 7 and sris:
            scn.remove_hash(rng.choice(sris))
        elif c == 8:
            scn.list()
        elif c == 9 and sris:
            scn.exists(rng.choice(sris))
        elif c == 10:
            r = scn.ropen(pick_key())
            if r.kind == "ok":
                h = r.handle
                for _ in range(rng.randrange(1, 3)):
                    scn.hread(h, rng.choice([1, 4, 64, 5000]))
                # drain
                for _ in range(4):
                    r2 = scn.hread(h, 4096)
                    if r2.kind != "ok" or r2.count == 0:
                        break
                scn.check(h)
        elif c == 11:
            op = rng.choice(["copy", "copy_unchecked", "reflink", "reflink_unchecked", "hard_link", "hard_link_unchecked"])
            if api == "async" and op == "hard_link_unchecked":
                op = "hard_link"
            scn.extract(op, ROOT + "/out%d" % rng.randrange(2), key=pick_key())
        elif c == 12 and sris:
            op = rng.choice(["copy_hash", "copy_hash_unchecked", "reflink_hash"])
            scn.extract(op, ROOT + "/out%d" % rng.randrange(2), sri=rng.choice(sris))
        elif c == 13:
            scn.remove_fully(pick_key())
        elif c == 14 and rng.random() < 0.3:
            scn.clear()
        elif c == 15:
            opts = {"integrity": scn.sri_str("sha1-deadbeef"), "time": rng.choice([5, 1234567])}
            if rng.random() < 0.5:
                opts["size"] = rng.choice([0, 7, 1 << 40])
            scn.index_insert(pick_key(), opts)
            scn.index_find(pick_key())


def validate(flavour="sync", seeds=range(40), n_ops=6, verbose=False, api=None):
    ok = 0
    problems = []
    for seed in seeds:
        rng = random.Random(seed)
        w = World()
        try:
            scn = Scn(w, flavour, api=api)
            scn.env.reflink_supported = SANDBOX_REFLINK
            scn.env.short_read_budget = 0      # concrete mode: a healthy local fs reads fully
            rand_scenario(rng, scn, n_ops)
            m = w.model()
            cz = Concretiser(scn, m)
            scenario = cz.scenario()
            preds = [render_outcome(st.outcome, cz) for st in scn.log]
        except (Inconclusive, Unreplayable) as e:
            problems.append((seed, "inconclusive", str(e)))
            if verbose:
                print("seed", seed, "INCONCLUSIVE", e)
            continue
        except Exception as e:
            problems.append((seed, "crash", traceback.format_exc()[-800:]))
            if verbose:
                print("seed", seed, "ENGINE ERROR", traceback.format_exc()[-1500:])
            continue
        obs, final = run_native(scenario, flavour)
        bad = None
        for i, (p, o) in enumerate(zip(preds, obs)):
            if not obs_equal(p, o):
                bad = (i, scenario["steps"][i], p, o)
                break
        if bad is None and len(obs) != len(preds):
            bad = (len(obs), None, "length", (len(preds), len(obs)))
        if bad:
            problems.append((seed, "mismatch", bad))
            if verbose:
                print("seed", seed, "MISMATCH at step", bad[0], json.dumps(bad[1])[:300], "\n   model :", json.dumps(bad[2])[:400], "\n   native:", json.dumps(bad[3])[:400])
        else:
            ok += 1
    return ok, problems


if __name__ == "__main__":
    fl = sys.argv[1] if len(sys.argv) > 1 else "sync"
    n = int(sys.argv[2]) if len(sys.argv) > 2 else 40
    t0 = time.time()
    ok, problems = validate(fl, range(n), verbose=True)
    print("validated %d scenarios, %d problems, %.1fs" % (ok, len(problems), time.time() - t0))
    sys.exit(0 if not problems else 2)
