"""serde_json models.  Serialisation interprets the crate's derive(Serialize) MIR against a model
Serializer, so field names and order come from the compiled code.  Deserialisation is type-directed
from the struct declaration in the current source."""
import json
import re
import z3

from . import TABLE as T
from ..values import *
from ..interp import BufObj, BytesRef, NONE, SOME, OK, ERR, base_type_name
from .. import sbytes as sb
from ..sbytes import SBytes
from .core import as_sbytes, peel, mk_string, mk_vec_u8, generic_args, turbofish_of


class JsonValue:
    """serde_json::Value.  Either a concrete python value or an opaque one (id)."""
    rust_type = "Value"

    def __init__(self, py=None, opaque=None):
        self.py = py
        self.opaque = opaque

    def rust_clone(self, I):
        return self

    def rust_eq(self, I, other):
        other = peel(other)
        if self.opaque is not None or other.opaque is not None:
            return self.opaque == other.opaque and self.opaque is not None
        return json_equal(self.py, other.py)

    def __repr__(self):
        return "Json(%s)" % (self.opaque if self.opaque is not None else json.dumps(self.py))


def json_equal(a, b):
    return type(a) == type(b) and a == b


from ..interp import STD_ENUMS
STD_ENUMS["Value"] = ["Null", "Bool", "Number", "String", "Array", "Object"]
NULL = JsonValue(None)
T.consts["Null"] = lambda I: JsonValue(None)
T.consts["serde_json::Value::Null"] = lambda I: JsonValue(None)


def escape_json_string(b):
    """serde_json's escaping of a str given as UTF-8 bytes."""
    out = bytearray()
    for ch in b:
        if ch == 0x22:
            out += b'\\"'
        elif ch == 0x5C:
            out += b"\\\\"
        elif ch == 0x08:
            out += b"\\b"
        elif ch == 0x0C:
            out += b"\\f"
        elif ch == 0x0A:
            out += b"\\n"
        elif ch == 0x0D:
            out += b"\\r"
        elif ch == 0x09:
            out += b"\\t"
        elif ch < 0x20:
            out += b"\\u%04x" % ch
        else:
            out.append(ch)
    return bytes(out)


def json_string(s):
    """JSON text of a Rust string given as SBytes."""
    out = SBytes(b'"')
    for seg in s.segs:
        if isinstance(seg, bytes):
            out = out + escape_json_string(seg)
        elif isinstance(seg, sb.Atom) and seg.kind in ("hex", "b64", "dec"):
            out = out + SBytes((seg,))
        else:
            raise Inconclusive("JSON string containing %r" % (seg,))
    return out + b'"'


def py_to_json_text(v):
    # serde_json compact output; python's json matches for the restricted value domain
    # (integers, strings, bool, null, arrays, objects with string keys in insertion order).
    def enc(x):
        if x is None:
            return b"null"
        if x is True:
            return b"true"
        if x is False:
            return b"false"
        if isinstance(x, int):
            return str(x).encode()
        if isinstance(x, float):
            return repr(x).encode()
        if isinstance(x, str):
            return b'"' + escape_json_string(x.encode("utf-8")) + b'"'
        if isinstance(x, list):
            return b"[" + b",".join(enc(i) for i in x) + b"]"
        if isinstance(x, dict):
            # serde_json::Map without preserve_order is a BTreeMap: keys sorted
            return b"{" + b",".join(enc(k) + b":" + enc(x[k]) for k in sorted(x)) + b"}"
        raise Inconclusive("json value %r" % (x,))
    return enc(v)


def value_to_json(I, v):
    """JSON text (SBytes) of a serialisable model value."""
    v = peel(v)
    if isinstance(v, JsonValue):
        if v.opaque is not None:
            return SBytes((sb.Atom("json", v.opaque),))
        return SBytes.of(py_to_json_text(v.py))
    if isinstance(v, Adt) and v.ty == "Value":
        if v.vname == "Null":
            return SBytes.of(b"null")
        if v.vname == "Bool":
            return SBytes.of(b"true" if v.fields[0] else b"false")
        if v.vname == "String":
            return json_string(as_sbytes(v.fields[0]))
        raise Inconclusive("serde_json::Value::%s built inside the crate" % v.vname)
    if isinstance(v, bool):
        return SBytes.of(b"true" if v else b"false")
    if isinstance(v, int):
        return SBytes.of(str(v).encode())
    if is_sym(v):
        if z3.is_bool(v):
            raise Inconclusive("symbolic bool to JSON")
        return SBytes((sb.Atom("dec", (v, v.size())),))
    if isinstance(v, Adt) and v.ty == "Option":
        if v.vname == "None":
            return SBytes.of(b"null")
        return value_to_json(I, v.fields[0])
    if isinstance(v, (BufObj, BytesRef)):
        kind = getattr(v, "kind", "")
        if kind in ("String", "str"):
            return json_string(v.sb)
        # Vec<u8> / [u8] serialise as an array of numbers
        if v.sb.is_concrete():
            return SBytes.of(b"[" + b",".join(str(x).encode() for x in v.sb.concrete()) + b"]")
        if len(v.sb.segs) == 1 and isinstance(v.sb.segs[0], sb.BlobSeg):
            seg = v.sb.segs[0]
            if sb._whole(seg):
                return SBytes((sb.Atom("rawmeta", seg.blob),))
        raise Inconclusive("JSON of partially symbolic bytes")
    if isinstance(v, VecObj):
        out = SBytes(b"[")
        for k, x in enumerate(v.items):
            if k:
                out = out + b","
            out = out + value_to_json(I, x)
        return out + b"]"
    # a type with an interpreted Serialize impl
    ser = JsonSerializer()
    r = I.call_trait_method("Serialize", "serialize", [Ref(ValLoc(v)), ser])
    if r.vname == "Err":
        raise Inconclusive("nested serialize error")
    return r.fields[0]


class JsonSerializer:
    rust_type = "JsonSerializer"


class StructSer:
    rust_type = "JsonStructSer"

    def __init__(self):
        self.out = SBytes(b"{")
        self.first = True


@T.trait("Serializer", "serialize_struct")
def _ser_struct(I, a, d):
    return OK(StructSer())


@T.trait("SerializeStruct", "serialize_field")
def _ser_field(I, a, d):
    st = peel(a[0])
    name = as_sbytes(a[1])
    if not st.first:
        st.out = st.out + b","
    st.first = False
    st.out = st.out + json_string(name) + b":" + value_to_json(I, a[2])
    return OK(UNIT)


@T.trait("SerializeStruct", "skip_field")
def _ser_skip_field(I, a, d):
    return OK(UNIT)


@T.trait("SerializeStruct", "end")
def _ser_end(I, a, d):
    st = peel(a[0])
    return OK(st.out + b"}")


@T.trait("Serializer", "serialize_str")
def _ser_str(I, a, d):
    return OK(json_string(as_sbytes(a[1])))


@T.trait("Serializer", "serialize_u64")
def _ser_u64(I, a, d):
    return OK(value_to_json(I, a[1]))


@T.path("serde_json::to_string")
def _to_string(I, a, d):
    v = a[0]
    pv = peel(v)
    if isinstance(pv, (Agg,)) and pv.kind == "struct":
        r = I.call_trait_method("Serialize", "serialize", [v, JsonSerializer()])
        if r.vname == "Err":
            return r
        return OK(mk_string(r.fields[0]))
    return OK(mk_string(value_to_json(I, v)))


@T.path("serde_json::to_vec")
def _to_vec(I, a, d):
    r = _to_string(I, a, d)
    if r.vname == "Ok":
        return OK(mk_vec_u8(r.fields[0].sb))
    return r


# ---------------------------------------------------------------------------
# parsing

class JsonSyntaxError(Exception):
    pass


class Tok:
    """flat item stream over SBytes: ints for concrete bytes, Atom objects otherwise."""

    def __init__(self, s):
        self.items = []
        s = sb.resolve_symbytes(sb.resolve_cuts(s, sb.CURRENT_WORLD[0]), sb.CURRENT_WORLD[0])
        for seg in s.segs:
            if isinstance(seg, bytes):
                self.items.extend(seg)
            elif isinstance(seg, sb.Atom):
                c = sb.to_concrete_atom(seg)
                if c is not None:
                    self.items.extend(c)
                else:
                    self.items.append(seg)
            else:
                raise Inconclusive("JSON text containing %r" % (seg,))
        self.i = 0

    def peek(self):
        return self.items[self.i] if self.i < len(self.items) else None

    def next(self):
        x = self.peek()
        self.i += 1
        return x

    def ws(self):
        while self.peek() in (0x20, 0x09, 0x0A, 0x0D):
            self.i += 1


class PStr:
    """parsed JSON string: SBytes (decoded)"""

    def __init__(self, s, escaped=False):
        self.s = s
        self.escaped = escaped      # the JSON text contained an escape sequence (cannot be borrowed as &str)


class PNum:
    def __init__(self, text=None, atom=None):
        self.text = text
        self.atom = atom


class PAtom:
    def __init__(self, atom):
        self.atom = atom


def parse_json(tok, depth=0):
    if depth > 120:
        raise JsonSyntaxError("recursion limit")
    tok.ws()
    c = tok.peek()
    if c is None:
        raise JsonSyntaxError("eof")
    if isinstance(c, sb.Atom):
        tok.next()
        if c.kind == "dec":
            return PNum(atom=c)
        if c.kind in ("json", "rawmeta"):
            return PAtom(c)
        raise JsonSyntaxError("atom %s outside string" % c.kind)
    if c == 0x7B:
        tok.next()
        obj = []
        tok.ws()
        if tok.peek() == 0x7D:
            tok.next()
            return ("obj", obj)
        while True:
            tok.ws()
            if tok.peek() != 0x22:
                raise JsonSyntaxError("key must be a string")
            k = parse_string(tok)
            tok.ws()
            if tok.next() != 0x3A:
                raise JsonSyntaxError("expected ':'")
            v = parse_json(tok, depth + 1)
            obj.append((k, v))
            tok.ws()
            ch = tok.next()
            if ch == 0x2C:
                continue
            if ch == 0x7D:
                return ("obj", obj)
            raise JsonSyntaxError("expected ',' or '}'")
    if c == 0x5B:
        tok.next()
        arr = []
        tok.ws()
        if tok.peek() == 0x5D:
            tok.next()
            return ("arr", arr)
        while True:
            arr.append(parse_json(tok, depth + 1))
            tok.ws()
            ch = tok.next()
            if ch == 0x2C:
                continue
            if ch == 0x5D:
                return ("arr", arr)
            raise JsonSyntaxError("expected ',' or ']'")
    if c == 0x22:
        return parse_string(tok)
    for lit, val in ((b"true", True), (b"false", False), (b"null", None)):
        if bytes(x for x in tok.items[tok.i:tok.i + len(lit)] if isinstance(x, int)) == lit and \
                all(isinstance(x, int) for x in tok.items[tok.i:tok.i + len(lit)]):
            tok.i += len(lit)
            return ("lit", val)
    if c == 0x2D or 0x30 <= c <= 0x39:
        start = tok.i
        txt = bytearray()
        while isinstance(tok.peek(), int) and (tok.peek() in b"+-.eE" or 0x30 <= tok.peek() <= 0x39):
            txt.append(tok.next())
        t = bytes(txt).decode()
        if not re.fullmatch(r"-?(0|[1-9][0-9]*)(\.[0-9]+)?([eE][+-]?[0-9]+)?", t):
            raise JsonSyntaxError("bad number")
        return PNum(text=t)
    raise JsonSyntaxError("unexpected byte %r" % (c,))


def parse_string(tok):
    assert tok.next() == 0x22
    out = []
    cur = bytearray()
    escaped = False
    while True:
        c = tok.next()
        if c is None:
            raise JsonSyntaxError("eof in string")
        if isinstance(c, sb.Atom):
            if cur:
                out.append(bytes(cur))
                cur = bytearray()
            out.append(c)
            continue
        if c == 0x22:
            break
        if c < 0x20:
            raise JsonSyntaxError("control character in string")
        if c == 0x5C:
            escaped = True
            e = tok.next()
            m = {0x22: 0x22, 0x5C: 0x5C, 0x2F: 0x2F, 0x62: 8, 0x66: 12, 0x6E: 10, 0x72: 13, 0x74: 9}
            if e in m:
                cur.append(m[e])
            elif e == 0x75:
                hx = bytes(tok.next() or 0 for _ in range(4))
                try:
                    cp = int(hx.decode(), 16)
                except Exception:
                    raise JsonSyntaxError("bad \\u escape")
                if 0xD800 <= cp < 0xDC00:
                    if tok.next() != 0x5C or tok.next() != 0x75:
                        raise JsonSyntaxError("lone surrogate")
                    hx2 = bytes(tok.next() or 0 for _ in range(4))
                    try:
                        lo = int(hx2.decode(), 16)
                    except Exception:
                        raise JsonSyntaxError("bad \\u escape")
                    if not (0xDC00 <= lo < 0xE000):
                        raise JsonSyntaxError("lone surrogate")
                    cp = 0x10000 + ((cp - 0xD800) << 10) + (lo - 0xDC00)
                elif 0xDC00 <= cp < 0xE000:
                    raise JsonSyntaxError("lone surrogate")
                cur += chr(cp).encode("utf-8")
            else:
                raise JsonSyntaxError("bad escape")
        else:
            cur.append(c)
    if cur:
        out.append(bytes(cur))
    s = SBytes(out)
    for seg in s.segs:
        if isinstance(seg, bytes):
            try:
                seg.decode("utf-8")
            except UnicodeDecodeError:
                raise JsonSyntaxError("invalid utf-8 in string")
    return PStr(s, escaped)


def to_jsonvalue(p):
    if isinstance(p, PStr):
        if not p.s.is_concrete():
            raise Inconclusive("JSON Value string with atoms")
        return p.s.concrete().decode("utf-8")
    if isinstance(p, PNum):
        if p.atom is not None:
            raise Inconclusive("symbolic number inside Value")
        if re.fullmatch(r"-?[0-9]+", p.text):
            v = int(p.text)
            if -(1 << 63) <= v < (1 << 64):
                return v
            return float(p.text)
        return float(p.text)
    if isinstance(p, PAtom):
        raise Inconclusive("opaque atom nested in Value")
    k = p[0]
    if k == "lit":
        return p[1]
    if k == "arr":
        return [to_jsonvalue(x) for x in p[1]]
    if k == "obj":
        d = {}
        for kk, v in p[1]:
            d[kk.s.concrete().decode("utf-8")] = to_jsonvalue(v)
        return d
    raise Inconclusive("json node %r" % (p,))


class DeError(Exception):
    pass


INT_RANGES = {"u8": 8, "u16": 16, "u32": 32, "u64": 64, "usize": 64, "u128": 128}


def decode_typed(I, p, ty):
    """Deserialize parsed JSON node p as Rust type ty (string)."""
    ty = ty.strip()
    base = base_type_name(ty)[-1]
    if base == "Option":
        inner = generic_args(ty)[0]
        if isinstance(p, tuple) and p[0] == "lit" and p[1] is None:
            return NONE()
        return SOME(decode_typed(I, p, inner))
    if base == "String" or (base == "Cow" and "str" in ty):
        if not isinstance(p, PStr):
            raise DeError("expected string")
        return mk_string(p.s)
    if ty.startswith("&") and ty.split()[-1] == "str":
        # a borrowed &str can only be produced from JSON text without escape sequences
        if not isinstance(p, PStr):
            raise DeError("expected string")
        if p.escaped:
            raise DeError("invalid type: string, expected a borrowed string")
        return BytesRef(p.s, "str")
    if base in INT_RANGES:
        if not isinstance(p, PNum):
            raise DeError("expected number")
        width = INT_RANGES[base]
        if p.atom is not None:
            term, w = p.atom.payload
            if w <= width:
                return z3.ZeroExt(width - w, term) if (is_sym(term) and w < width) else term
            # wider value into narrower field: out-of-range values are a serde error
            if I.w.branch(z3.ULE(term, z3.BitVecVal((1 << width) - 1, w)), "de-range"):
                return z3.Extract(width - 1, 0, term)
            raise DeError("number out of range")
        if not re.fullmatch(r"[0-9]+", p.text):
            # serde_json rejects negative / fractional for unsigned targets
            raise DeError("invalid type for unsigned")
        v = int(p.text)
        if v >= (1 << width):
            raise DeError("number out of range")
        return v
    if base == "bool":
        if isinstance(p, tuple) and p[0] == "lit" and isinstance(p[1], bool):
            return p[1]
        raise DeError("expected bool")
    if base == "Value":
        if isinstance(p, PAtom):
            if p.atom.kind == "json":
                return JsonValue(opaque=p.atom.payload)
            raise Inconclusive("rawmeta atom as Value")
        return JsonValue(to_jsonvalue(p))
    if base == "Vec":
        inner = generic_args(ty)[0]
        if isinstance(p, PAtom) and p.atom.kind == "rawmeta" and inner == "u8":
            return mk_vec_u8(SBytes.blob(p.atom.payload))
        if not (isinstance(p, tuple) and p[0] == "arr"):
            raise DeError("expected array")
        items = [decode_typed(I, x, inner) for x in p[1]]
        if inner == "u8":
            return mk_vec_u8(bytes(items))
        return VecObj(items)
    raise Inconclusive("deserialize into %s" % ty)


def struct_decl(I, name):
    """[(field, type)] from the current source."""
    for path, text in I.src.files.items():
        m = re.search(r"\bstruct\s+%s\s*(?:<[^>{]*>)?\s*\{" % re.escape(name), text)
        if not m:
            continue
        depth, j = 0, m.end() - 1
        k = j
        while True:
            if text[k] == "{":
                depth += 1
            elif text[k] == "}":
                depth -= 1
                if depth == 0:
                    break
            k += 1
        body = text[j + 1:k]
        body = re.sub(r"//[^\n]*", "", body)
        if "#[serde" in body:
            raise Inconclusive("serde field attributes on %s are not modelled" % name)
        fields = []
        from ..srcinfo import _split_top
        for part in _split_top(body):
            part = re.sub(r"#\[.*?\]\s*", "", part, flags=re.S).strip()
            if not part:
                continue
            mm = re.match(r"(?:pub(?:\([^)]*\))?\s+)?([A-Za-z_][A-Za-z0-9_]*)\s*:\s*(.*)$", part, re.S)
            fields.append((mm.group(1), mm.group(2).strip()))
        # container attributes
        pre = text[max(0, m.start() - 300):m.start()]
        tail = pre[pre.rfind("\n\n") + 1:] if "\n\n" in pre else pre
        if "#[serde" in tail:
            raise Inconclusive("serde container attributes on %s are not modelled" % name)
        return fields
    return None


@T.path("serde_json::from_str")
def _from_str(I, a, d):
    tf = turbofish_of(d, "from_str")
    target = tf[-1] if tf else None
    text = sb.resolve_symbytes(as_sbytes(a[0]), I.w)
    if text.has_kind(sb.SymByte):
        raise Inconclusive("serde_json::from_str over symbolic bytes (the checksum guard should have rejected it)")
    try:
        tok = Tok(text)
        p = parse_json(tok)
        tok.ws()
        if tok.peek() is not None:
            raise JsonSyntaxError("trailing characters")
        tb = base_type_name(target)[-1]
        if tb == "Value":
            return OK(decode_typed(I, p, "Value"))
        decl = struct_decl(I, tb)
        if decl is None:
            raise Inconclusive("from_str::<%s>" % target)
        if isinstance(p, tuple) and p[0] == "arr":
            # serde derive also accepts a sequence
            if len(p[1]) < len(decl):
                raise DeError("invalid length")
            vals = [decode_typed(I, x, ty) for x, (_, ty) in zip(p[1], decl)]
            if len(p[1]) > len(decl):
                raise DeError("trailing characters")
            return OK(Agg("struct", tb, vals, [n for n, _ in decl]))
        if not (isinstance(p, tuple) and p[0] == "obj"):
            raise DeError("invalid type")
        seen = {}
        for k, v in p[1]:
            if not k.s.is_concrete():
                raise DeError("unknown field")
            kn = k.s.concrete().decode("utf-8")
            names = [n for n, _ in decl]
            if kn in names:
                if kn in seen:
                    raise DeError("duplicate field")
                seen[kn] = decode_typed(I, v, dict(decl)[kn])
            else:
                # unknown fields are ignored (IgnoredAny), but must still be valid JSON (already parsed)
                pass
        vals = []
        for n, ty in decl:
            if n in seen:
                vals.append(seen[n])
            elif base_type_name(ty)[-1] == "Option":
                vals.append(NONE())
            else:
                raise DeError("missing field")
        return OK(Agg("struct", tb, vals, [n for n, _ in decl]))
    except (JsonSyntaxError, DeError) as e:
        return ERR(SerdeError(str(e)))


class SerdeError:
    rust_type = "serde_json::Error"

    def __init__(self, msg):
        self.msg = msg

    def __repr__(self):
        return "serde_json::Error(%s)" % self.msg
