"""Scenario layer: API-level operations executed symbolically through the MIR interpreter, with a log
that can be concretised from a solver model and replayed by the native runner (/verif/replay)."""
import base64
import hashlib
import json
import z3

from .engine import Session, Outcome, path_arg, str_arg, bytes_arg, err_class
from .interp import BufObj, BytesRef, MutBytesRef, NONE, SOME
from .values import *
from . import sbytes as sb
from .sbytes import SBytes, Blob
from .models.core import as_sbytes, peel
from .models.ssri import IntegrityV, HashV, algo_value, ALGOS, digest_text, sort_hashes
from .models.serde import JsonValue
from .models.fs import IoError

CACHE = "/root/cache"      # the scenario's cache directory ("$ROOT/cache" natively)
ROOT = "/root"

# entry point names: op -> (sync name, async name)
ENTRY = {
    "write": ("write_sync_with_algo", "write_with_algo"),
    "write_default": ("write_sync", "write"),
    "write_hash": ("write_hash_sync_with_algo", "write_hash_with_algo"),
    "write_hash_default": ("write_hash_sync", "write_hash"),
    "open": ("WriteOpts::open_sync", "WriteOpts::open"),
    "open_hash": ("WriteOpts::open_hash_sync", "WriteOpts::open_hash"),
    "create": ("SyncWriter::create", "put::Writer::create"),
    "create_with_algo": ("SyncWriter::create_with_algo", "put::Writer::create_with_algo"),
    "commit": ("SyncWriter::commit", "put::Writer::commit"),
    "read": ("read_sync", "get::read"),
    "read_hash": ("read_hash_sync", "read_hash"),
    "ropen": ("SyncReader::open", "get::Reader::open"),
    "ropen_hash": ("SyncReader::open_hash", "get::Reader::open_hash"),
    "check": ("SyncReader::check", "get::Reader::check"),
    "copy": ("copy_sync", "get::copy"),
    "copy_unchecked": ("copy_unchecked_sync", "get::copy_unchecked"),
    "copy_hash": ("copy_hash_sync", "copy_hash"),
    "copy_hash_unchecked": ("copy_hash_unchecked_sync", "copy_hash_unchecked"),
    "reflink": ("reflink_sync", "get::reflink"),
    "reflink_unchecked": ("reflink_unchecked_sync", "get::reflink_unchecked"),
    "reflink_hash": ("reflink_hash_sync", "reflink_hash"),
    "reflink_hash_unchecked": ("reflink_hash_unchecked_sync", None),
    "hard_link": ("hard_link_sync", "get::hard_link"),
    "hard_link_unchecked": ("hard_link_unchecked_sync", None),
    "hard_link_hash": ("hard_link_hash_sync", None),
    "hard_link_hash_unchecked": ("hard_link_hash_unchecked_sync", None),
    "metadata": ("metadata_sync", "get::metadata"),
    "exists": ("exists_sync", "exists"),
    "list": ("list_sync", "list_sync"),
    "remove": ("remove_sync", "rm::remove"),
    "remove_hash": ("remove_hash_sync", "remove_hash"),
    "remove_fully": ("RemoveOpts::remove_sync", "RemoveOpts::remove"),
    "clear": ("clear_sync", "rm::clear"),
    "link_to": ("link_to_sync", "linkto::link_to"),
    "link_to_hash": ("link_to_hash_sync", "linkto::link_to_hash"),
    "link_open": ("WriteOpts::link_to_sync", "WriteOpts::link_to"),
    "link_open_hash": ("WriteOpts::link_to_hash_sync", "WriteOpts::link_to_hash"),
    "link_commit": ("SyncToLinker::commit", "linkto::ToLinker::commit"),
    "index_insert": ("index::insert", "insert_async"),
    "index_find": ("index::find", "find_async"),
    "index_delete": ("index::delete", "delete_async"),
    "index_ls": ("index::ls", "index::ls"),
}


def gen_bytes(seed, n):
    """Deterministic pseudo-random bytes; must match replay/src/main.rs::xorshift_bytes."""
    M = (1 << 64) - 1
    s = ((seed * 0x9E3779B97F4A7C15) & M) | 1
    out = bytearray()
    while len(out) < n:
        s ^= (s << 13) & M
        s ^= s >> 7
        s ^= (s << 17) & M
        out += s.to_bytes(8, "little")
    return bytes(out[:n])


class ParResult:
    """Outcome value of a concurrent section: the step logs of its processes."""
    def __init__(self, logs):
        self.logs = logs


class Step:
    def __init__(self, op, api, params, outcome):
        self.op = op
        self.api = api
        self.params = params
        self.outcome = outcome
        self.index = None


class Scn:
    def __init__(self, world, flavour="sync", api=None, env=None, cache_dir=None):
        self.cache_dir = cache_dir or CACHE
        self.w = world
        self.flavour = flavour
        self.api = api or ("sync" if flavour == "sync" else "async")
        self.s = Session(world, flavour, env=env)
        self.env = self.s.env
        self.log = []
        self.blobs = {}
        self.handles = []
        self.prov = {}     # id(value) -> step index that produced it
        # the cache root's parent exists (a tempdir natively)
        self.env.vfs.mkdir_p(SBytes.of(ROOT))
        self.env.vfs.mkdir_p(SBytes.of(ROOT + "/systmp"))      # the process's TMPDIR (the runner sets it the same way)
        self.env.vfs.cwd = SBytes.of(ROOT)

    # -- inputs
    def blob(self, name, length=None, max_len=None, min_len=0):
        if name in self.blobs:
            return self.blobs[name]
        if length is None:
            length = self.w.fresh_bv("len_" + name, 64)
            if max_len is not None:
                self.w.assume(z3.ULE(length, z3.BitVecVal(max_len, 64)))
            else:
                self.w.assume(z3.ULE(length, z3.BitVecVal((1 << 62), 64)))
            if min_len:
                self.w.assume(z3.UGE(length, z3.BitVecVal(min_len, 64)))
        b = Blob(name, length)
        b.seed = len(self.blobs) + 1
        # axioms relating byte-string equality and length
        for o in self.blobs.values():
            same = sb.same_blob_var(b, o)
            self.w.assume(z3.Implies(same, sb._bv(b.len) == sb._bv(o.len)))
            self.w.assume(z3.Implies(z3.And(sb._bv(b.len) == 0, sb._bv(o.len) == 0), same))
        self.blobs[name] = b
        return b

    def distinct(self, b1, b2):
        """Two blobs that are different byte strings."""
        self.w.assume(z3.Not(sb.same_blob_var(b1, b2)))
        if not hasattr(self.w, "distinct_blobs"):
            self.w.distinct_blobs = set()
        self.w.distinct_blobs.add(frozenset((b1.name, b2.name)))

    def share_shard(self, b1, b2, digits=2):
        """Scenario choice: the (sha256) digests of two different blobs fall into the same first-level
        shard directory (digits=2) -- the replayer searches generated data with that property."""
        self.distinct(b1, b2)
        self.w.assume(z3.UGE(sb._bv(b1.len), sb._bv(2)))
        self.w.assume(z3.UGE(sb._bv(b2.len), sb._bv(2)))
        sb.SHARED_PREFIX[frozenset((b1.name, b2.name))] = digits

    # -- several users of the cache at once (separate processes: nothing shared but the filesystem)
    def proc(self, tid=0):
        """A further process using the same cache directory: own interpreter, shared filesystem."""
        p = Scn.__new__(Scn)
        p.cache_dir, p.w, p.flavour, p.api = self.cache_dir, self.w, self.flavour, self.api
        p.env = self.env
        p.s = Session(self.w, self.flavour, env=self.env)
        p.log, p.handles, p.prov = [], [], {}
        p.blobs = self.blobs
        if getattr(self, "shared_syms", None) is not None:
            p.shared_syms = self.shared_syms
        p.tid = tid
        return p

    def par(self, thunks, label="par"):
        """Run thunks[i](process_i) concurrently; the interleaving is part of the explored path.
        Returns the process scenarios (their logs hold the outcomes)."""
        from .sched import Scheduler
        procs = [self.proc(i) for i in range(len(thunks))]
        sch = Scheduler(self.env, self.w, label)
        self.last_sched = sch
        sch.run([(lambda p=p, th=th: th(p)) for p, th in zip(procs, thunks)])
        out = Outcome("ok", ParResult([p.log for p in procs]))
        self._record("par", self.api, dict(procs=[p.log for p in procs], sched=list(sch.schedule)), out)
        return procs

    def same_len(self, b1, b2):
        self.w.assume(sb._bv(b1.len) == sb._bv(b2.len))

    def whole(self, blob):
        return SBytes.blob(blob)

    def cut(self, blob, a, b):
        return SBytes((sb.BlobSeg(blob, a, b),))

    def sym(self, name, width=64, lo=None, hi=None):
        shared = getattr(self, "shared_syms", None)
        if shared is not None and name in shared:
            return shared[name]
        v = self.w.fresh_bv(name, width)
        if shared is not None:
            shared[name] = v
        if lo is not None:
            self.w.assume(z3.UGE(v, sb._bv(lo) if width == 64 else z3.BitVecVal(lo, width)))
        if hi is not None:
            self.w.assume(z3.ULE(v, sb._bv(hi) if width == 64 else (hi if is_sym(hi) else z3.BitVecVal(hi, width))))
        return v

    def sri_of(self, data, algo="Sha256"):
        """Integrity value of given data (what a caller would compute / have recorded)."""
        v = IntegrityV([HashV(algo, digest_text(self.s.I, algo, SBytes.of(data)))])
        v.spec = {"of": data, "algo": algo}
        return v

    def sri_multi(self, *sris):
        hs = []
        for s in sris:
            hs.extend(s.hashes)
        v = IntegrityV(sort_hashes(hs))
        v.spec = {"multi": list(sris)}
        return v

    def sri_str(self, text):
        from .models.ssri import parse_integrity
        r = parse_integrity(self.s.I, SBytes.of(text))
        v = r.fields[0]
        v.spec = {"str": text}
        return v

    # -- plumbing
    def _record(self, op, api, params, outcome):
        st = Step(op, api, params, outcome)
        st.index = len(self.log)
        st.op_seq = self.env.op_seq
        self.log.append(st)
        if outcome.kind == "ok" and outcome.value is not None:
            v = outcome.value
            self.prov[id(v)] = st.index
            if isinstance(v, IntegrityV) and getattr(v, "spec", None) is None and getattr(v, "step", None) is None:
                v.step = st.index
            if isinstance(v, Adt) and v.ty == "Option" and v.vname == "Some":
                m = v.fields[0]
                if isinstance(m, Agg) and len(m.fields) > 1 and isinstance(m.fields[1], IntegrityV) \
                        and getattr(m.fields[1], "step", None) is None:
                    m.fields[1].step = st.index
        return outcome

    def _entry(self, op, api):
        names = ENTRY[op]
        n = names[0] if api == "sync" else names[1]
        if n is None:
            raise Inconclusive("operation %s has no %s entry point" % (op, api))
        return n

    def _call(self, op, api, params, *args):
        api = api or self.api
        if self.env.crashed:
            raise Inconclusive("operation after crash in the same process")
        out = self.s.call(self._entry(op, api), *args)
        return self._record(op, api, params, out)

    def cache(self):
        return path_arg(self.cache_dir)

    def _opts(self, opts):
        """Build a WriteOpts value through the real builder methods."""
        s = self.s
        o = s.call("WriteOpts::new").value
        opts = opts or {}
        if "algorithm" in opts:
            o = s.call("WriteOpts::algorithm", o, algo_value(opts["algorithm"])).value
        if "size" in opts:
            o = s.call("WriteOpts::size", o, opts["size"]).value
        if "time" in opts:
            o = s.call("WriteOpts::time", o, opts["time"]).value
        if "metadata" in opts:
            o = s.call("WriteOpts::metadata", o, opts["metadata"]).value
        if "raw_metadata" in opts:
            o = s.call("WriteOpts::raw_metadata", o, BufObj("Vec<u8>", opts["raw_metadata"])).value
        if "integrity" in opts:
            o = s.call("WriteOpts::integrity", o, opts["integrity"]).value
        return o

    # -- write side
    def write(self, key, data, algo=None, api=None):
        data = SBytes.of(data)
        if algo is None:
            return self._call("write_default", api, dict(key=key, data=data), self.cache(), str_arg(key), BytesRef(data))
        return self._call("write", api, dict(key=key, data=data, algo=algo), algo_value(algo), self.cache(), str_arg(key), BytesRef(data))

    def write_hash(self, data, algo=None, api=None):
        data = SBytes.of(data)
        if algo is None:
            return self._call("write_hash_default", api, dict(data=data), self.cache(), BytesRef(data))
        return self._call("write_hash", api, dict(data=data, algo=algo), algo_value(algo), self.cache(), BytesRef(data))

    def open(self, key, opts=None, api=None):
        o = self._opts(opts)
        r = self._call("open", api, dict(key=key, opts=opts or {}), o, self.cache(), str_arg(key))
        return self._handle(r)

    def open_hash(self, opts=None, api=None):
        o = self._opts(opts)
        r = self._call("open_hash", api, dict(opts=opts or {}), o, self.cache())
        return self._handle(r)

    def create(self, key, algo=None, api=None):
        if algo is None:
            r = self._call("create", api, dict(key=key), self.cache(), str_arg(key))
        else:
            r = self._call("create_with_algo", api, dict(key=key, algo=algo), algo_value(algo), self.cache(), str_arg(key))
        return self._handle(r)

    def _handle(self, r):
        if r.kind == "ok":
            self.handles.append(r.value)
            r.handle = len(self.handles) - 1
            r.step_index = len(self.log) - 1
            self.log[-1].params["hid"] = r.handle
        else:
            self.log[-1].params["hid"] = len(self.handles)
        return r

    def _href(self, h):
        return Ref(ValLoc(self.handles[h]), True)

    def _htrait(self, op, trait, method, h, params, *args, api=None):
        api = api or self.api
        if api == "sync":
            out = self.s.call_trait(trait, method, self._href(h), *args)
        else:
            from .models.asyncrt import drive_io
            out = drive_io(self.s, op, self._href(h), *args)
        return self._record(op, api, dict(h=h, **params), out)

    def hwrite(self, h, data, api=None):
        data = SBytes.of(data)
        return self._htrait("hwrite", "Write", "write", h, dict(data=data), BytesRef(data), api=api)

    def hwrite_all(self, h, data, api=None):
        data = SBytes.of(data)
        return self._htrait("hwrite_all", "Write", "write_all", h, dict(data=data), BytesRef(data), api=api)

    def hwrite_cancel(self, h, data):
        """async only: start write_all, poll it once, then drop the future (cancellation while the
        blocking job may still be in flight)."""
        from .models.asyncrt import WriteAllFut, poll_any, mk_pin, CX
        data = SBytes.of(data)
        self.env.begin_op("hwrite_cancel")
        try:
            fut = WriteAllFut(self._href(h), data)
            cell = Cell(fut)
            r = poll_any(self.s.I, mk_pin(Ref(CellLoc(cell), True)), CX)
            out = Outcome("ok", r.vname == "Ready")
            self.s.I.drop_value(fut)
        except RustPanic as e:
            out = Outcome("panic", None, e.msg)
        except Hang as e:
            out = Outcome("hang", None, str(e))
        return self._record("hwrite_cancel", "async", dict(h=h, data=data), out)

    def quiesce(self):
        """Let every detached background job of the async runtime finish."""
        rt = getattr(self.env, "runtime", None)
        self.env.begin_op("quiesce")
        try:
            if rt is not None:
                rt.quiesce(self.s.I)
            out = Outcome("ok", UNIT)
        except RustPanic as e:
            out = Outcome("panic", None, e.msg)
        return self._record("quiesce", self.api, {}, out)

    def hflush(self, h, api=None):
        return self._htrait("hflush", "Write", "flush", h, {}, api=api)

    def hclose(self, h, api=None):
        return self._htrait("hclose", "AsyncWrite", "close", h, {}, api=api)

    def commit(self, h, api=None):
        v = self.handles[h]
        self.handles[h] = None
        tn = self.s.I.type_name_of(v)
        op = "link_commit" if tn and "Linker" in tn[-1] else "commit"
        return self._call(op, api, dict(h=h), v)

    def hdrop(self, h):
        v = self.handles[h]
        self.handles[h] = None
        out = self.s.drop(v)
        return self._record("hdrop", self.api, dict(h=h), out)

    # -- read side
    def read(self, key, api=None):
        return self._call("read", api, dict(key=key), self.cache(), str_arg(key))

    def read_hash(self, sri, api=None):
        return self._call("read_hash", api, dict(sri=sri), self.cache(), Ref(ValLoc(sri)))

    def ropen(self, key, api=None):
        return self._handle(self._call("ropen", api, dict(key=key), self.cache(), str_arg(key)))

    def ropen_hash(self, sri, api=None):
        return self._handle(self._call("ropen_hash", api, dict(sri=sri), self.cache(), sri.rust_clone(self.s.I)))

    def hread(self, h, n, api=None):
        """One read() call with a fresh zeroed buffer of n bytes; Ok value = the bytes delivered."""
        buf = BufObj("array", SBytes((sb.Fill(0, n),)))
        dst = MutBytesRef(buf, 0, n)
        api = api or self.api
        if api == "sync":
            out = self.s.call_trait("Read", "read", self._href(h), dst)
        else:
            from .models.asyncrt import drive_io
            out = drive_io(self.s, "hread", self._href(h), dst)
        if out.kind == "ok":
            k = out.value
            out = Outcome("ok", BytesRef(sb.slice_(buf.sb, 0, k, self.w)))
            out.count = k
        return self._record("hread", api, dict(h=h, n=n), out)

    def check(self, h, api=None):
        v = self.handles[h]
        self.handles[h] = None
        return self._call("check", api, dict(h=h), v)

    def extract(self, op, to, key=None, sri=None, api=None):
        """copy / copy_unchecked / reflink / hard_link ... (by key) or *_hash variants (by address)."""
        to_arg = path_arg(to)
        if sri is not None:
            return self._call(op, api, dict(sri=sri, to=to), self.cache(), Ref(ValLoc(sri)), to_arg)
        return self._call(op, api, dict(key=key, to=to), self.cache(), str_arg(key), to_arg)

    def metadata(self, key, api=None):
        return self._call("metadata", api, dict(key=key), self.cache(), str_arg(key))

    def exists(self, sri, api=None):
        return self._call("exists", api, dict(sri=sri), self.cache(), Ref(ValLoc(sri)))

    def list(self):
        """list_sync collected into a list of Ok(Metadata)/Err."""
        api = "sync"
        if self.env.crashed:
            raise Inconclusive("operation after crash")
        s = self.s
        f = s.find_fn("list_sync")
        self.env.begin_op("list_sync")
        try:
            it = s.I.run_fn(f, [self.cache()])
            from .models.core import RIter
            items = it.to_list(s.I)
            out = Outcome("ok", VecObj(items))
        except RustPanic as e:
            out = Outcome("panic", None, e.msg)
        except Hang as e:
            out = Outcome("hang", None, str(e))
        except ProcessCrash as e:
            self.env.crashed = True
            out = Outcome("crash", None, str(e))
        return self._record("list", api, {}, out)

    # -- removals
    def remove(self, key, api=None):
        return self._call("remove", api, dict(key=key), self.cache(), str_arg(key))

    def remove_hash(self, sri, api=None):
        return self._call("remove_hash", api, dict(sri=sri), self.cache(), Ref(ValLoc(sri)))

    def remove_fully(self, key, fully=True, api=None):
        s = self.s
        o = s.call("RemoveOpts::new").value
        o = s.call("RemoveOpts::remove_fully", o, fully).value
        return self._call("remove_fully", api, dict(key=key, fully=fully), o, self.cache(), str_arg(key))

    def clear(self, api=None):
        return self._call("clear", api, {}, self.cache())

    # -- link_to
    def link_to(self, key, target, api=None):
        return self._call("link_to", api, dict(key=key, target=target), self.cache(), str_arg(key), path_arg(target))

    def link_to_hash(self, target, api=None):
        return self._call("link_to_hash", api, dict(target=target), self.cache(), path_arg(target))

    def link_open(self, key, target, opts=None, api=None):
        o = self._opts(opts)
        return self._handle(self._call("link_open", api, dict(key=key, target=target, opts=opts or {}), o, self.cache(), str_arg(key), path_arg(target)))

    def link_open_hash(self, target, opts=None, api=None):
        o = self._opts(opts)
        return self._handle(self._call("link_open_hash", api, dict(target=target, opts=opts or {}), o, self.cache(), path_arg(target)))

    # -- raw index
    def index_insert(self, key, opts=None, api=None):
        o = self._opts(opts)
        return self._call("index_insert", api, dict(key=key, opts=opts or {}), self.cache(), str_arg(key), o)

    def index_find(self, key, api=None):
        return self._call("index_find", api, dict(key=key), self.cache(), str_arg(key))

    def index_delete(self, key, api=None):
        return self._call("index_delete", api, dict(key=key), self.cache(), str_arg(key))

    # -- direct filesystem manipulation (the "environment" acting between API calls)
    def _fs(self, op, params, fn):
        try:
            fn()
            out = Outcome("ok", UNIT)
        except Exception as e:      # FsErr
            from .models.fs import FsErr
            if not isinstance(e, FsErr):
                raise
            out = Outcome("err", IoError(e.kind))
        return self._record(op, "sync", params, out)

    def fs_write(self, path, data):
        data = SBytes.of(data)
        return self._fs("fs_write", dict(path=path, data=data), lambda: self.env.vfs.put_file(SBytes.of(path), data))

    def fs_set(self, path, data):
        """Replace the content of an existing file in place (same inode)."""
        data = SBytes.of(data)

        def go():
            ino = self.env.vfs.lookup(SBytes.of(path))
            ino.sb = data
        return self._fs("fs_write", dict(path=path, data=data), go)

    def fs_truncate(self, path, n):
        def go():
            ino = self.env.vfs.lookup(SBytes.of(path))
            ino.sb = sb.slice_(ino.sb, 0, n, self.w)
        return self._fs("fs_truncate", dict(path=path, len=n), go)

    def fs_append(self, path, data):
        data = SBytes.of(data)

        def go():
            ino = self.env.vfs.lookup(SBytes.of(path))
            ino.sb = ino.sb + data
        return self._fs("fs_append", dict(path=path, data=data), go)

    def fs_remove(self, path):
        def go():
            from .models.fs import comp_key, FsErr
            p, n, ino = self.env.vfs.walk(SBytes.of(path), follow_last=False)
            if ino is None:
                raise FsErr("NotFound")
            del p.children[comp_key(n)]
        return self._fs("fs_remove", dict(path=path), go)

    def fs_remove_dir_all(self, path):
        def go():
            from .models.fs import comp_key, FsErr
            p, n, ino = self.env.vfs.walk(SBytes.of(path), follow_last=False)
            if ino is None:
                raise FsErr("NotFound")
            del p.children[comp_key(n)]
        return self._fs("fs_remove_dir_all", dict(path=path), go)

    def fs_symlink(self, target, path):
        def go():
            from .models.fs import comp_key, Inode, FsErr
            p, n, ino = self.env.vfs.walk(SBytes.of(path), follow_last=False)
            if ino is not None:
                raise FsErr("AlreadyExists")
            p.children[comp_key(n)] = (n, Inode("symlink", target=SBytes.of(target)))
        return self._fs("fs_symlink", dict(path=path, target=target), go)

    def fs_read(self, path):
        """Observe a file's bytes (the caller looking at an extraction destination)."""
        from .models.fs import FsErr
        try:
            ino = self.env.vfs.lookup(SBytes.of(path))
            if ino.kind != "file":
                raise FsErr("IsADirectory")
            out = Outcome("ok", BytesRef(ino.sb))
        except FsErr as e:
            out = Outcome("err", IoError(e.kind))
        return self._record("fs_read", "sync", dict(path=path), out)

    def fs_mkdir_p(self, path):
        return self._fs("fs_mkdir_p", dict(path=path), lambda: self.env.vfs.mkdir_p(SBytes.of(path)))

    def chdir(self, path):
        def go():
            self.env.vfs.lookup(SBytes.of(path))
            self.env.vfs.cwd = SBytes.of(path)
        return self._fs("chdir", dict(path=path), go)

    # -- crash / fault injection around operations
    def arm_crash(self, torn=True):
        from .models.fs import CrashController
        if self.env.crash is None:
            self.env.crash = CrashController(torn=torn)
        self.env.crash.armed = True

    def disarm(self):
        if self.env.crash is not None:
            self.env.crash.armed = False
        if self.env.fault is not None:
            self.env.fault.armed = False

    def arm_fault(self, kinds=None, short_write=True, actions=None):
        from .models.fs import FaultController
        if self.env.fault is None:
            self.env.fault = FaultController(kinds=kinds, short_write=short_write, actions=actions)
        self.env.fault.armed = True

    def step_of_action(self, rec):
        """Index of the logged step during which a traced filesystem action happened."""
        for st in self.log:
            if getattr(st, "op_seq", None) == rec.get("op_seq"):
                return st.index
        return None

    def crashed(self):
        return self.env.crash is not None and self.env.crash.fired is not None

    def restart(self):
        """The process was killed: everything in memory is gone (handles, pending background work);
        the filesystem stays.  Later operations run in a fresh process."""
        self.env.crashed = False
        self.disarm()
        self.env.runtime = None
        self.handles = [None] * len(self.handles)
        self.s = Session(self.w, self.flavour, env=self.env)
        # the step during which the kill happened
        for st in reversed(self.log):
            if st.outcome.kind == "crash":
                self.crash_step = st.index
                break

    # -- observation helpers for oracles
    def content_path_of(self, sri):
        """Path (SBytes) where the library stores this address -- computed by the crate's own code."""
        f = self.s.find_fn("content_path")
        v = self.s.I.run_fn(f, [self.cache(), Ref(ValLoc(sri))])
        return v.sb

    def file_at(self, path_sb, follow=True):
        try:
            return self.env.vfs.lookup(SBytes.of(path_sb), follow)
        except Exception:
            return None

    def tree(self):
        return self.env.vfs.listing()


# ---------------------------------------------------------------------------
# concretisation: symbolic log + model -> runner JSON

class Concretiser:
    def __init__(self, scn, model):
        self.scn = scn
        self.m = model
        self.blob_bytes = {}
        self.blob_seed = {}

    def ev(self, t):
        if not is_sym(t):
            return t
        v = self.m.eval(t, model_completion=True)
        if z3.is_bool(t):
            return z3.is_true(v)
        return v.as_long()

    def blob(self, b):
        if id(b) not in self.blob_bytes:
            # a blob the model makes equal to an earlier one gets the same bytes
            for other in self.scn.blobs.values():
                if other is b or id(other) not in self.blob_bytes:
                    continue
                k = tuple(sorted((id(b), id(other))))
                v = sb._same_vars.get(k)
                if v is not None and z3.is_true(self.m.eval(v, model_completion=True)):
                    self.blob_bytes[id(b)] = self.blob_bytes[id(other)]
                    return self.blob_bytes[id(b)]
            # a blob the model makes equal to concrete bytes (abstract equality decided true) takes those bytes
            for name, (var, c1, c2) in sb.EQ_PAIRS.items():
                try:
                    if not z3.is_true(self.m.eval(var, model_completion=True)):
                        continue
                except z3.Z3Exception:
                    continue
                for x, y in ((c1, c2), (c2, c1)):
                    if len(x.segs) == 1 and isinstance(x.segs[0], sb.BlobSeg) and x.segs[0].blob is b and y.is_concrete() \
                            and self.ev(x.segs[0].a) == 0 and self.ev(x.segs[0].b) == self.ev(b.len):
                        self.blob_bytes[id(b)] = y.concrete()
                        return self.blob_bytes[id(b)]
            n = self.ev(b.len)
            if n > (64 << 20):
                raise Unreplayable("blob %s of %d bytes" % (b.name, n))
            # The model takes distinct digests to lie in distinct first-level directories (stated
            # assumption).  Pick generated bytes that respect it, so that a replay does not run into a
            # 1-in-256 coincidence the model did not intend.
            seed = b.seed
            partner = None
            for pair, digits in sb.SHARED_PREFIX.items():
                if b.name in pair:
                    o = self.scn.blobs.get(next(iter(pair - {b.name})))
                    if o is not None and id(o) in self.blob_bytes:
                        partner = (self.blob_bytes[id(o)], digits)
            if partner is not None:
                # the scenario wants sha256(data) to share its first `digits` hex digits with the partner's
                # digest (and to differ right after): search the generator's seeds
                want = hashlib.sha256(partner[0]).hexdigest()
                k = partner[1]
                for _try in range(400000):
                    data = gen_bytes(seed, n)
                    h = hashlib.sha256(data).hexdigest()
                    if h[:k] == want[:k] and h[k:k + 2] != want[k:k + 2] and data != partner[0]:
                        break
                    seed += 1000
                else:
                    raise Unreplayable("no generated data shares the shard directory")
            else:
                for _try in range(64):
                    data = gen_bytes(seed, n)
                    if not self._prefix_clash(data):
                        break
                    seed += 1000
            self.blob_seed[id(b)] = seed
            self.blob_bytes[id(b)] = data
        return self.blob_bytes[id(b)]

    def _prefix_clash(self, data):
        others = [x for x in self.blob_bytes.values() if x != data]
        if data:
            others = others + [b""]       # the empty string cannot be re-drawn: keep clear of its digests' directories too
        if not others:
            return False
        for algo in ("sha1", "sha256", "sha384", "sha512"):
            mine = hashlib.new(algo, data).digest()[0]
            if any(hashlib.new(algo, x).digest()[0] == mine for x in others):
                return True
        return False

    def bytes_of(self, s):
        s = SBytes.of(s)
        out = bytearray()
        for seg in s.segs:
            if isinstance(seg, bytes):
                out += seg
            elif isinstance(seg, sb.BlobSeg):
                out += self.blob(seg.blob)[self.ev(seg.a):self.ev(seg.b)]
            elif isinstance(seg, sb.Fill):
                out += bytes([seg.byte]) * self.ev(seg.n)
            elif isinstance(seg, sb.SymByte):
                out.append(self.ev(seg.bv))
            elif isinstance(seg, sb.CutSeg):
                out += seg.data[seg.lo:self.ev(seg.hi)]
            elif isinstance(seg, sb.Atom):
                out += self.atom(seg)
            elif isinstance(seg, sb.Junk):
                out += b"\0" * self.ev(seg.n)
            else:
                raise Unreplayable("segment %r" % (seg,))
        return bytes(out)

    def digest(self, d):
        if d.raw is not None:
            return d.raw
        if d.algo == "xxh3":
            raise Unreplayable("xxh3 digest needs the native implementation")
        return hashlib.new(d.algo, self.bytes_of(d.content)).digest()

    def atom(self, a):
        if a.kind == "hex":
            t = self.digest(a.payload).hex().encode()
        elif a.kind == "b64":
            t = base64.b64encode(self.digest(a.payload))
        elif a.kind == "dec":
            return str(self.ev(a.payload[0])).encode()
        elif a.kind == "json":
            raise Unreplayable("opaque json atom")
        else:
            raise Unreplayable("atom %s" % a.kind)
        return t if a.a is None else t[a.a:a.b]

    def data_spec(self, s):
        s = SBytes.of(s)
        if len(s.segs) == 1 and isinstance(s.segs[0], sb.BlobSeg):
            seg = s.segs[0]
            n = self.ev(seg.blob.len)
            bb = self.blob(seg.blob)
            seed = self.blob_seed.get(id(seg.blob), seg.blob.seed)
            if len(bb) == n and bb == gen_bytes(seed, n):
                return {"gen": seed, "len": n, "a": self.ev(seg.a), "b": self.ev(seg.b)}
            return {"hex": bb[self.ev(seg.a):self.ev(seg.b)].hex()}
        return {"hex": self.bytes_of(s).hex()}

    def sri_spec(self, v):
        if getattr(v, "step", None) is not None:
            return {"ref": v.step}
        spec = getattr(v, "spec", None)
        if spec:
            if "of" in spec:
                return {"of": self.data_spec(spec["of"]), "algo": spec["algo"]}
            if "multi" in spec:
                return {"multi": [self.sri_spec(x) for x in spec["multi"]]}
            if "str" in spec:
                return {"str": spec["str"]}
        return {"str": self.bytes_of(v.display(self.scn.s.I)).decode()}

    def opts_spec(self, opts):
        out = {}
        for k, v in opts.items():
            if k == "algorithm":
                out[k] = v
            elif k == "size":
                out[k] = self.ev(v)
            elif k == "time":
                out[k] = str(self.ev(v))
            elif k == "metadata":
                if v.opaque is not None:
                    raise Unreplayable("opaque metadata")
                out[k] = v.py
            elif k == "raw_metadata":
                out[k] = self.data_spec(v)
            elif k == "integrity":
                out[k] = self.sri_spec(v)
        return out

    def path(self, p):
        if isinstance(p, SBytes):
            p = self.bytes_of(p).decode("utf-8", "surrogateescape")
        if isinstance(p, str):
            if p.startswith(ROOT):
                return "$ROOT" + p[len(ROOT):]
            return p
        raise Unreplayable("path %r" % (p,))

    def step(self, st):
        if st.op == "par":
            return {"op": "par", "procs": [[self.step(x) for x in lg] for lg in st.params["procs"]], "sched": list(st.params["sched"])}
        d = {"op": st.op.replace("_default", "").replace("create_with_algo", "create").replace("link_commit", "commit"), "api": st.api}
        if self.scn.cache_dir != CACHE:
            d["cache"] = self.path(self.scn.cache_dir)
        for k, v in st.params.items():
            if k in ("data",):
                d[k] = self.data_spec(v)
            elif k == "sri":
                d[k] = self.sri_spec(v)
            elif k == "opts":
                d[k] = self.opts_spec(v)
            elif k in ("to", "path", "target"):
                d[k] = self.path(v)
            elif k in ("n", "len", "off", "byte", "bit"):
                d[k] = self.ev(v)
            elif k == "h":
                d[k] = v
            else:
                d[k] = v
        return d

    def _fault_spec(self, fired, k):
        suffix = "*"
        if fired.get("path") is not None:
            p = self.bytes_of(fired["path"]).decode("utf-8", "replace")
            if p.startswith(ROOT + "/"):
                p = p[len(ROOT) + 1:]
            comps = [c for c in p.split("/") if c]
            suffix = "/".join(comps[-2:]) if len(comps) >= 2 else p
            if comps and ".tmp" in comps[-1]:
                suffix = "*"
        return {"mode": "fault", "step": k, "class": fired["kind"], "occurrence": fired["occurrence"],
                "errno": fired["errno"], "short": None, "suffix": suffix}

    def scenario(self, upto=None):
        steps = [self.step(st) for st in self.scn.log[:upto]]
        out = {"flavour": self.scn.flavour, "steps": steps}
        env = self.scn.env
        if env.crash is not None and env.crash.fired is not None:
            fired = env.crash.fired
            k = None
            for st in self.scn.log:
                if st.outcome.kind == "crash":
                    k = st.index
                    break
            if k is None:
                raise Unreplayable("crash outside a logged step")
            out["shim"] = {"mode": "crash", "step": k, "effects": fired["effects"],
                           "torn": None if fired["torn"] is None else self.ev(fired["torn"])}
            if env.fault is not None and env.fault.fired is not None:
                out["shim"]["fault"] = self._fault_spec(env.fault.fired, k)
        elif env.fault is not None and env.fault.fired is not None:
            fired = env.fault.fired
            k = getattr(self.scn, "fault_step", None)
            if k is None:
                raise Unreplayable("fault step unknown")
            suffix = "*"
            if fired.get("path") is not None:
                p = self.bytes_of(fired["path"]).decode("utf-8", "replace")
                if p.startswith(ROOT + "/"):
                    p = p[len(ROOT) + 1:]          # the native root is a temp directory: match relative to it
                comps = [c for c in p.split("/") if c]
                suffix = "/".join(comps[-2:]) if len(comps) >= 2 else p
                if ".tmp" in comps[-1]:
                    suffix = "*"         # temp names are random natively: match by class and occurrence only
            short = None
            if fired.get("short"):
                sv = [t for n, t in self.scn.w.sym_inputs.items() if n.startswith("short")]
                short = self.ev(sv[-1]) if sv else 1
            out["shim"] = {"mode": "fault", "step": k, "class": fired["kind"], "occurrence": fired["occurrence"],
                           "errno": fired["errno"], "short": short, "suffix": suffix}
        return out


class Unreplayable(Exception):
    pass
