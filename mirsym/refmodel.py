"""Independent reference implementation of the cacache on-disk format (index-v5 / content-v2).
Written from the format description in property C17, not from the crate's code."""
import hashlib
import json


def bucket_rel(key):
    h = hashlib.sha1(key.encode("utf-8")).hexdigest()
    return "index-v5/%s/%s/%s" % (h[0:2], h[2:4], h[4:])


def content_rel(algo, digest_hex):
    return "content-v2/%s/%s/%s/%s" % (algo, digest_hex[0:2], digest_hex[2:4], digest_hex[4:])


def json_text(v):
    """Compact JSON as serde_json prints it for the restricted value domain."""
    if v is None:
        return "null"
    if v is True:
        return "true"
    if v is False:
        return "false"
    if isinstance(v, int):
        return str(v)
    if isinstance(v, float):
        return repr(v)
    if isinstance(v, str):
        out = ['"']
        for ch in v:
            o = ord(ch)
            if ch == '"':
                out.append('\\"')
            elif ch == "\\":
                out.append("\\\\")
            elif ch == "\n":
                out.append("\\n")
            elif ch == "\r":
                out.append("\\r")
            elif ch == "\t":
                out.append("\\t")
            elif o == 8:
                out.append("\\b")
            elif o == 12:
                out.append("\\f")
            elif o < 0x20:
                out.append("\\u%04x" % o)
            else:
                out.append(ch)
        out.append('"')
        return "".join(out)
    if isinstance(v, list):
        return "[" + ",".join(json_text(x) for x in v) + "]"
    if isinstance(v, dict):
        return "{" + ",".join(json_text(k) + ":" + json_text(v[k]) for k in sorted(v)) + "}"
    raise TypeError(v)


def record_json(key, integrity, time, size, metadata=None, raw_metadata=None):
    parts = [
        '"key":' + json_text(key),
        '"integrity":' + (json_text(integrity) if integrity is not None else "null"),
        '"time":' + str(time),
        '"size":' + str(size),
        '"metadata":' + json_text(metadata),
        '"raw_metadata":' + ("null" if raw_metadata is None else "[" + ",".join(str(b) for b in raw_metadata) + "]"),
    ]
    return "{" + ",".join(parts) + "}"


def record_bytes(key, integrity, time, size, metadata=None, raw_metadata=None):
    j = record_json(key, integrity, time, size, metadata, raw_metadata).encode("utf-8")
    return b"\n" + hashlib.sha256(j).hexdigest().encode() + b"\t" + j


def parse_bucket(data):
    """-> list of record dicts that are intact (checksum and JSON valid), in file order."""
    out = []
    for line in data.split(b"\n"):
        if line.endswith(b"\r"):
            line = line[:-1]
        parts = line.split(b"\t")
        if len(parts) != 2:
            continue
        h, j = parts
        try:
            j.decode("utf-8")
            h.decode("utf-8")
        except UnicodeDecodeError:
            continue
        if hashlib.sha256(j).hexdigest().encode() != h:
            continue
        try:
            rec = json.loads(j.decode("utf-8"))
        except ValueError:
            continue
        if not isinstance(rec, dict) or "key" not in rec:
            continue
        out.append(rec)
    return out


def lookup(records, key):
    cur = None
    for r in records:
        if r.get("key") == key:
            cur = r if r.get("integrity") is not None else None
    return cur
