"""Models of ssri (Integrity, IntegrityOpts, IntegrityChecker), digest/sha and base64/hex under the
ideal-hash assumption."""
import base64
import re
import z3

from . import TABLE as T
from ..values import *
from ..interp import BufObj, BytesRef, NONE, SOME, OK, ERR, STD_ENUMS
from .. import sbytes as sb
from ..sbytes import SBytes
from .core import as_sbytes, peel, mk_string, panic, values_eq, split_sbytes, display_of

ALGOS = ["Sha512", "Sha384", "Sha256", "Sha1", "Xxh3"]
STD_ENUMS["ssri::Error"] = ["ParseIntegrityError", "IntegrityCheckError", "HexDecodeError"]


def algo_value(name):
    return Adt("Algorithm", ALGOS.index(name), name)


def algo_name(v):
    v = peel(v)
    return v.vname


class HashV:
    """ssri::Hash { algorithm, digest: String }"""

    def __init__(self, algo, text):
        self.algo = algo            # 'Sha256'
        self.text = SBytes.of(text)  # base64 text (may be an Atom('b64', Digest))

    def getf(self, i):
        # ssri::Hash { algorithm, digest }
        if i == 0:
            return algo_value(self.algo)
        if i == 1:
            return BufObj("String", self.text)
        raise Inconclusive("field %d of ssri::Hash" % i)

    def __repr__(self):
        return "%s-%r" % (self.algo.lower(), self.text)


def hash_eq(I, h1, h2):
    if h1.algo != h2.algo:
        return False
    return sb.content_eq(h1.text, h2.text, I.w)


class IntegrityV:
    rust_type = "Integrity"

    def __init__(self, hashes):
        self.hashes = list(hashes)

    def rust_clone(self, I):
        return IntegrityV(list(self.hashes))

    def getf(self, i):
        # ssri::Integrity { hashes: Vec<Hash> }  (read-only view)
        if i == 0:
            return VecObj(self.hashes)
        raise Inconclusive("field %d of ssri::Integrity" % i)

    def rust_eq(self, I, other):
        other = peel(other)
        if len(self.hashes) != len(other.hashes):
            return False
        r = True
        for a, b in zip(self.hashes, other.hashes):
            r = I._band(r, hash_eq(I, a, b))
        return r

    def display(self, I):
        out = SBytes()
        for k, h in enumerate(self.hashes):
            if k:
                out = out + b" "
            out = out + h.algo.lower().encode() + b"-" + h.text
        return out

    def __repr__(self):
        return "Integrity(%s)" % " ".join(repr(h) for h in self.hashes)


def sort_hashes(hs):
    return sorted(hs, key=lambda h: ALGOS.index(h.algo))


def digest_text(I, algo, content):
    """base64 text of H_algo(content) as SBytes."""
    d = I.env.intern_digest(algo.lower(), content)
    if d.raw is not None:
        return SBytes.of(base64.b64encode(d.raw))
    return SBytes((sb.Atom("b64", d),))


class IntegrityOptsV:
    rust_type = "IntegrityOpts"

    def __init__(self):
        self.hashers = []      # [algo, SBytes]
        self.disturbed = False

    def rust_clone(self, I):
        n = IntegrityOptsV()
        n.hashers = [[a, c] for a, c in self.hashers]
        n.disturbed = self.disturbed
        return n

    def result(self, I):
        return IntegrityV(sort_hashes([HashV(a, digest_text(I, a, c)) for a, c in self.hashers]))


@T.path("ssri::IntegrityOpts::new")
def _opts_new(I, a, d):
    return IntegrityOptsV()


@T.trait("Default", "default", r"IntegrityOpts$")
def _opts_default(I, a, d):
    return IntegrityOptsV()


@T.path("ssri::IntegrityOpts::algorithm")
def _opts_algorithm(I, a, d):
    o = peel(a[0])
    if o.disturbed:
        panic("Can't add new algorithms if IntegrityOpts::input() has already been called")
    o.hashers.append([algo_name(a[1]), SBytes()])
    return o


@T.path("ssri::IntegrityOpts::input")
def _opts_input(I, a, d):
    o = peel(a[0])
    data = as_sbytes(a[1])
    o.disturbed = True
    for h in o.hashers:
        h[1] = h[1] + data
    return UNIT


@T.path("ssri::IntegrityOpts::chain")
def _opts_chain(I, a, d):
    _opts_input(I, a, d)
    return peel(a[0])


@T.path("ssri::IntegrityOpts::result")
def _opts_result(I, a, d):
    return peel(a[0]).result(I)


@T.path("ssri::IntegrityOpts::reset")
def _opts_reset(I, a, d):
    o = peel(a[0])
    o.hashers = []
    o.disturbed = False
    return UNIT


class IntegrityCheckerV:
    rust_type = "IntegrityChecker"

    def __init__(self, sri, builder):
        self.sri = sri
        self.builder = builder


def pick_algorithm(sri):
    if not sri.hashes:
        panic("index out of bounds: the len is 0 but the index is 0")
    return sri.hashes[0].algo


@T.path("ssri::Integrity::pick_algorithm")
def _pick_algorithm(I, a, d):
    return algo_value(pick_algorithm(peel(a[0])))


@T.path("ssri::IntegrityChecker::new")
def _checker_new(I, a, d):
    sri = peel(a[0])
    b = IntegrityOptsV()
    b.hashers.append([pick_algorithm(sri), SBytes()])
    return IntegrityCheckerV(sri, b)


@T.path("ssri::IntegrityChecker::input")
def _checker_input(I, a, d):
    c = peel(a[0])
    return _opts_input(I, [c.builder, a[1]], d)


@T.path("ssri::IntegrityChecker::chain")
def _checker_chain(I, a, d):
    c = peel(a[0])
    _opts_input(I, [c.builder, a[1]], d)
    return c


def checker_result(I, c):
    got = c.builder.result(I)
    algo = pick_algorithm(c.sri)
    for h in c.sri.hashes:
        if h.algo != algo:
            break
        e = hash_eq(I, h, got.hashes[0])
        if I.w.branch(e, "integrity-match"):
            return OK(algo_value(algo))
    return ERR(Adt("ssri::Error", 1, "IntegrityCheckError", [c.sri, got]))


@T.path("ssri::IntegrityChecker::result")
def _checker_result(I, a, d):
    return checker_result(I, peel(a[0]))


@T.path("ssri::Integrity::check")
def _integrity_check(I, a, d):
    sri = peel(a[0])
    b = IntegrityOptsV()
    b.hashers.append([pick_algorithm(sri), SBytes()])
    c = IntegrityCheckerV(sri.rust_clone(I), b)
    _opts_input(I, [b, a[1]], d)
    return checker_result(I, c)


@T.path("ssri::Integrity::matches")
def _integrity_matches(I, a, d):
    me, other = peel(a[0]), peel(a[1])
    algo = pick_algorithm(other)
    for h in me.hashes:
        if h.algo != algo:
            continue
        for i in other.hashes:
            if i.algo != algo:
                continue
            if I.w.branch(hash_eq(I, h, i), "matches"):
                return SOME(algo_value(h.algo))
    return NONE()


@T.path("ssri::Integrity::concat")
def _integrity_concat(I, a, d):
    me, other = peel(a[0]), peel(a[1])
    hs = sort_hashes(me.hashes + other.hashes)
    out = []
    for h in hs:
        if out and I.w.branch(hash_eq(I, out[-1], h), "concat-dedup"):
            continue
        out.append(h)
    return IntegrityV(out)


def b64_decode_strict(txt):
    """BASE64_STANDARD.decode: canonical padding required, no trailing bits."""
    try:
        raw = base64.b64decode(txt, validate=True)
    except Exception:
        return None
    if base64.b64encode(raw) != txt:
        return None
    return raw


@T.path("ssri::Integrity::to_hex")
def _integrity_to_hex(I, a, d):
    sri = peel(a[0])
    if not sri.hashes:
        panic("called `Option::unwrap()` on a `None` value")
    h = sri.hashes[0]
    t = sb.concretise_atoms(h.text)
    if t.is_concrete():
        raw = b64_decode_strict(t.concrete())
        if raw is None:
            panic("called `Result::unwrap()` on an `Err` value: base64 decode")
        hx = mk_string(raw.hex().encode())
    elif len(t.segs) == 1 and isinstance(t.segs[0], sb.Atom) and t.segs[0].kind == "b64" and t.segs[0].a is None:
        hx = mk_string(SBytes((sb.Atom("hex", t.segs[0].payload),)))
    else:
        raise Inconclusive("to_hex of partially symbolic digest text %r" % (t,))
    return Agg("tuple", None, [algo_value(h.algo), hx])


@T.path("ssri::Integrity::from")
def _integrity_from(I, a, d):
    b = IntegrityOptsV()
    b.hashers.append(["Sha256", as_sbytes(a[0])])
    return b.result(I)


def parse_algorithm(txt):
    m = {b"sha1": "Sha1", b"sha256": "Sha256", b"sha384": "Sha384", b"sha512": "Sha512", b"xxh3": "Xxh3"}
    return m.get(txt)


def parse_error(s):
    return ERR(Adt("ssri::Error", 0, "ParseIntegrityError", [mk_string(s)]))


def _is_ws(b):
    return b in b" \t\n\r\x0b\x0c"


def parse_integrity(I, s):
    """FromStr for Integrity over SBytes with atoms."""
    s = sb.concretise_atoms(s)
    if s.has_kind(sb.SymByte) or s.has_kind(sb.BlobSeg) or s.has_kind(sb.Junk):
        raise Inconclusive("parsing integrity text with symbolic bytes")
    # split_whitespace over concrete segments (atoms contain no whitespace)
    tokens = [[]]
    for seg in s.segs:
        if isinstance(seg, bytes):
            cur = b""
            for ch in seg:
                if _is_ws(bytes([ch])):
                    if cur:
                        tokens[-1].append(cur)
                        cur = b""
                    if tokens[-1]:
                        tokens.append([])
                else:
                    cur += bytes([ch])
            if cur:
                tokens[-1].append(cur)
        else:
            tokens[-1].append(seg)
    tokens = [SBytes(t) for t in tokens if t]
    # non-ASCII unicode whitespace is not handled
    hashes = []
    for tok in tokens:
        parts = split_sbytes(tok, 0x2D)    # '-'
        algtxt = parts[0]
        if not algtxt.is_concrete():
            return parse_error(tok)
        alg = parse_algorithm(algtxt.concrete())
        if alg is None:
            return parse_error(algtxt)
        if len(parts) < 2:
            return parse_error(tok)
        hashes.append(HashV(alg, parts[1]))
    return OK(IntegrityV(sort_hashes(hashes)))


@T.trait("FromStr", "from_str", r"Integrity$")
def _integrity_from_str(I, a, d):
    return parse_integrity(I, as_sbytes(a[0]))


@T.trait("FromStr", "from_str", r"Algorithm$")
def _algorithm_from_str(I, a, d):
    s = as_sbytes(a[0])
    if not s.is_concrete():
        raise Inconclusive("Algorithm::from_str on symbolic text")
    alg = parse_algorithm(s.concrete())
    if alg is None:
        return parse_error(s)
    return OK(algo_value(alg))


@T.trait("FromStr", "from_str", r"^(usize|u64|u32|u128|u8|u16)$")
def _int_from_str(I, a, d):
    s = as_sbytes(a[0])
    if s.is_concrete():
        try:
            t = s.concrete().decode()
            if not re.fullmatch(r"\+?[0-9]+", t):
                raise ValueError
            return OK(int(t))
        except (ValueError, UnicodeDecodeError):
            return ERR(Agg("struct", "ParseIntError", []))
    raise Inconclusive("parse int from symbolic text")


@T.trait("Display", "fmt", r"Integrity$|ssri::Error$|Algorithm$")
def _ssri_display_fmt(I, a, d):
    return OK(UNIT)


@T.trait("ToString", "to_string", r"Integrity$")
def _integrity_to_string(I, a, d):
    return mk_string(peel(a[0]).display(I))


@T.trait("ToString", "to_string", r"Algorithm$")
def _algorithm_to_string(I, a, d):
    return mk_string(peel(a[0]).vname.lower().encode())


@T.trait("PartialEq", "eq", r"Algorithm$")
def _algorithm_eq(I, a, d):
    return peel(a[0]).variant == peel(a[1]).variant


@T.trait("PartialEq", "eq", r"ErrorKind$")
def _errorkind_eq(I, a, d):
    return peel(a[0]).vname == peel(a[1]).vname


@T.trait("ToString", "to_string", r"ErrorKind$")
def _errorkind_to_string(I, a, d):
    return mk_string(peel(a[0]).vname.encode())


# ---------------------------------------------------------------------------
# digest crate (sha1 / sha2) as used by hash_key / hash_entry

class HasherV:
    rust_type = "CoreWrapper"

    def __init__(self, algo):
        self.algo = algo
        self.content = SBytes()


class DigestOut:
    rust_type = "GenericArray"

    def __init__(self, digest):
        self.digest = digest

    def as_sbytes(self):
        if self.digest.raw is not None:
            return SBytes.of(self.digest.raw)
        return SBytes((sb.Atom("rawdigest", self.digest),))      # opaque raw digest of symbolic content

    def rust_eq(self, I, other):
        from .core import peel
        o = peel(other)
        if isinstance(o, DigestOut):
            return sb.digest_eq(self.digest, o.digest, I.w)
        from ..interp import BufObj, BytesRef
        if isinstance(o, (BufObj, BytesRef)) and self.digest.raw is not None:
            return sb.content_eq(SBytes.of(self.digest.raw), o.sb, I.w)
        raise Inconclusive("comparison of a symbolic digest with raw bytes")


def _algo_of_self(selfty):
    s = selfty or ""
    for name, algo in (("Sha1", "sha1"), ("Sha256", "sha256"), ("Sha384", "sha384"), ("Sha512", "sha512")):
        if name in s:
            return algo
    return None


@T.trait("Digest", "new")
def _digest_new(I, a, d):
    algo = _algo_of_self(d.get("self"))
    if algo is None:
        # the dump prints the wrapped core type: CoreWrapper<Sha1Core> / CtVariableCoreWrapper<Sha256VarCore, ..>
        raise Inconclusive("digest algorithm of %s" % d.get("self"))
    return HasherV(algo)


@T.trait("Digest", "update")
def _digest_update(I, a, d):
    h = peel(a[0])
    h.content = h.content + as_sbytes(a[1])
    return UNIT


@T.trait("Digest", "chain_update")
def _digest_chain_update(I, a, d):
    h = peel(a[0])
    h.content = h.content + as_sbytes(a[1])
    return h


@T.trait("Digest", "finalize")
def _digest_finalize(I, a, d):
    h = peel(a[0])
    return DigestOut(I.env.intern_digest(h.algo, h.content))


@T.trait("Digest", "digest")
def _digest_digest(I, a, d):
    algo = _algo_of_self(d.get("self"))
    return DigestOut(I.env.intern_digest(algo, as_sbytes(a[0])))
