"""Facts read from cacache's *source text* that the MIR dump refers to but does not contain:
enum variant order, struct field order, and what `impl at file:line` implements."""
import re


def _strip_comments(text):
    # remove // comments and /* */ (no nested handling needed for this crate), keep line structure
    out = []
    i, n = 0, len(text)
    in_str = False
    while i < n:
        c = text[i]
        if in_str:
            out.append(c)
            if c == "\\":
                out.append(text[i + 1])
                i += 2
                continue
            if c == '"':
                in_str = False
            i += 1
            continue
        if c == '"':
            in_str = True
            out.append(c)
            i += 1
            continue
        if text.startswith("//", i):
            j = text.find("\n", i)
            if j < 0:
                j = n
            i = j
            continue
        if text.startswith("/*", i):
            j = text.find("*/", i)
            seg = text[i:j + 2]
            out.append("\n" * seg.count("\n"))
            i = j + 2
            continue
        out.append(c)
        i += 1
    return "".join(out)


def _match_brace(text, i):
    depth = 0
    j = i
    n = len(text)
    while j < n:
        c = text[j]
        if c == '"':
            j += 1
            while j < n and text[j] != '"':
                if text[j] == "\\":
                    j += 1
                j += 1
        elif c == "{":
            depth += 1
        elif c == "}":
            depth -= 1
            if depth == 0:
                return j
        j += 1
    return -1


def _split_top(body):
    out, depth, cur = [], 0, []
    for c in body:
        if c in "([{<":
            depth += 1
        elif c in ")]}>":
            depth -= 1
        if c == "," and depth == 0:
            out.append("".join(cur))
            cur = []
        else:
            cur.append(c)
    if "".join(cur).strip():
        out.append("".join(cur))
    return out


FLAVOUR_FEATURES = {
    "sync": {"mmap", "memmap2", "libc", "link_to"},
    "async-std": {"default", "async-std", "futures", "mmap", "memmap2", "libc", "link_to"},
    "tokio": {"tokio-runtime", "tokio", "tokio-stream", "futures", "mmap", "memmap2", "libc", "link_to"},
}


def cfg_eval(expr, features):
    """Evaluate a #[cfg(...)] predicate for a linux build with the given feature set."""
    expr = expr.strip()
    m = re.fullmatch(r"(any|all|not)\s*\((.*)\)", expr, re.S)
    if m:
        parts = [p for p in _split_top(m.group(2)) if p.strip()]
        vals = [cfg_eval(p, features) for p in parts]
        if m.group(1) == "any":
            return any(vals)
        if m.group(1) == "all":
            return all(vals)
        return not vals[0]
    m = re.fullmatch(r'feature\s*=\s*"([^"]*)"', expr)
    if m:
        return m.group(1) in features
    m = re.fullmatch(r'target_os\s*=\s*"([^"]*)"', expr)
    if m:
        return m.group(1) == "linux"
    if expr == "unix":
        return True
    if expr in ("windows", "test", "kani"):
        return False
    if re.fullmatch(r'target_family\s*=\s*"unix"', expr):
        return True
    return True


def _cfg_active(clean, pos, features):
    """Are all #[cfg(..)] attributes directly preceding position pos satisfied?"""
    pre = clean[:pos].rstrip()
    ok = True
    while True:
        m = re.search(r"#\[([^\[\]]*(?:\[[^\]]*\][^\[\]]*)*)\]\s*(pub(\([^)]*\))?\s*)?$", pre, re.S)
        if not m:
            break
        attr = m.group(1).strip()
        mm = re.fullmatch(r"cfg\s*\((.*)\)", attr, re.S)
        if mm and not cfg_eval(mm.group(1), features):
            ok = False
        pre = pre[:m.start()].rstrip()
    return ok


class SrcInfo:
    def __init__(self, files, flavour="sync"):
        """files: {relative path like 'src/index.rs': text}"""
        self.files = files
        self.features = FLAVOUR_FEATURES[flavour]
        self.enums = {}      # name -> [variant names]   (module-qualified key too)
        self.structs = {}    # name -> [field names]
        self.impls = {}      # (file, line) -> (trait or None, type name)
        self.problems = []
        for path, text in files.items():
            self._scan(path, text)

    def _module_of(self, path):
        p = path
        if p.startswith("src/"):
            p = p[4:]
        if p.endswith(".rs"):
            p = p[:-3]
        parts = p.split("/")
        if parts[-1] in ("mod", "lib"):
            parts = parts[:-1]
        return tuple(parts)

    def _scan(self, path, text):
        clean = _strip_comments(text)
        mod = self._module_of(path)
        for m in re.finditer(r"\benum\s+([A-Za-z_][A-Za-z0-9_]*)\s*(<[^{]*>)?\s*\{", clean):
            if not _cfg_active(clean, m.start(), self.features):
                continue
            j = _match_brace(clean, m.end() - 1)
            body = clean[m.end():j]
            variants = []
            for part in _split_top(body):
                part = re.sub(r"#\[[^\]]*\]", "", part, flags=re.S).strip()
                # nested attribute parens like #[diagnostic(code(..), url(docsrs))]
                part = re.sub(r"#\[.*?\]\s*", "", part, flags=re.S).strip()
                if not part:
                    continue
                mm = re.match(r"([A-Za-z_][A-Za-z0-9_]*)", part)
                if not mm:
                    self.problems.append("enum variant parse %s in %s" % (part[:30], path))
                    continue
                if re.search(r"=\s*[-0-9]", part.split("(")[0].split("{")[0]):
                    self.problems.append("explicit discriminant in enum %s" % m.group(1))
                variants.append(mm.group(1))
            self.enums[mod + (m.group(1),)] = variants
        for m in re.finditer(r"\bstruct\s+([A-Za-z_][A-Za-z0-9_]*)\s*(<[^{(;]*>)?\s*(\{|\(|;)", clean):
            name = m.group(1)
            if not _cfg_active(clean, m.start(), self.features):
                continue
            if m.group(3) == "{":
                j = _match_brace(clean, m.end() - 1)
                body = clean[m.end():j]
                fields = []
                for part in _split_top(body):
                    part = re.sub(r"#\[.*?\]\s*", "", part, flags=re.S).strip()
                    if not part:
                        continue
                    mm = re.match(r"(?:pub(?:\([^)]*\))?\s+)?([A-Za-z_][A-Za-z0-9_]*)\s*:", part)
                    if mm:
                        fields.append(mm.group(1))
                    else:
                        self.problems.append("struct field parse %r in %s" % (part[:30], path))
                self.structs[mod + (name,)] = fields
            elif m.group(3) == "(":
                self.structs[mod + (name,)] = None   # tuple struct: positional
            else:
                self.structs[mod + (name,)] = []
        lines = clean.split("\n")
        for ln, line in enumerate(lines, 1):
            if re.match(r"\s*(unsafe\s+)?impl\b", line):
                # join following lines until '{'
                k = ln - 1
                hdr = ""
                while k < len(lines) and "{" not in hdr:
                    hdr += " " + lines[k]
                    k += 1
                hdr = hdr.split("{")[0]
                hdr = re.sub(r"^\s*(unsafe\s+)?impl\s*(<[^>]*>)?\s*", "", hdr).strip()
                hdr = hdr.split(" where ")[0].strip()
                if " for " in hdr:
                    tr, ty = hdr.split(" for ", 1)
                    tr = tr.strip()
                else:
                    tr, ty = None, hdr
                ty = ty.strip()
                tyname = re.sub(r"<.*", "", ty).split("::")[-1].strip()
                trname = re.sub(r"<.*", "", tr).split("::")[-1].strip() if tr else None
                self.impls[(path, ln)] = (trname, tyname, mod, ty)
        # derive attributes: #[derive(A, B)] on the following struct/enum: impl at the derive's position
        for m in re.finditer(r"#\[derive\(([^)]*)\)\]", clean):
            line_no = clean.count("\n", 0, m.start()) + 1
            # the item name that follows
            mm = re.search(r"\b(struct|enum)\s+([A-Za-z_][A-Za-z0-9_]*)", clean[m.end():])
            if not mm:
                continue
            tyname = mm.group(2)
            # columns of each derive name
            line_start = clean.rfind("\n", 0, m.start()) + 1
            for dm in re.finditer(r"[A-Za-z_][A-Za-z0-9_:]*", m.group(1)):
                col = m.start(1) + dm.start() - line_start + 1
                self.impls[(path, line_no, col)] = (dm.group(0).split("::")[-1], tyname, mod, tyname)

    def impl_self_type(self, impl_seg):
        """Type name of an `<impl at src/file.rs:LINE:COL: ...>` path segment, from the source scan."""
        m = re.match(r"<impl at ([^:]+):(\d+):(\d+)", impl_seg or "")
        if not m:
            return None
        path, line, col = m.group(1), int(m.group(2)), int(m.group(3))
        hit = self.impls.get((path, line)) or self.impls.get((path, line, col))
        return hit[1] if hit else None

    def enum_variants(self, tyname_segs):
        return _suffix_lookup(self.enums, tyname_segs)

    def struct_fields(self, tyname_segs):
        return _suffix_lookup(self.structs, tyname_segs)


def _suffix_lookup(table, segs):
    segs = tuple(segs)
    hits = [(k, v) for k, v in table.items() if k[-len(segs):] == segs or segs[-len(k):] == k]
    if len(hits) == 1:
        return hits[0]
    if not hits:
        return None
    # prefer exact
    for k, v in hits:
        if k == segs:
            return (k, v)
    raise KeyError("ambiguous type name %r: %r" % (segs, [k for k, _ in hits]))
