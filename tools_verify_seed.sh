#!/bin/bash
# usage: tools_verify_seed.sh <worktree> ; confirms: builds 3 flavours, unit tests pass with patch, demo fails with patch, demo passes without
WT=$1
export CARGO_NET_OFFLINE=true CARGO_TARGET_DIR=$WT/target
cd $WT || exit 9
git checkout -q -- src 2>/dev/null
git apply SEEDED/patch.diff || { echo "PATCH-DOES-NOT-APPLY"; exit 9; }
mkdir -p tests; cp SEEDED/seeded_demo.rs tests/seeded_demo.rs 2>/dev/null
ok=1
for f in "" "--no-default-features --features mmap" "--no-default-features --features tokio-runtime,mmap"; do
  cargo build --offline $f >/dev/null 2>&1 || { echo "BUILD-FAIL $f"; ok=0; }
done
cargo test --offline --lib 2>&1 | grep -E "^test result" | head -1
cargo test --offline $DEMO_FEATURES --test seeded_demo >/tmp/seed_with.log 2>&1; rc_with=$?
git checkout -q -- src
cargo test --offline $DEMO_FEATURES --test seeded_demo >/tmp/seed_without.log 2>&1; rc_without=$?
git apply SEEDED/patch.diff
echo "demo_with_patch_rc=$rc_with demo_without_patch_rc=$rc_without builds_ok=$ok"
