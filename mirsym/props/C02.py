"""C02 -- what is written under a key or address is exactly what is read back."""
import z3
from .common import *

BOUNDS = {"data_length": "any (symbolic 64-bit length, 0 .. 2^62)", "chunks": "<= 3 per writer (quick 2), symbolic boundaries, empty chunks allowed",
          "declared_size": "absent or equal to the data length (full range, so the 1 MiB mmap threshold is inside)",
          "algorithms": "all five", "prior_state": "cold cache, or the content address already occupied by an arbitrary wrong file", "keys": "hostile key set (quick: 3, thorough: 11)",
          "outside": "more than 3 chunks; filesystems that perform short writes; internals of modelled crates"}


def oneshot(ctx, key, algo, keyed, api):
    scn = ctx.new_scn(api=api)
    D = scn.blob("D")
    data = scn.whole(D)
    tag = "C02:%s:%s" % (api, "write" if keyed else "write_hash")
    if keyed:
        r = scn.write(key, data, algo=algo)
    else:
        r = scn.write_hash(data, algo=algo)
    a = algo or "Sha256"
    if not expect_sri(ctx, r, data, a, tag, "one-shot write"):
        return
    sri = r.value
    if keyed:
        expect_bytes(ctx, scn.read(key), data, tag + ":read", "read by key after one-shot write")
    expect_bytes(ctx, scn.read_hash(sri), data, tag + ":read_hash", "read by address after one-shot write")


def streamed(ctx, key, algo, keyed, declared, nchunks, api):
    scn = ctx.new_scn(api=api)
    D = scn.blob("D")
    data = scn.whole(D)
    opts = {}
    if algo:
        opts["algorithm"] = algo
    if declared:
        opts["size"] = D.len
    tag = "C02:%s:%s:%s:%dchunks" % (api, "open" if keyed else "open_hash", "declared" if declared else "nosize", nchunks)
    r = scn.open(key, opts) if keyed else scn.open_hash(opts)
    if not expect_ok(ctx, r, tag + ":open", "opening a writer"):
        return
    h = r.handle
    for i, c in enumerate(chunks_of(scn, D, nchunks)):
        if not expect_ok(ctx, scn.hwrite_all(h, c), tag + ":write", "writing chunk %d of %d" % (i + 1, nchunks)):
            return
    r = scn.commit(h)
    a = algo or "Sha256"
    if not expect_sri(ctx, r, data, a, tag + ":commit", "commit of a streamed write"):
        return
    sri = r.value
    if keyed:
        expect_bytes(ctx, scn.read(key), data, tag + ":read", "read by key after streamed write")
    expect_bytes(ctx, scn.read_hash(sri), data, tag + ":read_hash", "read by address after streamed write")


def heal(ctx, keyed, streamed_, api):
    """The content address already holds WRONG bytes (arbitrary file left by damage or an earlier
    incident); writing the data again must still make it readable."""
    scn = ctx.new_scn(api=api)
    D = scn.blob("D")
    data = scn.whole(D)
    tag = "C02:%s:heal:%s:%s" % (api, "keyed" if keyed else "hash", "streamed" if streamed_ else "oneshot")
    r = scn.write_hash(data)
    if r.kind != "ok":
        return
    F = scn.blob("F")
    scn.distinct(D, F)
    scn.fs_set(scn.content_path_of(r.value), scn.whole(F))
    if streamed_:
        r = scn.open("k", {}) if keyed else scn.open_hash({})
        if not expect_ok(ctx, r, tag + ":open", "open"):
            return
        h = r.handle
        if not expect_ok(ctx, scn.hwrite_all(h, data), tag + ":write", "write"):
            return
        r = scn.commit(h)
    else:
        r = scn.write("k", data) if keyed else scn.write_hash(data)
    if not expect_sri(ctx, r, data, "Sha256", tag, "re-writing data whose content address holds wrong bytes"):
        return
    if keyed:
        expect_bytes(ctx, scn.read("k"), data, tag + ":read", "read by key after re-writing over a damaged content file")
    expect_bytes(ctx, scn.read_hash(r.value), data, tag + ":read_hash", "read by address after re-writing over a damaged content file")


def tasks(tier, flavours):
    keys = HOSTILE_KEYS[:3] if tier == "quick" else HOSTILE_KEYS
    algos = [None, "Sha1", "Sha512"] if tier == "quick" else [None] + ALGOS
    out = []
    for fl in flavours:
        apis = ["sync"] if fl == "sync" else ["async", "sync"]
        for api in apis:
            if fl != "sync" and api == "sync" and tier == "quick":
                continue
            for algo in algos:
                for keyed in (True, False):
                    out.append(dict(module="C02", family="oneshot", flavour=fl, params=dict(key=keys[0], algo=algo, keyed=keyed, api=api)))
            for k in keys[1:]:
                out.append(dict(module="C02", family="oneshot", flavour=fl, params=dict(key=k, algo=None, keyed=True, api=api)))
            for keyed in (True, False):
                for st in (True, False):
                    out.append(dict(module="C02", family="heal", flavour=fl, params=dict(keyed=keyed, streamed_=st, api=api)))
            for keyed in (True, False):
                for declared in (False, True):
                    for n in ((1, 2) if tier == "quick" else (1, 2, 3)):
                        out.append(dict(module="C02", family="streamed", flavour=fl,
                                        params=dict(key=keys[0], algo=algos[(n + keyed) % len(algos)], keyed=keyed, declared=declared, nchunks=n, api=api)))
    return out
