#!/bin/bash
# Run every registered quick (or $1=thorough) command on /repo as it stands; print one line per check.
tier=${1:-quick}
cd /verif
export VERIF_SEED=${VERIF_SEED:-1} VERIF_TIER=$tier CARGO_NET_OFFLINE=true
rc_all=0
for id in $(jq -r '.checks[].property_id' MANIFEST.json); do
  cmd=$(jq -r --arg id $id --arg k ${tier}_cmd '.checks[]|select(.property_id==$id)|.[$k]' MANIFEST.json)
  s=$(date +%s)
  out=$(bash -c "$cmd" 2>&1); rc=$?
  e=$(date +%s)
  echo "$id rc=$rc $((e-s))s $(echo "$out" | grep -E '^(C[0-9]+ tier|VIOLATION|KNOWN-FINDING)' | tr '\n' ' ')"
  [ $rc -ne 0 ] && rc_all=1
done
exit $rc_all
