"""Shared pieces of the property scripts."""
import base64
import hashlib
import z3

from ..values import *
from ..interp import BufObj, BytesRef
from .. import sbytes as sb
from ..sbytes import SBytes
from ..models.core import as_sbytes, values_eq
from ..models.ssri import IntegrityV
from ..check import nat_bytes, PathEnd
from ..scn import ROOT, CACHE
from ..engine import err_class

HOSTILE_KEYS = ["a", "k\t\u00e9\n\"\\", "../../x", "", "/abs", "A", "\u00e9", "e\u0301", "x" * 300, "nul\0key", "b"]
ALGOS = ["Sha256", "Sha1", "Sha512", "Sha384", "Xxh3"]
MMAP_MAX = 1024 * 1024

ASSUMPTIONS = [
    "ideal hash: for each algorithm H(x)=H(y) iff x=y on the inputs hashed in a run; digests of symbolic data are uninterpreted atoms",
    "library calls leaving the crate (std::fs, tempfile, ssri, serde_json, memmap2, walkdir, reflink-copy, libc) behave as their models in mirsym/models; "
    "the models are validated differentially against the native build (mirsym.validate) but not verified",
    "rename(2) and a single write(2) on an O_APPEND descriptor are atomic; a healthy filesystem performs full writes",
    "the MIR dump of rustc nightly (dev profile, overflow checks on) is the semantics of the crate",
    "cache data is opaque to the crate: blobs are uninterpreted byte strings of symbolic length",
]


def ok_spec(step):
    return {"kind": "outcome_in", "step": step, "allowed": ["ok"]}


def last(scn):
    return len(scn.log) - 1


def expect_ok(ctx, out, sig, what):
    """The operation must succeed."""
    step = last(ctx.scn)
    good = out.kind == "ok"
    if not good:
        detail = err_class(out.value) if out.kind == "err" else (out.detail or "")
        ctx.expect(False, "%s:%s" % (sig, out.kind), "%s: expected success, got %s %s" % (what, out.kind, detail), native=ok_spec(step))
    else:
        ctx.expect(True, sig, what)
    return good


def expect_no_panic(ctx, out, sig, what):
    step = last(ctx.scn)
    if out.kind in ("panic", "abort", "hang"):
        ctx.expect(False, "%s:%s" % (sig, out.kind), "%s: %s (%s)" % (what, out.kind, out.detail),
                   native={"kind": "outcome_in", "step": step, "allowed": ["ok", "err"]})
        return False
    ctx.expect(True, sig, what)
    return True


def expect_bytes(ctx, out, data, sig, what):
    """out must be Ok(bytes) with bytes == data."""
    step = last(ctx.scn)
    if not expect_ok(ctx, out, sig, what):
        return False
    got = as_sbytes(out.value)
    e = sb.content_eq(got, SBytes.of(data), ctx.w)
    return ctx.expect(e, sig + ":bytes", "%s: returned bytes differ from the stored data" % what,
                      native=lambda cz: nat_bytes(cz, step, data))


def sri_text(cz, data, algo):
    b = cz.bytes_of(data)
    if algo == "Xxh3":
        return None
    return "%s-%s" % (algo.lower(), base64.b64encode(hashlib.new(algo.lower(), b).digest()).decode())


def expect_sri(ctx, out, data, algo, sig, what):
    """out must be Ok(Integrity) == single hash (algo, H(data))."""
    step = last(ctx.scn)
    if not expect_ok(ctx, out, sig, what):
        return False
    want = ctx.scn.sri_of(data, algo)
    e = out.value.rust_eq(ctx.scn.s.I, want)

    def nat(cz):
        t = sri_text(cz, data, algo)
        if t is None:
            return {"kind": "unreplayable", "why": "xxh3 digest has no independent implementation here"}
        return {"kind": "value_is", "step": step, "value": {"sri": t}}
    return ctx.expect(e, sig + ":sri", "%s: returned integrity is not the %s digest of the data" % (what, algo), native=nat)


def chunks_of(scn, blob, n, prefix="cut"):
    """Split a blob into n chunks at symbolic, ordered cut points (empty chunks allowed)."""
    cuts = [0]
    for i in range(n - 1):
        c = scn.sym("%s%d" % (prefix, i), 64)
        scn.w.assume(z3.ULE(sb._bv(cuts[-1]), c))
        scn.w.assume(z3.ULE(c, sb._bv(blob.len)))
        cuts.append(c)
    cuts.append(blob.len)
    return [scn.cut(blob, cuts[i], cuts[i + 1]) for i in range(n)]
