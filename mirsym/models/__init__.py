"""Registry of environment models: every callee that leaves the crate."""
import re
from ..values import Inconclusive
from ..parse import path_segments, strip_generics


class ModelTable:
    def __init__(self):
        self.paths = {}     # segs tuple -> (fn, name)
        self.traits = {}    # (trait, method) -> [(selfpat or None, fn, name)]
        self.consts = {}
        self.structs = {}

    # -- registration
    def path(self, *names):
        def deco(fn):
            for n in names:
                self.paths[tuple(n.split("::"))] = (fn, n)
            return fn
        return deco

    def trait(self, trait, method, self_pat=None):
        def deco(fn):
            self.traits.setdefault((trait, method), []).append((self_pat, fn, "<%s as %s>::%s" % (self_pat or "_", trait, method)))
            return fn
        return deco

    # -- lookup
    def lookup_path(self, segs):
        segs = tuple(segs)
        if segs in self.paths:
            return self.paths[segs]
        hits = []
        for k, v in self.paths.items():
            n = min(len(k), len(segs))
            if k[-n:] == segs[-n:]:
                hits.append((k, v))
        if not hits:
            return None
        if len({id(h[1][0]) for h in hits}) == 1:
            return hits[0][1]
        # prefer the key that is fully contained (key is a suffix of the call path)
        inner = [h for h in hits if len(h[0]) <= len(segs)]
        if inner and len({id(h[1][0]) for h in inner}) == 1:
            return inner[0][1]
        # a bare function name (trimmed path) is a free function: associated functions are printed as Type::name
        if len(segs) == 1:
            free = [h for h in hits if len(h[0]) >= 2 and not h[0][-2][:1].isupper()]
            if free and len({id(h[1][0]) for h in free}) == 1:
                return free[0][1]
        # a trimmed path is unique in the build that printed it; in the sync build that is std's item
        stdhits = [h for h in hits if h[0][0] in ("std", "core", "alloc")]
        if stdhits and len({id(h[1][0]) for h in stdhits}) == 1 and segs[0] not in ("async_std", "tokio", "futures"):
            return stdhits[0][1]
        raise Inconclusive("ambiguous model for %s: %s" % ("::".join(segs), ["::".join(h[0]) for h in hits]))

    def lookup_trait(self, trait, method, selfty, recv=None):
        cands = self.traits.get((trait, method))
        if not cands:
            return None
        base = None
        if selfty is not None:
            base = strip_generics(selfty.strip().lstrip("&").replace("mut ", "").strip())
        default = None
        for pat, fn, name in cands:
            if pat is None:
                default = (fn, name)
                continue
            if base is not None and re.search(pat, base):
                return (fn, name)
            if recv is not None and _recv_matches(pat, recv):
                return (fn, name)
        return default

    def named_const(self, I, name):
        fn = self.consts.get(name) or self.consts.get(name.split("::")[-1])
        return fn(I) if fn else None

    def struct_fields(self, name):
        return self.structs.get(name)


def _recv_matches(pat, recv):
    from ..values import Ref
    v = recv
    while isinstance(v, Ref):
        v = v.get()
    rt = getattr(v, "rust_type", None) or getattr(v, "kind", None) or type(v).__name__
    return bool(re.search(pat, str(rt)))


TABLE = ModelTable()
