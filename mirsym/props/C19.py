"""C19 -- linked entries (link_to) read back verified target bytes, never copy or clobber."""
import z3
from .common import *
from ..models.serde import JsonValue

BOUNDS = {"targets": "content of any length (0 .. beyond the 16 KiB read buffer; reads through the linker bounded to 3 data reads per file, so "
                     "<= 8 + 2x16 KiB go through consume(); larger targets stated as outside), absolute path, relative path with the working "
                     "directory elsewhere, or a path that goes through a directory symlink followed by '..'",
          "histories": "link by key / by address, optional partial reads through the linker before commit, then target left alone / rewritten with "
                       "other bytes / removed / replaced by another file; address already present as regular content; re-linking",
          "options": "declared size (symbolic) and integrity enforced as for ordinary writes",
          "outside": "targets on other filesystems; Windows symlink semantics"}

TARGET = ROOT + "/data/target-file"


def link_family(ctx, keyed, relative, partial, after, api):
    scn = ctx.new_scn(api=api)
    I = scn.s.I
    D = scn.blob("D")
    data = scn.whole(D)
    spelling = {False: "abs", True: "rel", "dotdot": "dotdot-after-dir-symlink"}[relative]
    tag = "C19:%s:%s:%s:%s:%s" % (api, "keyed" if keyed else "hash", spelling, "partial" if partial else "direct", after)
    TARGET = ROOT + "/data/target-file"
    if relative == "dotdot":
        # the caller spells the target through a directory symlink followed by '..': the operating system resolves
        # <root>/data/alias/../target-file to <root>/elsewhere/target-file (alias -> <root>/elsewhere/sub), which is not
        # what folding the '..' textually gives (<root>/data/target-file holds other bytes)
        TARGET = ROOT + "/elsewhere/target-file"
        scn.fs_mkdir_p(ROOT + "/elsewhere/sub")
        scn.fs_mkdir_p(ROOT + "/data")
        scn.fs_symlink(ROOT + "/elsewhere/sub", ROOT + "/data/alias")
        X = scn.blob("X")
        scn.distinct(X, D)
        scn.fs_write(ROOT + "/data/target-file", scn.whole(X))
    scn.fs_write(TARGET, data)
    tino = scn.file_at(SBytes.of(TARGET))
    tpath = TARGET if relative != "dotdot" else ROOT + "/data/alias/../target-file"
    if relative is True:
        # the caller's working directory is the target's directory; the cache lives elsewhere
        scn.chdir(ROOT + "/data")
        tpath = "target-file"
    mark = len(scn.env.trace)
    if partial:
        r = scn.link_open("k", tpath, {}) if keyed else scn.link_open_hash(tpath, {})
        if not expect_ok(ctx, r, tag + ":open", "opening a linker"):
            return
        out = scn.hread(r.handle, scn.sym("n", 64, lo=0, hi=4096))
        if not expect_ok(ctx, out, tag + ":read", "reading through the linker"):
            return
        r = scn.commit(r.handle)
    else:
        r = scn.link_to("k", tpath) if keyed else scn.link_to_hash(tpath)
    if not expect_sri(ctx, r, data, "Sha256", tag + ":link", "link_to"):
        return
    sri = r.value
    # nothing copied, target untouched
    cp = scn.content_path_of(sri)
    ino = scn.file_at(cp, follow=False)
    ctx.expect(ino is not None and ino.kind == "symlink", tag + ":not-a-link", "the content address is not a symbolic link to the target (data copied?)",
               native=lambda cz: {"kind": "tree_file", "path": cz.bytes_of(cp).decode()[len(ROOT) + 1:], "type": "symlink"})
    for rec in scn.env.trace[mark:]:
        if rec.get("mutating") and rec.get("done") and isinstance(rec.get("path"), SBytes) and rec["kind"] != "symlink":
            hit = sb.content_eq(rec["path"], SBytes.of(TARGET), ctx.w) is True or (relative is True and rec["path"].key() == SBytes.of("target-file").key())
            ctx.expect(not hit, tag + ":target-touched", "link_to modified the target file (%s)" % rec["kind"], native={"kind": "unreplayable", "why": "trace-level"})
    ctx.expect(sb.content_eq(tino.sb, data, ctx.w), tag + ":target-changed", "the target's bytes changed", native=None)
    if relative is True:
        scn.chdir(ROOT)      # readers run from another working directory
    if keyed:
        md = scn.metadata("k")
        mstep = last(scn)
        if expect_ok(ctx, md, tag + ":meta", "metadata of a linked entry") and md.value.vname == "Some":
            sz = md.value.fields[0].fields[3]
            ctx.expect(sb._bv(sz) == sb._bv(D.len), tag + ":size", "the recorded size is not the target's length",
                       native=lambda cz: {"kind": "meta_field", "step": mstep, "field": "size", "value": cz.ev(D.len)})
        else:
            ctx.expect(False, tag + ":no-entry", "no index entry after link_to", native={"kind": "not", "of": {"kind": "value_is", "step": mstep, "value": {"meta": None}}})
    if after == "intact":
        if keyed:
            expect_bytes(ctx, scn.read("k"), data, tag + ":read", "read by key of a linked entry")
        expect_bytes(ctx, scn.read_hash(sri), data, tag + ":read-hash", "read by address of a linked entry")
        return
    E = scn.blob("E")
    scn.distinct(E, D)
    if after == "rewritten":
        scn.fs_set(TARGET, scn.whole(E))
    elif after == "removed":
        scn.fs_remove(TARGET)
    elif after == "replaced":
        scn.fs_remove(TARGET)
        scn.fs_write(TARGET, scn.whole(E))
    for what, out in ((("read by key", scn.read("k")),) if keyed else ()) + (("read by address", scn.read_hash(sri)),):
        step = last(scn)
        if not expect_no_panic(ctx, out, tag + ":after", what):
            return
        if out.kind == "ok":
            e = sb.content_eq(as_sbytes(out.value), data, ctx.w)
            ctx.expect(e, tag + ":stale-bytes", "%s returned bytes that are not the link-time content after the target was %s" % (what, after),
                       native=lambda cz, step=step: {"kind": "any", "of": [nat_bytes(cz, step, data), {"kind": "outcome_in", "step": step, "allowed": ["err"]}]})


def link_twins(ctx, after, api):
    """Two different files with identical bytes are linked under two keys; what happens to the second file
    later must not affect the first entry (whichever file the shared address points at must stay readable as
    long as that file is intact)."""
    scn = ctx.new_scn(api=api)
    D = scn.blob("D", max_len=8)       # short targets: the chunking of the verification read is C19's other families' subject
    data = scn.whole(D)
    tag = "C19:%s:twins:%s" % (api, after)
    first, second = ROOT + "/data/first.bin", ROOT + "/data/second.bin"
    scn.fs_write(first, data)
    scn.fs_write(second, data)
    r1 = scn.link_to("first", first)
    if not expect_sri(ctx, r1, data, "Sha256", tag + ":link1", "link_to of the first file"):
        return
    if after == "first-removed-relink":
        # the first target disappears (its content symlink now dangles), then an intact file with the same bytes
        # is linked: the call may refuse (a returned error is truthful), but if it reports success the new key
        # and the returned address must read back the intact file's bytes
        scn.fs_remove(first)
        r2 = scn.link_to("second", second)
        if not expect_no_panic(ctx, r2, tag + ":link2", "link_to of an intact twin after the first target was removed"):
            return
        if r2.kind != "ok":
            return
        if not expect_sri(ctx, r2, data, "Sha256", tag + ":link2", "link_to of an intact twin after the first target was removed"):
            return
        expect_bytes(ctx, scn.read("second"), data, tag + ":read-second", "read of the entry that link_to reported as linked to an intact file")
        expect_bytes(ctx, scn.read_hash(r2.value), data, tag + ":read-hash", "read by the address link_to returned for an intact file")
        return
    r2 = scn.link_to("second", second)
    if not expect_sri(ctx, r2, data, "Sha256", tag + ":link2", "link_to of an identical second file"):
        return
    E = scn.blob("E")
    scn.distinct(E, D)
    if after == "second-removed":
        scn.fs_remove(second)
    elif after == "second-rewritten":
        scn.fs_set(second, scn.whole(E))
    expect_bytes(ctx, scn.read("first"), data, tag + ":read-first", "read of the first linked entry after the second file was %s" % after.split("-")[1])
    expect_bytes(ctx, scn.read_hash(r1.value), data, tag + ":read-hash", "read by address after the second file was %s" % after.split("-")[1])


def link_options(ctx, which, api):
    """Declared size / integrity are enforced; an address that already exists as regular content stays regular."""
    scn = ctx.new_scn(api=api)
    D = scn.blob("D")
    data = scn.whole(D)
    tag = "C19:%s:options:%s" % (api, which)
    scn.fs_write(TARGET, data)
    if which == "size":
        S = scn.sym("declared", 64)
        r = scn.link_open("k", TARGET, {"size": S})
        if not expect_ok(ctx, r, tag + ":open", "open"):
            return
        out = scn.commit(r.handle)
        step = last(scn)
        if not expect_no_panic(ctx, out, tag + ":commit", "commit"):
            return
        match = ctx.w.branch(S == sb._bv(D.len), "declared==len")
        if match:
            expect_ok(ctx, out, tag + ":accept", "commit with the true size")
        else:
            good = out.kind == "err" and err_class(out.value) == "SizeMismatch"
            ctx.expect(good, tag + ":size-not-enforced", "a link with a wrong declared size was not rejected with SizeMismatch",
                       native={"kind": "err_variant", "step": step, "variants": ["SizeMismatch"]})
            md = scn.metadata("k")
            if expect_ok(ctx, md, tag + ":meta", "lookup"):
                ctx.expect(md.value.vname == "None", tag + ":mapped", "a rejected link left an index entry", native={"kind": "value_is", "step": last(scn), "value": {"meta": None}})
    elif which == "integrity":
        E = scn.blob("E")
        scn.distinct(E, D)
        r = scn.link_open("k", TARGET, {"integrity": scn.sri_of(scn.whole(E))})
        if not expect_ok(ctx, r, tag + ":open", "open"):
            return
        out = scn.commit(r.handle)
        step = last(scn)
        good = out.kind == "err" and err_class(out.value) == "IntegrityError"
        ctx.expect(good, tag + ":integrity-not-enforced", "a link whose target does not match the declared integrity was not rejected",
                   native={"kind": "err_variant", "step": step, "variants": ["IntegrityError"]})
    elif which in ("multi-wrong-strong", "multi-right"):
        # a declared integrity with two hashes while the linker is told to use the weaker algorithm: the strongest
        # declared hash decides, exactly as for ordinary writes
        E = scn.blob("E")
        scn.distinct(E, D)
        strong = scn.sri_of(scn.whole(E if which == "multi-wrong-strong" else D), "Sha512")
        weak = scn.sri_of(data, "Sha256")
        r = scn.link_open("k", TARGET, {"algorithm": "Sha256", "integrity": scn.sri_multi(strong, weak)})
        if not expect_ok(ctx, r, tag + ":open", "open"):
            return
        out = scn.commit(r.handle)
        step = last(scn)
        if not expect_no_panic(ctx, out, tag + ":commit", "commit"):
            return
        if which == "multi-wrong-strong":
            good = out.kind == "err" and err_class(out.value) == "IntegrityError"
            ctx.expect(good, tag + ":integrity-not-enforced", "a link whose target does not match the strongest declared hash was not rejected",
                       native={"kind": "err_variant", "step": step, "variants": ["IntegrityError"]})
        elif out.kind == "ok":
            expect_bytes(ctx, scn.read("k"), data, tag + ":read", "read by key after linking with a two-hash integrity")
    elif which == "existing-content":
        r0 = scn.write_hash(data)
        if r0.kind != "ok":
            return
        cp = scn.content_path_of(r0.value)
        r = scn.link_to("k", TARGET)
        if not expect_sri(ctx, r, data, "Sha256", tag + ":link", "link_to when the address already holds regular content"):
            return
        ino = scn.file_at(cp, follow=False)
        ctx.expect(ino is not None and ino.kind == "file" and sb.content_eq(ino.sb, data, ctx.w) is True, tag + ":clobbered",
                   "linking clobbered the regular content file already stored at that address", native={"kind": "tree_content_valid"})
        expect_bytes(ctx, scn.read("k"), data, tag + ":read", "read by key")
        # the target disappearing later must not matter: the regular copy serves the reads
        scn.fs_remove(TARGET)
        expect_bytes(ctx, scn.read("k"), data, tag + ":read-after-target-gone", "read by key after the target was removed (regular copy exists)")


def tasks(tier, flavours):
    out = []
    for fl in flavours:
        api = "sync" if fl == "sync" else "async"
        for keyed in (True, False):
            for relative in (False, True):
                for partial in (False, True):
                    for after in ("intact", "rewritten", "removed", "replaced"):
                        if tier == "quick" and fl != "sync" and (partial and after != "intact"):
                            continue
                        if tier == "quick" and relative and after in ("removed", "replaced"):
                            continue
                        out.append(dict(module="C19", family="link_family", flavour=fl, params=dict(keyed=keyed, relative=relative, partial=partial, after=after, api=api)))
        for keyed in (True, False):
            for after in ("intact", "rewritten"):
                if tier == "quick" and fl != "sync" and not keyed:
                    continue
                out.append(dict(module="C19", family="link_family", flavour=fl, params=dict(keyed=keyed, relative="dotdot", partial=False, after=after, api=api)))
        for after in ("second-removed", "second-rewritten", "first-removed-relink"):
            out.append(dict(module="C19", family="link_twins", flavour=fl, params=dict(after=after, api=api)))
        for which in ("size", "integrity", "existing-content", "multi-wrong-strong", "multi-right"):
            out.append(dict(module="C19", family="link_options", flavour=fl, params=dict(which=which, api=api)))
    return out
