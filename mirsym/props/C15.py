"""C15 -- effects stay inside the cache directory; keys are opaque; reads do not mutate."""
import re
import z3
from .common import *
from ..models.serde import JsonValue
from ..models.fs import comp_key, path_components

BOUNDS = {"keys": "hostile / confusable key set (path separators, '..', absolute paths, NUL, control characters, case and Unicode-normalisation twins, long keys)",
          "operations": "every public operation: writes (one-shot/streamed), reads, streamed reads, extraction, metadata, exists, list, remove, remove_hash, "
                        "remove_fully (also as the only entry and on a tombstoned key), clear, link_to",
          "observation": "every filesystem action the crate requests at the library-call boundary (path-taking or descriptor-writing), "
                         "with the paths it passes; what the modelled crates do below that boundary is outside the claim",
          "data": "any length", "cache_location": "a directory whose parent directories are otherwise empty (so that over-eager cleanup would be visible)"}

NEIGHBOURS = [".dest.partial", ".dest.tmp", "dest.tmp", "dest.partial", "dest~", ".dest.swp", "other"]
TWINS = [("A", "a"), ("\u00e9", "e\u0301"), ("k/..", "k"), ("x\0y", "x")]
ALLOWED = re.compile(rb"^(tmp|index-v5|content-v2|sha1|sha256|sha384|sha512|xxh3|\.tmp[0-9A-Za-z]+|[0-9a-f]{2}|[0-9a-f]{8,})$")


def check_trace(ctx, scn, tag, mark, what, extra_ok=(), readonly=False, key=None, cache_dir=None, native_outside=None):
    cache_comps = path_components(SBytes.of(cache_dir or CACHE))[1]
    for rec in scn.env.trace[mark:]:
        if not rec.get("mutating"):
            continue
        step = scn.step_of_action(rec)
        if readonly:
            ctx.expect(False, tag + ":mutates:" + rec["kind"], "%s performed a mutating filesystem action (%s)" % (what, rec["kind"]),
                       native={"kind": "step_leaves_tree_unchanged", "step": step} if (step is not None and rec.get("done")) else
                       {"kind": "unreplayable", "why": "trace-level expectation"})
            return
        for p in (rec.get("path"), rec.get("path2") if rec["kind"] in ("rename", "link", "ficlone", "reflink") else None):
            if not isinstance(p, SBytes):
                continue
            pc = sb.concretise_atoms(p)
            if any(pc.key() == SBytes.of(x).key() for x in extra_ok):
                continue
            is_abs, comps = path_components(pc)
            inside = is_abs and len(comps) >= len(cache_comps) and all(a.key() == b.key() for a, b in zip(comps, cache_comps))
            if not inside:
                nat, shim = native_outside or {"kind": "tree_eq_outside_untouched"}, None
                if pc.is_concrete() and pc.concrete().startswith((ROOT + "/systmp/").encode()) and rec.get("done") and step is not None:
                    # a file in the system temp directory: usually gone again when the call returns, so the process is
                    # killed right after that action and the directory inspected
                    nat = {"kind": "tree_no_systmp"}
                    shim = {"mode": "crash", "step": step, "effects": rec["effects_before"] + 1, "torn": None}
                ctx.expect(False, tag + ":outside:" + rec["kind"], "%s touched a path outside the cache directory: %r" % (what, pc),
                           native=nat, shim=shim)
                return
            for c in comps[len(cache_comps):]:
                txt = sb.concretise_atoms(c)
                if txt.is_concrete():
                    okc = bool(ALLOWED.match(txt.concrete()))
                else:
                    okc = all(isinstance(s, sb.Atom) and s.kind == "hex" for s in txt.segs)
                if not okc:
                    ctx.expect(False, tag + ":component", "%s used a path component that is not a fixed name, an algorithm, a digest slice or a temp name: %r" % (what, txt),
                               native={"kind": "unreplayable", "why": "trace-level expectation"})
                    return
                if key and txt.is_concrete() and len(key.encode("utf-8")) >= 3 and key.encode("utf-8") in txt.concrete():
                    ctx.expect(False, tag + ":key-in-path", "%s used the key text in a path" % what, native={"kind": "unreplayable", "why": "trace-level"})
                    return
    ctx.expect(True, tag + ":trace", what)


def confined(ctx, key, op, api):
    scn = ctx.new_scn(api=api)
    D = scn.blob("D")
    data = scn.whole(D)
    tag = "C15:%s:%s" % (api, op)
    # a neighbour file and directory next to the cache: must never be touched
    scn.fs_write(ROOT + "/neighbour.txt", b"keep me")
    mark0 = len(scn.env.trace)
    if op.endswith("_tmp_is_file"):
        # the cache's tmp/ is unusable (a regular file sits there): a write may fail, but it may not go and
        # stage its data anywhere else
        scn.write("seed", b"seed data")
        scn.fs_remove_dir_all(CACHE + "/tmp")
        scn.fs_write(CACHE + "/tmp", b"i am a file")
        op = op[:-len("_tmp_is_file")]
        tag += ":tmp-is-file"
    if op in ("write", "write_hash", "streamed"):
        mark = len(scn.env.trace)
        if op == "write":
            out = scn.write(key, data)
        elif op == "write_hash":
            out = scn.write_hash(data)
        else:
            r = scn.open(key, {"metadata": JsonValue({"k": key})})
            out = r
            if r.kind == "ok":
                scn.hwrite_all(r.handle, data)
                out = scn.commit(r.handle)
        expect_no_panic(ctx, out, tag, op)
        check_trace(ctx, scn, tag, mark, op, key=key)
        return
    r = scn.write(key, data)
    if r.kind != "ok":
        return
    sri = r.value
    if op.endswith("_after_remove"):
        # the key was removed (a tombstone is all its bucket ends with): lookups stay read-only
        if scn.remove(key).kind != "ok":
            return
        op = op[:-len("_after_remove")]
        tag += ":after-remove"
    mark = len(scn.env.trace)
    ro = False
    extra = ()
    if op == "read":
        out = scn.read(key); ro = True
    elif op == "read_hash":
        out = scn.read_hash(sri); ro = True
    elif op == "metadata":
        out = scn.metadata(key); ro = True
    elif op == "exists":
        out = scn.exists(sri); ro = True
    elif op == "list":
        out = scn.list(); ro = True
    elif op == "stream":
        r2 = scn.ropen(key)
        out = r2
        if r2.kind == "ok":
            scn.hread(r2.handle, scn.sym("n", 64, lo=0, hi=4096))
            out = scn.check(r2.handle)
        ro = True
    elif op in ("copy", "hard_link", "reflink"):
        out = scn.extract(op, ROOT + "/dest", key=key)
        extra = (ROOT + "/dest",)
    elif op in ("copy_over", "hard_link_over", "reflink_over"):
        # the destination exists already and has neighbours with temporary-looking names: the extraction may
        # replace the destination, and nothing else
        import hashlib
        scn.fs_mkdir_p(ROOT + "/outdir")
        G = scn.blob("G")
        scn.fs_write(ROOT + "/outdir/dest", scn.whole(G))
        for nm in NEIGHBOURS:
            scn.fs_write(ROOT + "/outdir/" + nm, b"mine:" + nm.encode())
        mark = len(scn.env.trace)
        out = scn.extract(op[:-5], ROOT + "/outdir/dest", key=key)
        extra = (ROOT + "/outdir/dest",)
        allowed = {"neighbour.txt": {"len": 7}, "outdir/dest": None}
        for nm in NEIGHBOURS:
            b = b"mine:" + nm.encode()
            allowed["outdir/" + nm] = {"len": len(b), "sha256": hashlib.sha256(b).hexdigest()}
        nat_out = {"kind": "outside_only", "allowed": allowed}
        expect_no_panic(ctx, out, tag, op)
        check_trace(ctx, scn, tag, mark, op, extra_ok=extra, key=key, native_outside=nat_out)
        for nm in NEIGHBOURS:
            f = scn.file_at(SBytes.of(ROOT + "/outdir/" + nm))
            b = b"mine:" + nm.encode()
            ctx.expect(f is not None and f.kind == "file" and f.sb.is_concrete() and f.sb.concrete() == b, tag + ":neighbour-of-dest",
                       "%s onto an existing destination changed or removed the unrelated file %r next to it" % (op, nm), native=nat_out)
        return
    elif op == "remove":
        out = scn.remove(key)
    elif op == "remove_hash":
        out = scn.remove_hash(sri)
    elif op == "remove_fully":
        out = scn.remove_fully(key)
    elif op == "remove_then_fully":
        scn.remove(key)
        out = scn.remove_fully(key)
    elif op == "clear":
        out = scn.clear()
    else:
        raise ValueError(op)
    expect_no_panic(ctx, out, tag, op)
    check_trace(ctx, scn, tag, mark, op, extra_ok=extra, readonly=ro, key=key)
    nb = scn.file_at(SBytes.of(ROOT + "/neighbour.txt"))
    ctx.expect(nb is not None and nb.sb.is_concrete() and nb.sb.concrete() == b"keep me", tag + ":neighbour", "%s changed a file next to the cache" % op,
               native={"kind": "tree_file", "path": "neighbour.txt", "len": 7})


def lonely(ctx, how, api):
    """The cache lives in otherwise empty parent directories; operations that leave it empty must not
    remove or alter anything outside it."""
    deep = ROOT + "/apps/myapp/cache"
    scn = ctx.new_scn(api=api, cache_dir=deep)
    scn.fs_mkdir_p(ROOT + "/apps/myapp")
    tag = "C15:%s:lonely:%s" % (api, how)
    mark = len(scn.env.trace)
    if how == "index-only":
        # an entry whose content was never streamed through this cache (no tmp/): raw index insertion
        scn.index_insert("k", {"integrity": scn.sri_str("sha1-deadbeef"), "time": 5})
        out = scn.remove_fully("k")
    elif how == "tombstone-then-fully":
        scn.remove("k")
        out = scn.remove_fully("k")
    else:
        scn.write("k", b"data")
        scn.fs_remove(CACHE + "/tmp") if False else None
        out = scn.remove_fully("k")
    expect_no_panic(ctx, out, tag, how)
    # the (otherwise empty) directories above the cache are not the library's to remove
    ok = scn.file_at(SBytes.of(ROOT + "/apps/myapp")) is not None
    ctx.expect(ok, tag + ":parent-gone", "remove_fully on the last entry (%s) removed the directory that contains the cache" % how,
               native={"kind": "tree_file", "path": "apps/myapp", "type": "dir"})
    check_trace(ctx, scn, tag, mark, "remove_fully on the last entry (%s)" % how, cache_dir=deep)


def opaque(ctx, k1, k2, api):
    """Confusable keys are distinct, independent entries."""
    scn = ctx.new_scn(api=api)
    A, B = scn.blob("A"), scn.blob("B")
    scn.distinct(A, B)
    tag = "C15:%s:opaque" % api
    if not expect_ok(ctx, scn.write(k1, scn.whole(A)), tag + ":w1", "write under the first key"):
        return
    if not expect_ok(ctx, scn.write(k2, scn.whole(B)), tag + ":w2", "write under its confusable twin"):
        return
    expect_bytes(ctx, scn.read(k1), scn.whole(A), tag + ":r1", "reading %r after writing its twin %r" % (k1, k2))
    expect_bytes(ctx, scn.read(k2), scn.whole(B), tag + ":r2", "reading %r" % k2)
    if expect_ok(ctx, scn.remove(k1), tag + ":rm", "remove"):
        expect_bytes(ctx, scn.read(k2), scn.whole(B), tag + ":r2-after-rm", "reading %r after removing its twin" % k2)
        out = scn.metadata(k1)
        if expect_ok(ctx, out, tag + ":m1", "lookup"):
            ctx.expect(out.value.vname == "None", tag + ":rm-ineffective", "removed key still found", native={"kind": "value_is", "step": last(scn), "value": {"meta": None}})


def tasks(tier, flavours):
    out = []
    keys = HOSTILE_KEYS if tier != "quick" else ["../../x", "/abs", "k\té\n\"\\", "nul\0key"]
    ops = ["write", "write_hash", "streamed", "read", "read_hash", "metadata", "exists", "list", "stream", "copy", "hard_link", "reflink",
           "copy_over", "hard_link_over", "reflink_over", "write_tmp_is_file", "write_hash_tmp_is_file", "streamed_tmp_is_file", "metadata_after_remove", "read_after_remove", "list_after_remove", "remove", "remove_hash", "remove_fully", "remove_then_fully", "clear"]
    for fl in flavours:
        api = "sync" if fl == "sync" else "async"
        for i, op in enumerate(ops):
            ks = keys if (tier != "quick" or fl == "sync") else [keys[i % len(keys)]]
            if tier == "quick":
                ks = [ks[i % len(ks)], ks[(i + 1) % len(ks)]] if fl == "sync" else ks
            for key in ks:
                out.append(dict(module="C15", family="confined", flavour=fl, params=dict(key=key, op=op, api=api)))
        for how in ("index-only", "tombstone-then-fully", "written"):
            out.append(dict(module="C15", family="lonely", flavour=fl, params=dict(how=how, api=api)))
        for k1, k2 in TWINS:
            out.append(dict(module="C15", family="opaque", flavour=fl, params=dict(k1=k1, k2=k2, api=api)))
    return out
