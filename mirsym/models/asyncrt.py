"""Async runtime models (filled in at stage 3)."""
from . import TABLE as T
from ..values import *


class NextFuture:
    def __init__(self, stream):
        self.stream = stream


def block_on(I, co):
    raise Inconclusive("async runtime not modelled yet")
