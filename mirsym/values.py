"""Value representations for the MIR interpreter."""
import z3


class Inconclusive(Exception):
    """The encoding cannot decide (unmodelled callee / unknown form).  Never a violation."""


class RustPanic(Exception):
    def __init__(self, msg, site=None):
        Exception.__init__(self, msg)
        self.msg = msg
        self.site = site


class RustAbort(Exception):
    """panic in a no-unwind context / process abort."""


class ProcessCrash(Exception):
    """Injected kill -9: nothing runs afterwards, not even cleanup."""


class PathInfeasible(Exception):
    pass


class Hang(Exception):
    pass


class _Moved:
    __slots__ = ()

    def __repr__(self):
        return "<moved>"


MOVED = _Moved()


class _Unit:
    __slots__ = ()

    def __repr__(self):
        return "()"


UNIT = _Unit()


class Cell:
    __slots__ = ("v",)

    def __init__(self, v=MOVED):
        self.v = v


# -- locations ---------------------------------------------------------------

class Loc:
    def get(self):
        raise NotImplementedError

    def set(self, v):
        raise NotImplementedError


class CellLoc(Loc):
    __slots__ = ("cell",)

    def __init__(self, cell):
        self.cell = cell

    def get(self):
        return self.cell.v

    def set(self, v):
        self.cell.v = v


class FieldLoc(Loc):
    __slots__ = ("obj", "idx")

    def __init__(self, obj, idx):
        self.obj = obj
        self.idx = idx

    def get(self):
        return self.obj.getf(self.idx)

    def set(self, v):
        self.obj.setf(self.idx, v)


class ElemLoc(Loc):
    __slots__ = ("lst", "idx")

    def __init__(self, lst, idx):
        self.lst = lst
        self.idx = idx

    def get(self):
        return self.lst[self.idx]

    def set(self, v):
        self.lst[self.idx] = v


class ValLoc(Loc):
    """Pseudo location of an rvalue-like thing (e.g. the pointee of a slice ref)."""
    __slots__ = ("v",)

    def __init__(self, v):
        self.v = v

    def get(self):
        return self.v

    def set(self, v):
        self.v = v


# -- aggregates --------------------------------------------------------------

class Agg:
    """struct / tuple / closure environment.  kind in {'tuple','struct','closure','array'}"""
    __slots__ = ("kind", "ty", "fields", "names")

    def __init__(self, kind, ty, fields, names=None):
        self.kind = kind
        self.ty = ty
        self.fields = list(fields)
        self.names = names

    def getf(self, i):
        return self.fields[i]

    def setf(self, i, v):
        while len(self.fields) <= i:
            self.fields.append(MOVED)
        self.fields[i] = v

    def __repr__(self):
        return "%s%r" % (self.ty or self.kind, self.fields)


class Adt:
    """enum value."""
    __slots__ = ("ty", "variant", "vname", "fields")

    def __init__(self, ty, variant, vname, fields=()):
        self.ty = ty
        self.variant = variant
        self.vname = vname
        self.fields = list(fields)

    def getf(self, i):
        return self.fields[i]

    def setf(self, i, v):
        while len(self.fields) <= i:
            self.fields.append(MOVED)
        self.fields[i] = v

    def __repr__(self):
        return "%s::%s%r" % (self.ty, self.vname, self.fields)


class Coroutine:
    __slots__ = ("ty", "body", "state", "upvars", "saved", "names")

    def __init__(self, ty, body, upvars, names):
        self.ty = ty
        self.body = body      # Func of the {closure#0} poll body
        self.state = 0
        self.upvars = list(upvars)
        self.saved = {}
        self.names = names

    def __repr__(self):
        return "<coroutine %s state=%d>" % (self.body.name if self.body else self.ty, self.state)


class CoroVariantView:
    """(coroutine as variant#N) -- field access goes to saved[(N, i)]."""
    __slots__ = ("co", "variant")

    def __init__(self, co, variant):
        self.co = co
        self.variant = variant

    def getf(self, i):
        return self.co.saved.get((self.variant, i), MOVED)

    def setf(self, i, v):
        self.co.saved[(self.variant, i)] = v


class CoroUpvarView:
    __slots__ = ("co",)

    def __init__(self, co):
        self.co = co

    def getf(self, i):
        return self.co.upvars[i]

    def setf(self, i, v):
        self.co.upvars[i] = v


class Ref:
    __slots__ = ("loc", "mut")

    def __init__(self, loc, mut=False):
        self.loc = loc
        self.mut = mut

    def get(self):
        return self.loc.get()

    def __repr__(self):
        return "&%r" % (self.loc.get(),)


class FnItem:
    __slots__ = ("desc",)

    def __init__(self, desc):
        self.desc = desc      # parsed callee path dict

    def __repr__(self):
        return "fn<%s>" % self.desc.get("raw")


class BoxV:
    __slots__ = ("cell",)

    def __init__(self, v):
        self.cell = Cell(v)


class VecObj:
    """Vec<T>/array of non-byte elements; list identity is the object."""
    __slots__ = ("items", "ty")

    def __init__(self, items, ty="Vec"):
        self.items = list(items)
        self.ty = ty

    def __repr__(self):
        return "Vec%r" % (self.items,)


class SliceRef:
    """&[T] over a python list (shared, snapshot semantics not needed: borrowck)."""
    __slots__ = ("items", "start", "end")

    def __init__(self, items, start=0, end=None):
        self.items = items
        self.start = start
        self.end = len(items) if end is None else end

    def __len__(self):
        return self.end - self.start

    def at(self, i):
        return self.items[self.start + i]


# -- symbolic helpers ---------------------------------------------------------

def is_sym(x):
    return isinstance(x, z3.ExprRef)


def bv(val, width):
    if is_sym(val):
        return val
    return z3.BitVecVal(val, width)


def mask(width):
    return (1 << width) - 1


def to_signed(v, width):
    v &= mask(width)
    return v - (1 << width) if v >> (width - 1) else v
