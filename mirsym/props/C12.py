"""C12 -- sync, async-std and tokio flavours of the API are observationally equivalent."""
import json
import z3
from .common import *
from ..models.serde import JsonValue
from ..models.fs import Env
from ..scn import Scn, Concretiser
from ..replay import render_outcome
from .C01 import damage_content
from .C05 import bucket_path_of
from .. import refmodel

BOUNDS = {"programs": "operation programs drawn from the families of C01, C02, C05, C06, C08, C09, C18 (writes with option combinations, "
                      "reads, streamed reads, extractions, removals, listing, damaged content, garbage in index files, rejected commits), each run "
                      "with the SAME symbolic inputs through the sync API of the sync build, the async API of the async-std build and the async API of the tokio "
                      "build; plus mixed programs where one flavour writes and another reads the same directory",
          "compared": "success/error class and returned data/metadata at every step, and the final cache contents (decoded records and content files)",
          "outside": "programs longer than ~8 operations; timing; which temporary file names are used"}

FLAVOURS = [("sync", "sync"), ("async-std", "async"), ("tokio", "async")]


def obs_key(I, out):
    """A comparable rendering of an outcome (symbolic parts compared separately)."""
    if out.kind == "err":
        c = err_class(out.value)
        return ("err", c.split("(")[0])
    return (out.kind,)


def values_equal(ctx, I, a, b):
    if a.kind != b.kind:
        return False
    if a.kind != "ok":
        return True
    va, vb = a.value, b.value
    try:
        if isinstance(va, VecObj) and isinstance(vb, VecObj):
            if len(va.items) != len(vb.items):
                return False
            # listings: compare as multisets keyed by entry key
            def keyed(v):
                d = {}
                for it in v.items:
                    if it.vname == "Ok":
                        d[it.fields[0].fields[0].sb.key()] = it.fields[0]
                    else:
                        d[("err", len(d))] = None
                return d
            da, db = keyed(va), keyed(vb)
            if set(da) != set(db):
                return False
            r = True
            for k in da:
                if da[k] is None:
                    continue
                r = I._band(r, meta_equal(I, da[k], db[k]))
            return r
        if isinstance(va, Adt) and va.ty == "Option" and isinstance(vb, Adt) and vb.ty == "Option":
            if va.vname != vb.vname:
                return False
            if va.vname == "Some":
                return meta_equal(I, va.fields[0], vb.fields[0])
            return True
        if hasattr(va, "rust_type") and va.rust_type not in ("Integrity", "Value"):
            return True         # handles
        if isinstance(va, Agg) and va.kind == "struct" and not str(va.ty).endswith("Metadata"):
            return True         # writer / reader handles
        return values_eq(I, va, vb)
    except Inconclusive:
        return True


def meta_equal(I, ma, mb):
    """Metadata equality where a default (wall-clock) timestamp only has to be a clock reading on both sides."""
    if not (isinstance(ma, Agg) and isinstance(mb, Agg)):
        return values_eq(I, ma, mb)
    r = True
    for i, (x, y) in enumerate(zip(ma.fields, mb.fields)):
        if i == 2 and is_sym(x) and is_sym(y) and "now_ms" in str(x) and "now_ms" in str(y):
            continue
        r = I._band(r, values_eq(I, x, y))
    return r


def run_program(ctx, prog, params, pairs=None):
    """Run `prog` once per flavour on the same symbolic inputs and compare step by step."""
    w = ctx.w
    shared_blobs = {}
    shared_syms = {}
    runs = []
    for fl, api in (pairs or FLAVOURS):
        scn = Scn(w, fl, api=api)
        scn.blobs = shared_blobs
        scn.shared_syms = shared_syms
        scn.env.short_read_budget = 0
        scn.env.reflink_supported = False
        scn.env.spawn_mode = "eager"
        ctx.scn = scn
        try:
            prog(ctx, scn, **params)
        except PathEndProgram:
            pass
        runs.append(scn)
    base = runs[0]
    tagbase = "C12:%s" % prog.__name__
    for other in runs[1:]:
        ctx.scn = other
        n = min(len(base.log), len(other.log))
        for i in range(n):
            a, b = base.log[i], other.log[i]
            if a.op != b.op:
                ctx.expect(False, tagbase + ":shape", "the program took a different course in %s (step %d: %s vs %s)" % (other.flavour, i, a.op, b.op), native=None)
                break
            same_kind = obs_key(base.s.I, a.outcome) == obs_key(other.s.I, b.outcome)
            what = "step %d (%s): %s gives %s, %s gives %s" % (i, a.op, base.flavour, obs_key(base.s.I, a.outcome), other.flavour, obs_key(other.s.I, b.outcome))

            def nat(cz, i=i, base=base):
                m = ctx.w.model()
                cz0 = Concretiser(base, m)
                return {"kind": "cross_flavour", "other": cz0.scenario(), "step": i}
            if not ctx.expect(same_kind, tagbase + ":%s-vs-%s:%s:class" % (base.flavour, other.flavour, a.op), "flavours disagree on the outcome class at " + what, native=nat):
                break
            e = values_equal(ctx, other.s.I, a.outcome, b.outcome)
            if not ctx.expect(e, tagbase + ":%s-vs-%s:%s:value" % (base.flavour, other.flavour, a.op), "flavours return different values at " + what, native=nat):
                break
        if len(base.log) != len(other.log):
            ctx.expect(False, tagbase + ":length", "the program has %d steps in %s and %d in %s" % (len(base.log), base.flavour, len(other.log), other.flavour), native=None)
        # final cache contents
        ta, tb = final_state(base), final_state(other)
        ctx.expect(ta == tb, tagbase + ":%s-vs-%s:final-state" % (base.flavour, other.flavour),
                   "the caches left by %s and %s differ: only in one: %r" % (base.flavour, other.flavour, sorted(set(ta) ^ set(tb))[:4]),
                   native=lambda cz, base=base: {"kind": "cross_flavour_tree", "other": Concretiser(base, ctx.w.model()).scenario()})


class PathEndProgram(Exception):
    pass


def sem_key(x):
    """Key of a byte string that does not depend on which run interned its digests."""
    x = sb.canon(sb.concretise_atoms(SBytes.of(x)), sb.CURRENT_WORLD[0])
    out = []
    for seg in x.segs:
        if isinstance(seg, sb.Atom) and seg.kind in ("hex", "b64"):
            d = seg.payload
            out.append(("atom", seg.kind, d.algo, d.raw if d.raw is not None else sem_key(d.content), seg.a, seg.b))
        else:
            out.append(sb.seg_key(seg))
    return tuple(out)


def final_state(scn):
    """{path: content key} of the cache directory without the temp area."""
    out = set()
    for p, ino in scn.tree().items():
        names = tuple(sem_key(x) if not isinstance(x, bytes) else x for x in p)
        if any(n == ((b"tmp",)) for n in names):
            continue
        if ino.kind == "file":
            in_index = any(n == (b"index-v5",) for n in names)
            # index records carry wall-clock times: their decoded form is compared through the lookups and
            # the listing every program ends with; here only which bucket files exist
            out.add((names, "file", None if in_index else sem_key(ino.sb)))
        elif ino.kind == "symlink":
            out.add((names, "symlink"))
    return out


# --- programs -------------------------------------------------------------------------------------

def p_roundtrip(ctx, scn, algo, declared, nchunks):
    D = scn.blob("D")
    data = scn.whole(D)
    opts = {}
    if algo:
        opts["algorithm"] = algo
    if declared:
        opts["size"] = D.len
    opts["time"] = 1000
    r = scn.open("k", opts)
    if r.kind != "ok":
        raise PathEndProgram()
    for c in chunks_of(scn, D, nchunks):
        if scn.hwrite_all(r.handle, c).kind != "ok":
            raise PathEndProgram()
    c = scn.commit(r.handle)
    scn.read("k")
    scn.metadata("k")
    if c.kind == "ok":
        scn.read_hash(c.value)
        scn.exists(c.value)
    scn.list()


def p_oneshot(ctx, scn, keyed, algo, key="k"):
    D = scn.blob("D")
    data = scn.whole(D)
    r = scn.write(key, data, algo=algo) if keyed else scn.write_hash(data, algo=algo)
    scn.metadata(key)
    scn.read(key)
    scn.exists(r.value) if r.kind == "ok" else None
    if key != "k":
        scn.remove(key)
        scn.metadata(key)
        scn.write(key, data)
        scn.read(key)
    if r.kind == "ok":
        scn.read_hash(r.value)
    scn.list()


def p_rejected(ctx, scn, which, keyed):
    D = scn.blob("D")
    data = scn.whole(D)
    opts = {"time": 1000}
    if which == "size":
        opts["size"] = scn.sym("declared", 64)
    else:
        E = scn.blob("E")
        scn.w.assume(z3.Not(sb.same_blob_var(D, E)))
        opts["integrity"] = scn.sri_of(scn.whole(E))
    r = scn.open("k", opts) if keyed else scn.open_hash(opts)
    if r.kind != "ok":
        raise PathEndProgram()
    o = scn.hwrite_all(r.handle, data)
    if o.kind != "ok":
        scn.hdrop(r.handle)
        raise PathEndProgram()
    scn.commit(r.handle)
    scn.metadata("k")
    s = scn.sri_of(data)
    scn.exists(s)
    scn.read_hash(s)
    scn.list()


def p_damaged(ctx, scn, damage, retrieval):
    D = scn.blob("D")
    data = scn.whole(D)
    r = scn.write("k", data)
    if r.kind != "ok":
        raise PathEndProgram()
    if "F" not in scn.blobs:
        F = scn.blob("F")
    damage_content(ctx, scn, r.value, D, damage)
    if retrieval == "read":
        scn.read("k")
        scn.read_hash(r.value)
    elif retrieval == "stream":
        h = scn.ropen("k")
        if h.kind == "ok":
            scn.hread(h.handle, 4096)
            scn.hread(h.handle, 4096)
            scn.check(h.handle)
    else:
        scn.extract(retrieval, ROOT + "/out", key="k")
        scn.fs_read(ROOT + "/out")
    scn.metadata("k")
    # storing the same data again over the damaged copy, then reading it back
    scn.write("k", data)
    scn.read("k")
    scn.write_hash(data)
    scn.read_hash(r.value)


def p_removals(ctx, scn, op):
    D, E = scn.blob("D"), scn.blob("E")
    scn.w.assume(z3.Not(sb.same_blob_var(D, E)))
    ra = scn.write("a", scn.whole(D))
    scn.write("b", scn.whole(D))
    scn.write("c", scn.whole(E))
    if ra.kind != "ok":
        raise PathEndProgram()
    if op == "remove":
        scn.remove("a")
    elif op == "remove_hash":
        scn.remove_hash(ra.value)
    elif op == "remove_fully":
        scn.remove_fully("a")
    elif op == "remove_missing":
        scn.remove_fully("never")
        scn.remove_hash(scn.sri_of(b"no such content"))
    elif op == "remove_fully_twice":
        # a and b share their content: the second full removal finds the content already gone
        scn.remove_fully("a")
        scn.remove_fully("b")
    elif op == "remove_hash_then_fully":
        scn.remove_hash(ra.value)
        scn.remove_fully("a")
    elif op == "remove_write_remove":
        scn.remove("a")
        scn.write("a", scn.whole(D))
        scn.remove("a")
        scn.remove("never")
    else:
        scn.clear()
    for k in ("a", "b", "c"):
        scn.metadata(k)
        scn.read(k)
    scn.list()


def p_index_garbage(ctx, scn, kind):
    scn.write("k", b"one")
    r = scn.open("k", {"time": 2000, "metadata": JsonValue({"v": "twö"})})
    if r.kind != "ok":
        raise PathEndProgram()
    scn.hwrite_all(r.handle, b"two")
    scn.commit(r.handle)
    bp = bucket_path_of(scn, "k")
    if kind == "invalid-utf8-line":
        scn.fs_append(bp, b"\n\xff\xfe garbage")
    elif kind == "torn":
        scn.fs_append(bp, refmodel.record_bytes("k", "sha1-deadbeef", 5, 1)[:77])
    elif kind == "nul":
        scn.fs_append(bp, b"\n\0\0\0\0")
    elif kind == "crlf":
        scn.fs_append(bp, b"\r\n\r\n")
    elif kind == "bucket-is-dir":
        scn.fs_mkdir_p(bucket_path_of(scn, "other"))
    elif kind in ("valid-record-unusable-integrity", "valid-record-unusable-integrity-last"):
        # a checksum-valid record for the same key whose integrity string names no usable hash (written by a
        # tool, or by index::insert with an empty Integrity): every flavour must treat it the same way
        scn.fs_append(bp, refmodel.record_bytes("k", "", 2500, 9))
        scn.metadata("k")
        scn.read("k")
        scn.fs_append(bp, refmodel.record_bytes("k", "md5-AAAA", 2600, 9))
        scn.metadata("k")
    if not kind.endswith("-last"):
        r = scn.open("k", {"time": 3000})
        if r.kind == "ok":
            scn.hwrite_all(r.handle, b"three")
            scn.commit(r.handle)
    scn.metadata("k")
    scn.read("k")
    scn.metadata("other")
    scn.list()


def p_mixed(ctx, scn, order):
    """Mixed-flavour use inside one build: write through one API, read through the other."""
    D = scn.blob("D")
    data = scn.whole(D)
    a, b = order
    r = scn.write("k", data, api=a)
    scn.metadata("k", api=b)
    scn.read("k", api=b)
    scn.remove("k", api=b)
    scn.metadata("k", api=a)
    r2 = scn.open("k", {"time": 7}, api=b)
    if r2.kind == "ok":
        scn.hwrite_all(r2.handle, data, api=b)
        scn.commit(r2.handle, api=b)
    scn.read("k", api=a)


def equivalence(ctx, program, params):
    prog = globals()[program]
    pairs = None
    if program == "p_mixed":
        pairs = [("async-std", "async"), ("tokio", "async")]
    run_program(ctx, prog, params, pairs)


def tasks(tier, flavours):
    out = []
    P = []
    for algo in (None, "Sha512"):
        for declared in (False, True):
            for n in ((1, 2) if tier == "quick" else (1, 2, 3)):
                P.append(("p_roundtrip", dict(algo=algo, declared=declared, nchunks=n)))
    for keyed in (True, False):
        for algo in (None, "Sha1"):
            P.append(("p_oneshot", dict(keyed=keyed, algo=algo)))
    for key in ("say \"hi\"\t\\n", "clé/../x", ""):
        P.append(("p_oneshot", dict(keyed=True, algo=None, key=key)))
    for which in ("size", "integrity"):
        for keyed in (True, False):
            P.append(("p_rejected", dict(which=which, keyed=keyed)))
    for damage in ("replace", "remove", "truncate"):
        for retrieval in ("read", "stream", "copy", "hard_link"):
            P.append(("p_damaged", dict(damage=damage, retrieval=retrieval)))
    for op in ("remove", "remove_hash", "remove_fully", "remove_missing", "remove_fully_twice", "remove_hash_then_fully", "remove_write_remove", "clear"):
        P.append(("p_removals", dict(op=op)))
    for kind in ("invalid-utf8-line", "torn", "nul", "crlf", "bucket-is-dir", "valid-record-unusable-integrity", "valid-record-unusable-integrity-last"):
        P.append(("p_index_garbage", dict(kind=kind)))
    for order in (("sync", "async"), ("async", "sync")):
        P.append(("p_mixed", dict(order=order)))
    for prog, params in P:
        out.append(dict(module="C12", family="equivalence", flavour="sync", params=dict(program=prog, params=params)))
    return out
