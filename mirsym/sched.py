"""Interleaving of several cache users over one filesystem (property C07).

Each concurrent operation runs the crate's MIR in its own interpreter (no shared memory: the crate has no
statics) on its own Python thread; exactly one thread runs at a time and control changes hands only inside
Env.act(), i.e. immediately before a filesystem system call.  Which thread runs next is a decision of the
explored path (World.choose), so the schedule is part of the path like every data-dependent branch, and the
solver model of a failing path comes with the schedule that produced it.

Scheduling discipline (identical in the native replay, replay/shim.c gate mode):
  * a *gate* is a call that can change the filesystem (mkdir, rename, unlink, link, write, creating/truncating
    open, ftruncate, fallocate ...) or an open for reading;
  * an *event* is a gate call that did change the filesystem, or any open for reading;
  * a slot of the schedule lets one thread run from where it is parked (operation start, or a gate) through
    one event and on to its next gate, or to the end of its operations.
Reads/stats through already resolved handles and gate calls that fail (mkdir on an existing directory) are
therefore scheduled together with the neighbouring event of the same thread.  This is the stated granularity.

Reduction: sleep sets (Godefroid) over slot segments.  The footprint (paths and inodes read/written) of every
executed segment is recorded; a thread whose next segment, measured from a state, is independent of the
segment chosen instead is not scheduled again until something dependent happens.  Footprints measured in
sibling subtrees are merged (union over all data branches of the segment), which only reduces pruning.
Sleep sets never lose a Mazurkiewicz trace; blocked paths are abandoned without checks."""
import threading

from .values import PathInfeasible, Inconclusive
from . import sbytes as sb
from .sbytes import SBytes

FP_CACHE = {}          # (state key, tid) -> Footprint   (per task; cleared by the family)

threading.stack_size(512 * 1024 * 1024)


class ThreadAbort(BaseException):
    pass


class SleepBlocked(Exception):
    """Every unfinished thread is asleep: this interleaving is equivalent to one explored elsewhere."""


def stable_comp_key(c):
    """A key for a path component that does not depend on Python object identities."""
    c = sb.concretise_atoms(c)
    if c.is_concrete():
        return c.concrete()
    if len(c.segs) == 1 and isinstance(c.segs[0], sb.Atom) and c.segs[0].kind in ("hex", "b64"):
        a = c.segs[0]
        d = a.payload
        cont = d.content
        if cont is not None and len(cont.segs) == 1 and isinstance(cont.segs[0], sb.BlobSeg):
            s = cont.segs[0]
            if (not sb.is_sym(s.a)) and s.a == 0 and sb._same_term(s.b, s.blob.len):
                return ("dig", a.kind, d.algo, s.blob.name, a.a, a.b)
    return ("sym", repr(c))


def comps_may_alias(k1, k2, distinct):
    if k1 == k2:
        return True
    if isinstance(k1, bytes) and isinstance(k2, bytes):
        return False
    if isinstance(k1, tuple) and isinstance(k2, tuple) and k1[0] == "dig" and k2[0] == "dig":
        if k1[1:3] == k2[1:3] and k1[4:] == k2[4:] and k1[3] != k2[3]:
            # same slice of the same kind of digest of two blobs the scenario declared different:
            # different names (the model's ideal-hash reading of directory names)
            return frozenset((k1[3], k2[3])) not in distinct
    return True


def _prefix_may_alias(p, q, distinct):
    """Can path p (tuple of component keys) be a prefix of (or equal to) q?"""
    if len(p) > len(q):
        return False
    return all(comps_may_alias(a, b, distinct) for a, b in zip(p, q))


class Footprint:
    __slots__ = ("paths", "inodes")

    def __init__(self):
        self.paths = set()      # (mode, path key tuple)   mode: W, R, T (reads the subtree)
        self.inodes = set()     # (mode, inode uid)

    def merge(self, o):
        self.paths |= o.paths
        self.inodes |= o.inodes

    def independent(self, o, distinct):
        for m1, u1 in self.inodes:
            for m2, u2 in o.inodes:
                if u1 == u2 and (m1 == "W" or m2 == "W"):
                    return False
        for m1, p in self.paths:
            for m2, q in o.paths:
                if m1 != "W" and m2 != "W":
                    continue
                if m1 == "W" and m2 == "W":
                    dep = _prefix_may_alias(p, q, distinct) or _prefix_may_alias(q, p, distinct)
                elif m1 == "W":
                    dep = _prefix_may_alias(p, q, distinct) or (m2 == "T" and _prefix_may_alias(q, p, distinct))
                else:
                    dep = _prefix_may_alias(q, p, distinct) or (m1 == "T" and _prefix_may_alias(p, q, distinct))
                if dep:
                    return False
        return True


WRITE_PATH = {"mkdir", "unlink", "rename", "rmdir", "symlink", "link"}
READ_PATH = {"stat", "lstat"}
WRITE_INODE = {"write", "ftruncate", "fallocate", "ficlone"}
READ_INODE = {"read", "mmap", "fsync"}


class ParThread:
    def __init__(self, tid, thunk):
        self.tid = tid
        self.thunk = thunk
        self.sem = threading.Semaphore(0)
        self.done = False
        self.exc = None
        self.result = None
        self.succeeded = False
        self.fp = Footprint()
        self.thread = None
        self.clock_terms = []
        self.runtime = None
        self.tmp_counter = 0
        self.inode_counter = 0
        self.cur_op = None
        self.op_seq = 0
        self.n_effects_step = 0


class Scheduler:
    def __init__(self, env, w, label="par"):
        self.env = env
        self.w = w
        self.label = label
        self.main_sem = threading.Semaphore(0)
        self.cur = None
        self.abort = False
        self.threads = []
        self.schedule = []
        self.segments = []        # [(tid, [action records])] for diagnostics
        self.distinct = getattr(w, "distinct_blobs", set())

    # -- called from Env.act on the running operation's thread -------------------------------------
    def yield_point(self, env, rec):
        t = self.cur
        if t is None or threading.current_thread() is not t.thread:
            return
        rec["tid"] = t.tid
        potential = rec["mutating"] or rec["kind"] == "open"
        if potential and t.succeeded:
            self._park(t)
        self._record(t, env, rec)
        self.segments[-1][1].append(rec)
        if rec["kind"] == "open" and not rec["mutating"]:
            t.succeeded = True

    def note_read(self, env, path):
        """A path whose existence the running thread observed without a system call of its own in the model."""
        t = self.cur
        if t is not None and threading.current_thread() is t.thread:
            t.fp.paths.add(("R", self._pkey(env, path)))

    def on_effect(self, env):
        t = self.cur
        if t is not None and threading.current_thread() is t.thread:
            t.succeeded = True

    def _park(self, t):
        self.main_sem.release()
        t.sem.acquire()
        if self.abort:
            raise ThreadAbort()

    def _pkey(self, env, path):
        try:
            comps = env.vfs._abs_comps(SBytes.of(path))
        except Exception:
            return (("sym", "?"),)
        return tuple(stable_comp_key(c) for c in comps)

    def _inode_of_path(self, env, path):
        try:
            return env.vfs.lookup(SBytes.of(path))
        except Exception:
            return None

    def _uid(self, t, ino):
        u = getattr(ino, "uid", None)
        if u is None:
            t.inode_counter += 1
            u = ino.uid = ("t%d" % t.tid, t.inode_counter)
        return u

    def _record(self, t, env, rec):
        k = rec["kind"]
        fp = t.fp
        f = rec.get("fobj")
        if k in WRITE_PATH:
            fp.paths.add(("W", self._pkey(env, rec["path"])))
            if rec.get("path2") is not None:
                fp.paths.add(("W", self._pkey(env, rec["path2"])))
        elif k == "open":
            fp.paths.add(("W" if rec["mutating"] else "R", self._pkey(env, rec["path"])))
            if rec.get("flags", {}).get("truncate"):
                ino = self._inode_of_path(env, rec["path"])
                if ino is not None:
                    fp.inodes.add(("W", self._uid(t, ino)))
        elif k in READ_PATH:
            fp.paths.add(("R", self._pkey(env, rec["path"])))
            ino = self._inode_of_path(env, rec["path"])
            if ino is not None:
                fp.inodes.add(("R", self._uid(t, ino)))
        elif k == "readdir":
            fp.paths.add(("T", self._pkey(env, rec["path"])))
        elif k in WRITE_INODE or k in READ_INODE:
            mode = "W" if k in WRITE_INODE else "R"
            if f is not None and getattr(f, "inode", None) is not None:
                fp.inodes.add((mode, self._uid(t, f.inode)))
            else:
                # no handle information: fall back to the path (conservative: as a write of the path)
                fp.paths.add(("W", self._pkey(env, rec["path"])))
            if k == "ficlone" and rec.get("path2") is not None:
                fp.paths.add(("W", self._pkey(env, rec["path2"])))
        else:
            # unknown action kind: conflicts with everything under the cache root
            fp.paths.add(("W", ()))

    # -- main thread --------------------------------------------------------------------------------
    def _body(self, t):
        t.sem.acquire()
        try:
            if self.abort:
                return
            t.result = t.thunk()
        except ThreadAbort:
            pass
        except BaseException as e:      # noqa: B902  (propagated to the exploring thread)
            t.exc = e
        finally:
            t.done = True
            self.main_sem.release()

    def _switch_in(self, t):
        env = self.env
        self._saved = (env.pid, env.clock_terms, getattr(env, "runtime", None), env.cur_op, env.op_seq, env.n_effects_step)
        env.pid = 100 + t.tid
        env.clock_terms = t.clock_terms
        env.runtime = t.runtime
        env.cur_op, env.n_effects_step = t.cur_op, t.n_effects_step
        env.cur_thread = t

    def _switch_out(self, t):
        env = self.env
        t.runtime = getattr(env, "runtime", None)
        t.cur_op, t.n_effects_step = env.cur_op, env.n_effects_step
        env.pid, env.clock_terms, env.runtime, env.cur_op, _, env.n_effects_step = self._saved
        env.cur_thread = None

    def run(self, thunks):
        env, w = self.env, self.w
        if env.sched is not None:
            raise Inconclusive("nested concurrent sections")
        env.sched = self
        # stable identities for everything that exists already (deterministic traversal order)
        n = 0
        stack = [env.vfs.root]
        seen = set()
        while stack:
            ino = stack.pop()
            if id(ino) in seen:
                continue
            seen.add(id(ino))
            n += 1
            if getattr(ino, "uid", None) is None:
                ino.uid = ("pre", n)
            if ino.kind == "dir":
                for _name, child in ino.children.values():
                    stack.append(child)
        self.threads = [ParThread(i, th) for i, th in enumerate(thunks)]
        for t in self.threads:
            t.thread = threading.Thread(target=self._body, args=(t,), daemon=True)
            t.thread.start()
        sleep = {}
        try:
            while True:
                live = [t for t in self.threads if not t.done]
                if not live:
                    break
                cands = [t for t in live if t.tid not in sleep]
                if not cands:
                    raise SleepBlocked()
                state = (self.label, tuple(d[0] for d in w.decisions), len(self.schedule))
                j = w.choose(len(cands), "sched")
                t = cands[j]
                self.schedule.append(t.tid)
                self.segments.append((t.tid, []))
                t.succeeded = False
                t.fp = Footprint()
                self.cur = t
                self._switch_in(t)
                t.sem.release()
                self.main_sem.acquire()
                self._switch_out(t)
                self.cur = None
                if t.exc is not None:
                    raise t.exc
                k = (state, t.tid)
                if k in FP_CACHE:
                    FP_CACHE[k].merge(t.fp)
                else:
                    FP_CACHE[k] = t.fp
                fp = FP_CACHE[k]
                nxt = {}
                for u, fu in sleep.items():
                    if fu.independent(fp, self.distinct):
                        nxt[u] = fu
                for i in range(j):
                    fi = FP_CACHE.get((state, cands[i].tid))
                    if fi is not None and fi.independent(fp, self.distinct):
                        nxt[cands[i].tid] = fi
                sleep = nxt
        finally:
            env.sched = None
            self.abort = True
            for t in self.threads:
                if not t.done:
                    t.sem.release()
            for t in self.threads:
                t.thread.join(timeout=30)
        return [t.result for t in self.threads]
