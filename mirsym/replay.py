"""Native replay: build the runner against /repo's current tree, run concretised scenarios, and
render the symbolic outcomes in the runner's observation format so the two can be compared."""
import base64
import fcntl
import hashlib
import json
import os
import subprocess
import sys
import tempfile
import z3

from .values import *
from .interp import BufObj, BytesRef
from . import sbytes as sb
from .sbytes import SBytes
from .models.ssri import IntegrityV
from .models.serde import JsonValue
from .models.fs import IoError
from .scn import Concretiser, Unreplayable, ROOT

VERIF = os.path.dirname(os.path.dirname(os.path.abspath(__file__)))
BUILD = os.path.join(VERIF, "build")
FEATURES = {"sync": "mmap", "async-std": "mmap,rt-async-std", "tokio": "mmap,rt-tokio"}
_built = {}


def runner_path(flavour):
    return os.path.join(BUILD, "replay-" + flavour, "debug", "cacache-replay")


def build_runner(flavour, quiet=True):
    """(Re)build the runner for a flavour; cargo decides whether /repo changed."""
    if _built.get(flavour):
        return runner_path(flavour)
    os.makedirs(BUILD, exist_ok=True)
    lock = open(os.path.join(BUILD, "replay-%s.lock" % flavour), "w")
    fcntl.flock(lock, fcntl.LOCK_EX)
    try:
        env = dict(os.environ)
        env["CARGO_NET_OFFLINE"] = "true"
        env.pop("RUSTFLAGS", None)
        cmd = ["cargo", "build", "--offline", "--features", FEATURES[flavour], "--target-dir",
               os.path.join(BUILD, "replay-" + flavour)]
        p = subprocess.run(cmd, cwd=os.path.join(VERIF, "replay"), env=env, stdout=subprocess.PIPE, stderr=subprocess.PIPE)
        if p.returncode != 0:
            sys.stderr.write(p.stderr.decode("utf-8", "replace")[-3000:])
            raise RuntimeError("replay runner build failed (%s)" % flavour)
    finally:
        fcntl.flock(lock, fcntl.LOCK_UN)
        lock.close()
    _built[flavour] = True
    return runner_path(flavour)


def shim_path():
    so = os.path.join(BUILD, "shim.so")
    src = os.path.join(VERIF, "replay", "shim.c")
    if not os.path.exists(so) or os.path.getmtime(so) < os.path.getmtime(src):
        tmp = so + ".tmp%d" % os.getpid()
        p = subprocess.run(["gcc", "-shared", "-fPIC", "-O1", "-o", tmp, src, "-ldl"], stdout=subprocess.PIPE, stderr=subprocess.PIPE)
        if p.returncode != 0:
            raise RuntimeError("shim build failed: " + p.stderr.decode()[-500:])
        os.replace(tmp, so)
    return so


ERRNO_OF = {"CrossesDevices": 18, "Other": 5, "StorageFull": 28, "PermissionDenied": 13, "Uncategorized": 24, "NotFound": 2, "AlreadyExists": 17}


def _parse_obs(stdout):
    obs, final = [], None
    for line in stdout.decode("utf-8", "replace").splitlines():
        line = line.strip()
        if not line.startswith("{"):
            continue
        try:
            o = json.loads(line)
        except ValueError:
            continue
        if "final" in o:
            final = o["final"]["tree"]
        else:
            obs.append(o)
    return obs, final


def _exec(exe, scenario, root, extra_args=(), env=None, timeout=120):
    with tempfile.NamedTemporaryFile("w", suffix=".json", delete=False, dir=BUILD) as fh:
        json.dump(scenario, fh)
        path = fh.name
    try:
        p = subprocess.run([exe, path, "--root", root] + list(extra_args), stdout=subprocess.PIPE, stderr=subprocess.PIPE,
                           timeout=timeout, cwd=tempfile.gettempdir(), env=env)
        return p.returncode, p.stdout, p.stderr
    except subprocess.TimeoutExpired:
        return -9, b'{"outcome": "hang"}\n', b""
    finally:
        os.unlink(path)


def _subst_refs(steps, obs):
    """Steps of a later process cannot refer to in-memory results of an earlier one: replace
    {"ref": k} by the integrity string the earlier process printed."""
    def fix(v):
        if isinstance(v, dict):
            if set(v) == {"ref"} and isinstance(v["ref"], int):
                k = v["ref"]
                if k < len(obs):
                    val = obs[k].get("value", {})
                    if "sri" in val:
                        return {"str": val["sri"]}
                    if val.get("meta"):
                        return {"str": val["meta"]["integrity"]}
                return v
            return {a: fix(b) for a, b in v.items()}
        if isinstance(v, list):
            return [fix(x) for x in v]
        return v
    return [fix(s) for s in steps]


def run_native(scenario, flavour=None, timeout=120, keep=False):
    """Run a concrete scenario natively.  Returns (observations list, final tree or None).
    scenario["shim"] (optional) replays a crash point or an injected fault of the model:
      {"mode": "crash", "step": k, "effects": N, "torn": t or null}
      {"mode": "fault", "step": k, "class": "write", "occurrence": n, "errno": "StorageFull", "short": s or null, "suffix": "..."}"""
    flavour = flavour or scenario.get("flavour", "sync")
    exe = build_runner(flavour)
    root = tempfile.mkdtemp(prefix="cacache-replay-")
    root = os.path.realpath(root)
    try:
        shim = scenario.get("shim")
        steps = [dict(s) for s in scenario["steps"]]
        if any(s_.get("op") == "par" for s_ in steps):
            return _run_par(exe, steps, root, timeout)
        if not shim:
            rc, out, err = _exec(exe, {"steps": steps, "watchdog_s": scenario.get("watchdog_s", 12)}, root, timeout=timeout)
            obs, final = _parse_obs(out)
            if rc not in (0, 3) and final is None:
                obs.append({"outcome": "abort", "returncode": rc, "stderr": err.decode("utf-8", "replace")[-400:]})
            return obs, final
        k = shim["step"]
        steps[k]["arm"] = True
        env = dict(os.environ)
        env["LD_PRELOAD"] = shim_path()
        env["CACACHE_SHIM_ROOT"] = root
        if shim["mode"] == "crash":
            env["CACACHE_SHIM_SPEC"] = "crash %d %d" % (shim["effects"], -1 if shim.get("torn") is None else shim["torn"])
            fl_ = shim.get("fault")
            if fl_:
                # a failing call (e.g. rename -> EXDEV) in the same step as the kill
                env["CACACHE_SHIM_SPEC2"] = "fault %s %d %d %d %s" % (fl_["class"], fl_.get("occurrence", 0), ERRNO_OF.get(fl_["errno"], 5), -1, fl_.get("suffix") or "*")
            rc, out, err = _exec(exe, {"steps": steps}, root, extra_args=["--upto", str(k)], env=env, timeout=timeout)
            obs, final = _parse_obs(out)
            crashed = rc == 137
            while len(obs) < k:
                obs.append({"outcome": "missing"})
            if crashed:
                obs = obs[:k] + [{"step": k, "outcome": "crash"}]
            # the restarted process runs the remaining steps on the same directory
            rest = _subst_refs(steps, obs)
            for s_ in rest:
                s_.pop("arm", None)
            if k + 1 < len(steps):
                rc2, out2, err2 = _exec(exe, {"steps": rest}, root, extra_args=["--from", str(k + 1)], timeout=timeout)
                obs2, final = _parse_obs(out2)
                obs = obs[:k + 1] + obs2
            else:
                rc2, out2, err2 = _exec(exe, {"steps": []}, root, timeout=timeout)
                _, final = _parse_obs(out2)
            return obs, final
        # fault
        short = shim.get("short")
        env["CACACHE_SHIM_SPEC"] = "fault %s %d %d %d %s" % (shim["class"], shim.get("occurrence", 0), ERRNO_OF.get(shim["errno"], 5),
                                                            -1 if short is None else short, shim.get("suffix") or "*")
        rc, out, err = _exec(exe, {"steps": steps}, root, env=env, timeout=timeout)
        obs, final = _parse_obs(out)
        if rc not in (0, 3) and final is None:
            obs.append({"outcome": "abort", "returncode": rc, "stderr": err.decode("utf-8", "replace")[-400:]})
        return obs, final
    finally:
        if not keep:
            import shutil
            shutil.rmtree(root, ignore_errors=True)


def _run_par(exe, steps, root, timeout):
    """Scenario with one concurrent section: the steps before it run in one process, every member of the
    section in its own process under the gate shim (the model's schedule is enforced system call by system
    call), the steps after it in a fresh process."""
    import struct
    import time as _t
    k = next(i for i, s_ in enumerate(steps) if s_.get("op") == "par")
    par = steps[k]
    obs = []
    if k > 0:
        rc, out, err = _exec(exe, {"steps": steps[:k]}, root, timeout=timeout)
        obs, _ = _parse_obs(out)
        while len(obs) < k:
            obs.append({"outcome": "missing"})
    sched = list(par.get("sched", []))
    n = len(par["procs"])
    ctl = tempfile.NamedTemporaryFile(prefix="gate-", suffix=".ctl", dir=BUILD, delete=False)
    files = []
    try:
        words = [0] * 16384
        words[0], words[1], words[2], words[3] = 0, len(sched), 0, -1
        for i, t in enumerate(sched):
            words[16 + i] = t
        ctl.write(struct.pack("<%di" % len(words), *words))
        ctl.flush()
        procs = []
        for i, psteps in enumerate(par["procs"]):
            ps = _subst_refs([dict(x) for x in psteps], obs)
            for x in ps:
                x.pop("arm", None)
            if ps:
                ps[0]["arm"] = True
            env = dict(os.environ)
            env["LD_PRELOAD"] = shim_path()
            env["CACACHE_SHIM_ROOT"] = root
            env["CACACHE_SHIM_SPEC"] = "gate %d %s" % (i, ctl.name)
            fh = tempfile.NamedTemporaryFile("w", suffix=".json", delete=False, dir=BUILD)
            json.dump({"steps": ps, "watchdog_s": 40}, fh)
            fh.close()
            files.append(fh.name)
            procs.append(subprocess.Popen([exe, fh.name, "--root", root], stdout=subprocess.PIPE, stderr=subprocess.PIPE,
                                          cwd=tempfile.gettempdir(), env=env))
        import mmap as _mmap
        fd = os.open(ctl.name, os.O_RDWR)
        mm = _mmap.mmap(fd, 65536)
        t0 = _t.time()
        outs = [None] * n
        pending = set(range(n))
        while pending and _t.time() - t0 < 60:
            for i in list(pending):
                if procs[i].poll() is not None:
                    outs[i] = procs[i].communicate()
                    pending.discard(i)
                    # a process that died while holding the turn must not block the others
                    mm[(4 + i) * 4:(4 + i) * 4 + 4] = struct.pack("<i", 1)
                    if struct.unpack("<i", mm[12:16])[0] == i:
                        mm[12:16] = struct.pack("<i", -1)
                        pos = struct.unpack("<i", mm[0:4])[0]
                        mm[0:4] = struct.pack("<i", pos + 1)
            _t.sleep(0.002)
        hung = bool(pending)
        for i in pending:
            procs[i].kill()
            outs[i] = procs[i].communicate()
        diverged = struct.unpack("<i", mm[8:12])[0]
        consumed = struct.unpack("<i", mm[0:4])[0]
        mm.close()
        os.close(fd)
        par_obs = []
        for i in range(n):
            o, _ = _parse_obs(outs[i][0])
            if procs[i].returncode not in (0, 3) and not o:
                o = [{"outcome": "abort", "returncode": procs[i].returncode, "stderr": outs[i][1].decode("utf-8", "replace")[-300:]}]
            par_obs.append(o)
        ob = {"step": k, "outcome": "hang" if hung else "ok", "value": {"par": par_obs}}
        if os.environ.get("CACACHE_SHIM_DEBUG"):
            lines = []
            for i in range(n):
                lines += [ln for ln in outs[i][1].decode("utf-8", "replace").splitlines() if ln.startswith("gate:")]
            ob["gate_log"] = lines
        if diverged or consumed < len(sched):
            ob["diverged"] = {"flags": diverged, "slots_used": consumed, "slots": len(sched)}
        obs = obs[:k] + [ob]
    finally:
        for f in files:
            try:
                os.unlink(f)
            except OSError:
                pass
        try:
            os.unlink(ctl.name)
        except OSError:
            pass
    rest = _subst_refs(steps, obs)
    post = [x for x in rest[k + 1:]]
    for x in post:
        x.pop("arm", None)
    rc2, out2, err2 = _exec(exe, {"steps": post}, root, timeout=timeout)
    obs2, final = _parse_obs(out2)
    for o in obs2:
        if "step" in o:
            o["step"] += k + 1
    return obs + obs2, final


# ---------------------------------------------------------------------------
# rendering symbolic outcomes as observations

def render_value(v, cz):
    v0 = v
    while isinstance(v, Ref):
        v = v.get()
    if isinstance(v, IntegrityV):
        return {"sri": cz.bytes_of(v.display(cz.scn.s.I)).decode()}
    if isinstance(v, (BufObj, BytesRef)):
        b = cz.bytes_of(v.sb)
        return {"bytes": {"len": len(b), "sha256": hashlib.sha256(b).hexdigest()}}
    if v is UNIT or v is None:
        return {"unit": True}
    if isinstance(v, bool):
        return {"bool": v}
    if isinstance(v, int):
        return {"u64": v}
    if is_sym(v):
        x = cz.ev(v)
        return {"bool": x} if isinstance(x, bool) else {"u64": x}
    if isinstance(v, Adt) and v.ty == "Option":
        if v.vname == "None":
            return {"meta": None}
        return {"meta": render_meta(v.fields[0], cz)}
    if isinstance(v, Adt) and v.ty == "Algorithm":
        return {"algo": v.vname.lower()}
    if isinstance(v, VecObj):
        items = []
        for x in v.items:
            if isinstance(x, Adt) and x.ty == "Result":
                if x.vname == "Ok":
                    items.append({"ok": render_meta(x.fields[0], cz)})
                else:
                    items.append({"err": render_err(x.fields[0])})
        items.sort(key=lambda j: json.dumps(j, sort_keys=True))
        return {"list": items}
    if isinstance(v, Agg) and v.kind == "struct" and v.ty.endswith("Metadata"):
        return {"meta": render_meta(v, cz)}
    if hasattr(v, "rust_type"):
        return {"handle": True}
    if isinstance(v, Agg):
        return {"handle": True}
    return {"other": repr(v)}


def render_meta(m, cz):
    names = m.names or ["key", "integrity", "time", "size", "metadata", "raw_metadata"]
    d = dict(zip(names, m.fields))
    md = d["metadata"]
    while isinstance(md, Ref):
        md = md.get()
    if isinstance(md, JsonValue):
        if md.opaque is not None:
            raise Unreplayable("opaque metadata value")
        mdv = md.py
    elif isinstance(md, Adt) and md.vname == "Null":
        mdv = None
    else:
        mdv = repr(md)
    raw = d["raw_metadata"]
    rawv = None
    if isinstance(raw, Adt) and raw.vname == "Some":
        rawv = cz.bytes_of(raw.fields[0].sb).hex()
    return {
        "key": cz.bytes_of(d["key"].sb).decode("utf-8", "replace"),
        "integrity": cz.bytes_of(d["integrity"].display(cz.scn.s.I)).decode(),
        "time": "<now>" if (is_sym(d["time"]) and "now_ms" in str(d["time"])) else str(cz.ev(d["time"])),
        "size": cz.ev(d["size"]),
        "metadata": mdv,
        "raw_metadata": rawv,
    }


def render_err(e, cz=None):
    if isinstance(e, Adt):
        if e.vname == "IoError":
            io = e.fields[0]
            return {"variant": "IoError", "io_kind": getattr(io, "kind", "?")}
        if e.vname == "SizeMismatch":
            d = {"variant": "SizeMismatch"}
            if cz is not None:
                d["wanted"] = cz.ev(e.fields[0])
                d["actual"] = cz.ev(e.fields[1])
            return d
        if e.vname == "EntryNotFound":
            return {"variant": "EntryNotFound"}
        return {"variant": e.vname}
    if isinstance(e, IoError):
        return {"variant": "IoError", "io_kind": e.kind}
    return {"variant": type(e).__name__}


def render_outcome(out, cz):
    from .scn import ParResult
    if out.kind == "ok" and isinstance(out.value, ParResult):
        return {"outcome": "ok", "value": {"par": [[render_outcome(st.outcome, cz) for st in lg] for lg in out.value.logs]}}
    if out.kind == "ok":
        return {"outcome": "ok", "value": render_value(out.value, cz)}
    if out.kind == "err":
        return {"outcome": "err", "err": render_err(out.value, cz)}
    return {"outcome": out.kind, "message": out.detail}


def obs_equal(pred, obs, loose_io_kind=False):
    """Compare a predicted observation with a native one (only the fields the prediction states)."""
    if pred["outcome"] != obs.get("outcome"):
        return False
    if pred["outcome"] == "err":
        pe, oe = pred["err"], obs.get("err", {})
        if pe.get("variant") != oe.get("variant"):
            return False
        if pe.get("variant") == "IoError" and not loose_io_kind:
            if pe.get("io_kind") not in (oe.get("io_kind"), "?"):
                # kinds the model collapses
                if {pe.get("io_kind"), oe.get("io_kind")} <= {"Other", "Uncategorized", "InvalidInput"}:
                    return True
                return False
        if pe.get("variant") == "SizeMismatch" and "wanted" in pe:
            return (pe["wanted"], pe["actual"]) == (oe.get("wanted"), oe.get("actual"))
        return True
    if pred["outcome"] != "ok":
        return True
    pv, ov = pred["value"], obs.get("value", {})
    if "par" in pv:
        if obs.get("diverged"):
            return False
        op_ = ov.get("par")
        if op_ is None or len(op_) != len(pv["par"]):
            return False
        for lp, lo in zip(pv["par"], op_):
            if len(lp) != len(lo) or not all(obs_equal(a, b, loose_io_kind) for a, b in zip(lp, lo)):
                return False
        return True
    if "handle" in pv:
        return "handle" in ov
    if "bytes" in pv:
        ob = ov.get("bytes")
        return ob is not None and ob["len"] == pv["bytes"]["len"] and ob["sha256"] == pv["bytes"]["sha256"]
    if "meta" in pv:
        return _meta_eq(pv["meta"], ov.get("meta", "missing"))
    if "list" in pv:
        ol = ov.get("list")
        if ol is None or len(ol) != len(pv["list"]):
            return False
        rest = list(ol)
        for x in pv["list"]:
            hit = None
            for y in rest:
                if ("err" in x) != ("err" in y):
                    continue
                if "err" in x:
                    if x["err"].get("variant") == y["err"].get("variant"):
                        hit = y
                        break
                elif _meta_eq(x["ok"], y["ok"]):
                    hit = y
                    break
            if hit is None:
                return False
            rest.remove(hit)
        return True
    for k in ("sri", "u64", "bool", "algo", "unit"):
        if k in pv:
            return pv[k] == ov.get(k)
    return True


def _meta_eq(a, b):
    if a is None or b is None or b == "missing":
        return a == b
    if a.get("time") == "<now>":
        try:
            t = int(b.get("time", "0"))
        except ValueError:
            return False
        if not (10 ** 12 <= t <= 9 * 10 ** 12):
            return False
        a = dict(a)
        b = dict(b)
        a.pop("time")
        b.pop("time")
    return a == b


def _norm_item(x):
    if "err" in x:
        return {"err": {"variant": x["err"].get("variant")}}
    if "ok" in x and x["ok"].get("time") == "<now>":
        y = dict(x["ok"])
        y["time"] = "<now>"
        return {"ok": y}
    return x
