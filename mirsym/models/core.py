"""Models of core/alloc/std items that are not I/O: Option, Result, Try, iterators, strings, paths,
formatting, Vec, Box, conversions."""
import re
import z3

from . import TABLE as T
from ..values import *
from ..values import _Moved
from ..interp import (BufObj, BytesRef, MutBytesRef, FatLoc, NONE, SOME, OK, ERR, READY, PENDING, is_variant,
                      base_type_name, STD_ENUMS)
from ..parse import split_top, match_bracket, path_segments, strip_generics
from .. import sbytes as sb
from ..sbytes import SBytes

STD_ENUMS["ErrorKind"] = ["NotFound", "PermissionDenied", "ConnectionRefused", "ConnectionReset", "HostUnreachable",
                          "NetworkUnreachable", "ConnectionAborted", "NotConnected", "AddrInUse", "AddrNotAvailable",
                          "NetworkDown", "BrokenPipe", "AlreadyExists", "WouldBlock", "NotADirectory", "IsADirectory",
                          "DirectoryNotEmpty", "ReadOnlyFilesystem", "FilesystemLoop", "StaleNetworkFileHandle",
                          "InvalidInput", "InvalidData", "TimedOut", "WriteZero", "StorageFull", "NotSeekable",
                          "QuotaExceeded", "FileTooLarge", "ResourceBusy", "ExecutableFileBusy", "Deadlock",
                          "CrossesDevices", "TooManyLinks", "InvalidFilename", "ArgumentListTooLong", "Interrupted",
                          "Unsupported", "UnexpectedEof", "OutOfMemory", "InProgress", "Other", "Uncategorized"]


def error_kind(name):
    vs = STD_ENUMS["ErrorKind"]
    return Adt("ErrorKind", vs.index(name), name)


# ---------------------------------------------------------------------------
# helpers

def peel(v):
    while isinstance(v, Ref):
        v = v.get()
    return v


def as_sbytes(v):
    v = peel(v)
    if isinstance(v, (BufObj, BytesRef)):
        return v.sb
    if isinstance(v, MutBytesRef):
        raise Inconclusive("reading through &mut [u8]")
    if isinstance(v, BoxV):
        return as_sbytes(v.cell.v)
    if hasattr(v, "as_sbytes"):
        return v.as_sbytes()
    raise Inconclusive("expected bytes-like, got %r" % (type(v).__name__,))


def mk_string(x):
    return BufObj("String", x)


def mk_vec_u8(x):
    return BufObj("Vec<u8>", x)


def mk_pathbuf(x):
    return BufObj("PathBuf", x)


def generic_args(ty):
    """'Result<Vec<u8>, errors::Error>' -> ['Vec<u8>', 'errors::Error']"""
    ty = ty.strip()
    i = ty.find("<")
    if i < 0:
        return []
    j = match_bracket(ty, i)
    return [a.strip() for a in split_top(ty[i + 1:j])]


def turbofish_of(desc, method):
    """generic args of the final path segment, from the raw callee text."""
    raw = desc.get("raw", "")
    k = raw.rfind("::" + method + "::<")
    if k < 0:
        return []
    i = k + len("::" + method + "::")
    j = match_bracket(raw, i)
    return [a.strip() for a in split_top(raw[i + 1:j])]


def panic(msg):
    raise RustPanic(msg)


def truthy(I, c, label):
    return I.w.branch(c, label)


# ---------------------------------------------------------------------------
# identity-like

@T.path("must_use", "core::hint::must_use", "std::hint::must_use")
def _must_use(I, a, d):
    return a[0]


@T.path("std::boxed::Box::new", "alloc::boxed::Box::new")
def _box_new(I, a, d):
    return BoxV(a[0])


@T.path("std::mem::drop", "core::mem::drop", "drop")
def _mem_drop(I, a, d):
    I.drop_value(a[0])
    return UNIT


def default_of(I, ty):
    """Default::default() of a type named by its printed name."""
    ty = ty.strip()
    m = I.models.lookup_trait("Default", "default", ty)
    if m:
        return m[0](I, [], {"self": ty, "trait": "Default", "segs": ("Default", "default"), "raw": "<%s as Default>::default" % ty})
    tb = base_type_name(ty)[-1]
    if tb == "PathBuf":
        return mk_pathbuf(b"")
    if tb == "Value":
        from .serde import JsonValue
        return JsonValue(None)
    if tb in ("HashMap", "BTreeMap"):
        return MapObj(tb == "BTreeMap")
    f = I.idx.find_method(path_segments(strip_generics(ty)), "Default", ("default",))
    if f:
        return I.run_fn(f, [])
    raise Inconclusive("Default::default for %s" % ty)


@T.path("std::mem::take", "core::mem::take")
def _mem_take(I, a, d):
    tf = turbofish_of(d, "take")
    if not tf:
        raise Inconclusive("mem::take without a printed type")
    r = a[0]
    old = r.loc.get()
    r.loc.set(default_of(I, tf[0]))
    return old


@T.path("std::mem::replace", "core::mem::replace")
def _mem_replace(I, a, d):
    r = a[0]
    old = r.loc.get()
    r.loc.set(a[1])
    return old


@T.trait("IntoFuture", "into_future")
def _into_future(I, a, d):
    return a[0]


@T.trait("IntoIterator", "into_iter")
def _into_iter(I, a, d):
    v = a[0]
    if isinstance(v, RIter):
        return v
    if isinstance(v, VecObj):
        items = list(v.items)
        return RIter.from_list(items)
    if isinstance(v, HashSetObj):
        items = list(v.items)
        if len(items) > 1 and I.w.choose(2, "hashset-order") == 1:
            items.reverse()
        return RIter.from_list(items)
    if hasattr(v, "into_iter"):
        return v.into_iter(I)
    if isinstance(v, Agg) and v.kind == "array":
        return RIter.from_list(list(v.fields))
    if isinstance(v, SliceRef):
        return RIter.from_list([Ref(ElemLoc(v.items, i)) for i in range(v.start, v.end)])
    if isinstance(v, Ref):
        # iterating a borrowed collection yields references to its elements
        t = peel(v)
        if isinstance(t, VecObj):
            return RIter.from_list([Ref(ElemLoc(t.items, i), v.mut) for i in range(len(t.items))])
        if isinstance(t, HashSetObj):
            items = list(t.items)
            if len(items) > 1 and I.w.choose(2, "hashset-order") == 1:
                items.reverse()
            return RIter.from_list([Ref(ValLoc(x)) for x in items])
        if hasattr(t, "iter_refs"):
            return t.iter_refs(I, v.mut)
        if isinstance(t, Agg) and t.kind == "array":
            return RIter.from_list([Ref(ElemLoc(t.fields, i), v.mut) for i in range(len(t.fields))])
        if isinstance(t, SliceRef):
            return RIter.from_list([Ref(ElemLoc(t.items, i), v.mut) for i in range(t.start, t.end)])
        if isinstance(t, RIter):
            return t
    raise Inconclusive("into_iter on %r" % (v,))


@T.trait("AsDisplay", "as_display")
def _as_display(I, a, d):
    return a[0]


# ---------------------------------------------------------------------------
# Option

def _opt(v):
    v = peel(v)
    if not isinstance(v, Adt) or v.ty != "Option":
        raise Inconclusive("expected Option, got %r" % (v,))
    return v


@T.path("std::option::Option::is_some", "core::option::Option::is_some")
def _opt_is_some(I, a, d):
    return _opt(a[0]).vname == "Some"


@T.path("std::option::Option::is_none", "core::option::Option::is_none")
def _opt_is_none(I, a, d):
    return _opt(a[0]).vname == "None"


@T.path("std::option::Option::unwrap", "core::option::Option::unwrap")
def _opt_unwrap(I, a, d):
    o = _opt(a[0])
    if o.vname == "None":
        panic("called `Option::unwrap()` on a `None` value")
    return o.fields[0]


@T.path("std::option::Option::expect", "core::option::Option::expect")
def _opt_expect(I, a, d):
    o = _opt(a[0])
    if o.vname == "None":
        panic("Option::expect failed")
    return o.fields[0]


@T.path("std::option::Option::unwrap_or", "core::option::Option::unwrap_or")
def _opt_unwrap_or(I, a, d):
    o = _opt(a[0])
    if o.vname == "None":
        return a[1]
    I.drop_value(a[1])
    return o.fields[0]


@T.path("std::option::Option::unwrap_or_else", "core::option::Option::unwrap_or_else")
def _opt_unwrap_or_else(I, a, d):
    o = _opt(a[0])
    if o.vname == "None":
        return I.call_value(a[1], [])
    return o.fields[0]


@T.path("std::option::Option::unwrap_or_default", "core::option::Option::unwrap_or_default")
def _opt_unwrap_or_default(I, a, d):
    o = _opt(a[0])
    if o.vname != "None":
        return o.fields[0]
    return _default_of(d, "Option")


@T.path("std::option::Option::map", "core::option::Option::map")
def _opt_map(I, a, d):
    o = _opt(a[0])
    if o.vname == "None":
        return NONE()
    return SOME(I.call_value(a[1], [o.fields[0]]))


@T.path("std::option::Option::map_or", "core::option::Option::map_or")
def _opt_map_or(I, a, d):
    o = _opt(a[0])
    if o.vname == "None":
        return a[1]
    I.drop_value(a[1])
    return I.call_value(a[2], [o.fields[0]])


@T.path("std::option::Option::map_or_else", "core::option::Option::map_or_else")
def _opt_map_or_else(I, a, d):
    o = _opt(a[0])
    if o.vname == "None":
        return I.call_value(a[1], [])
    return I.call_value(a[2], [o.fields[0]])


def _int_ty_of(d):
    m = re.search(r"<impl (\w+)>", d.get("raw", ""))
    if m:
        return m.group(1)
    ty = d["segs"][-2] if len(d.get("segs", ())) >= 2 else "usize"
    return ty if ty in ("usize", "u64", "u32", "u128", "u8", "u16", "i64", "i32", "isize") else "usize"


def _checked(op):
    def f(I, a, d):
        ty = _int_ty_of(d)
        r = I.binop(op + "WithOverflow", a[0], a[1], ty)
        val, ovf = r.fields
        if I.w.branch(ovf, "checked-" + op):
            return NONE()
        return SOME(val)
    return f


for _op, _nm in (("Add", "checked_add"), ("Sub", "checked_sub"), ("Mul", "checked_mul")):
    T.path("core::num::%s" % _nm)(_checked(_op))


def _saturating(op):
    def f(I, a, d):
        ty = _int_ty_of(d)
        from ..parse import INT_WIDTH
        r = I.binop(op + "WithOverflow", a[0], a[1], ty)
        val, ovf = r.fields
        if I.w.branch(ovf, "saturating-" + op):
            return mask(INT_WIDTH[ty]) if op == "Add" else 0
        return val
    return f


T.path("core::num::saturating_add")(_saturating("Add"))
T.path("core::num::saturating_sub")(_saturating("Sub"))


def _wrapping(op):
    def f(I, a, d):
        ty = _int_ty_of(d)
        return I.binop(op, a[0], a[1], ty)
    return f


T.path("core::num::wrapping_add")(_wrapping("Add"))
T.path("core::num::wrapping_sub")(_wrapping("Sub"))


@T.path("std::option::Option::get_or_insert", "core::option::Option::get_or_insert")
def _opt_get_or_insert(I, a, d):
    r = a[0]
    o = _opt(r)
    if o.vname == "None":
        r.loc.set(SOME(a[1]))
        o = r.loc.get()
    else:
        I.drop_value(a[1])
    return Ref(FieldLoc(o, 0), True)


@T.path("std::option::Option::and_then", "core::option::Option::and_then")
def _opt_and_then(I, a, d):
    o = _opt(a[0])
    if o.vname == "None":
        return NONE()
    return I.call_value(a[1], [o.fields[0]])


@T.path("std::option::Option::or_else", "core::option::Option::or_else")
def _opt_or_else(I, a, d):
    o = _opt(a[0])
    if o.vname == "None":
        return I.call_value(a[1], [])
    return o


@T.path("std::option::Option::or", "core::option::Option::or")
def _opt_or(I, a, d):
    o = _opt(a[0])
    if o.vname == "None":
        return a[1]
    I.drop_value(a[1])
    return o


@T.path("std::option::Option::ok_or_else", "core::option::Option::ok_or_else")
def _opt_ok_or_else(I, a, d):
    o = _opt(a[0])
    if o.vname == "None":
        return ERR(I.call_value(a[1], []))
    return OK(o.fields[0])


@T.path("std::option::Option::ok_or", "core::option::Option::ok_or")
def _opt_ok_or(I, a, d):
    o = _opt(a[0])
    if o.vname == "None":
        return ERR(a[1])
    I.drop_value(a[1])
    return OK(o.fields[0])


@T.path("std::option::Option::take", "core::option::Option::take")
def _opt_take(I, a, d):
    r = a[0]
    o = r.loc.get()
    r.loc.set(NONE())
    return o


@T.path("std::option::Option::as_mut", "core::option::Option::as_mut")
def _opt_as_mut(I, a, d):
    r = a[0]
    o = _opt(r)
    if o.vname == "None":
        return NONE()
    return SOME(Ref(FieldLoc(o, 0), True))


@T.path("std::option::Option::as_ref", "core::option::Option::as_ref")
def _opt_as_ref(I, a, d):
    o = _opt(a[0])
    if o.vname == "None":
        return NONE()
    return SOME(Ref(FieldLoc(o, 0), False))


@T.path("std::option::Option::is_some_and", "core::option::Option::is_some_and")
def _opt_is_some_and(I, a, d):
    o = _opt(a[0])
    if o.vname == "None":
        return False
    return I.call_value(a[1], [o.fields[0]])


@T.path("std::option::Option::filter", "core::option::Option::filter")
def _opt_filter(I, a, d):
    o = _opt(a[0])
    if o.vname == "None":
        return o
    keep = I.call_value(a[1], [Ref(FieldLoc(o, 0))])
    if truthy(I, keep, "filter"):
        return o
    I.drop_value(o.fields[0])
    return NONE()


@T.trait("Clone", "clone", r"Option$")
def _opt_clone(I, a, d):
    o = _opt(a[0])
    if o.vname == "None":
        return NONE()
    return SOME(clone_value(I, o.fields[0]))


@T.trait("Default", "default", r"Option$")
def _opt_default(I, a, d):
    return NONE()


@T.trait("Default", "default", r"^bool$")
def _bool_default(I, a, d):
    return False


@T.trait("Default", "default", r"^(usize|u64|u32|u128|u8|i32|i64)$")
def _int_default(I, a, d):
    return 0


@T.trait("Default", "default", r"String$")
def _string_default(I, a, d):
    return mk_string(b"")


@T.trait("Default", "default", r"Vec$")
def _vec_default(I, a, d):
    return _vec_new(I, a, d)


@T.trait("PartialEq", "eq", r"Option$")
def _opt_eq(I, a, d):
    x, y = _opt(a[0]), _opt(a[1])
    if x.vname != y.vname:
        return False
    if x.vname == "None":
        return True
    return values_eq(I, x.fields[0], y.fields[0])


def clone_value(I, v):
    v0 = v
    v = peel(v)
    if isinstance(v, BufObj):
        return BufObj(v.kind, v.sb)
    if isinstance(v, (int, bool, BytesRef)) or is_sym(v) or v is UNIT:
        return v
    if isinstance(v, VecObj):
        return VecObj([clone_value(I, x) for x in v.items], v.ty)
    if isinstance(v, Adt):
        if v.ty in STD_ENUMS:
            return Adt(v.ty, v.variant, v.vname, [clone_value(I, x) for x in v.fields])
    if hasattr(v, "rust_clone"):
        return v.rust_clone(I)
    tn = I.type_name_of(v)
    if tn is not None:
        f = I.idx.find_method(tn, "Clone", ("clone",))
        if f:
            return I.run_fn(f, [Ref(ValLoc(v))])
    raise Inconclusive("clone of %r" % (v,))


def values_eq(I, x, y):
    """PartialEq::eq on model values -> bool or z3 Bool."""
    x, y = peel(x), peel(y)
    if isinstance(x, (BufObj, BytesRef)) and isinstance(y, (BufObj, BytesRef)):
        return sb.content_eq(x.sb, y.sb, I.w)
    if isinstance(x, (int, bool)) or is_sym(x):
        if is_sym(x) or is_sym(y):
            wdt = x.size() if is_sym(x) and not z3.is_bool(x) else (y.size() if is_sym(y) and not z3.is_bool(y) else None)
            if wdt:
                return bv(x, wdt) == bv(y, wdt)
            return x == y
        return x == y
    if isinstance(x, Adt) and isinstance(y, Adt):
        if x.ty in STD_ENUMS:
            if x.variant != y.variant:
                return False
            r = True
            for p, q in zip(x.fields, y.fields):
                e = values_eq(I, p, q)
                r = I._band(r, e)
            return r
    if hasattr(x, "rust_eq"):
        return x.rust_eq(I, y)
    tn = I.type_name_of(x)
    if tn is not None:
        f = I.idx.find_method(tn, "PartialEq", ("eq",))
        if f:
            return I.run_fn(f, [Ref(ValLoc(x)), Ref(ValLoc(y))])
    if x is UNIT and y is UNIT:
        return True
    if isinstance(x, Agg) and isinstance(y, Agg) and len(x.fields) == len(y.fields) and x.kind == y.kind:
        r = True
        for p_, q_ in zip(x.fields, y.fields):
            r = I._band(r, values_eq(I, p_, q_))
        return r
    raise Inconclusive("eq of %r and %r" % (x, y))


@T.trait("Clone", "clone")
def _generic_clone(I, a, d):
    return clone_value(I, a[0])


@T.trait("PartialEq", "eq")
def _generic_eq(I, a, d):
    return values_eq(I, a[0], a[1])


@T.trait("PartialEq", "ne")
def _generic_ne(I, a, d):
    return I._bnot(values_eq(I, a[0], a[1]))


# ---------------------------------------------------------------------------
# Result / Try

def _res(v):
    v = peel(v)
    if not isinstance(v, Adt) or v.ty != "Result":
        raise Inconclusive("expected Result, got %r" % (v,))
    return v


@T.trait("Try", "branch", r"Result$")
def _res_branch(I, a, d):
    r = _res(a[0])
    if r.vname == "Ok":
        return Adt("ControlFlow", 0, "Continue", [r.fields[0]])
    return Adt("ControlFlow", 1, "Break", [ERR(r.fields[0])])


@T.trait("Try", "branch", r"Option$")
def _opt_branch(I, a, d):
    o = _opt(a[0])
    if o.vname == "Some":
        return Adt("ControlFlow", 0, "Continue", [o.fields[0]])
    return Adt("ControlFlow", 1, "Break", [NONE()])


@T.trait("Try", "branch", r"Poll$")
def _poll_branch(I, a, d):
    # Poll<Result<T, E>>: Ready(Ok(x)) -> Continue(Ready(x)); Ready(Err(e)) -> Break(Err(e)); Pending -> Continue(Pending)
    p = peel(a[0])
    if p.vname == "Pending":
        return Adt("ControlFlow", 0, "Continue", [PENDING()])
    r = p.fields[0]
    if r.ty == "Result":
        if r.vname == "Ok":
            return Adt("ControlFlow", 0, "Continue", [READY(r.fields[0])])
        return Adt("ControlFlow", 1, "Break", [ERR(r.fields[0])])
    raise Inconclusive("Try for Poll<%s>" % r.ty)


def convert_error(I, e, from_ty, to_ty):
    """`From<from_ty> for to_ty` as used by `?`."""
    fb = base_type_name(from_ty)[-1] if from_ty else None
    tb = base_type_name(to_ty)
    if fb == tb[-1] and (len(base_type_name(from_ty)) == 1 or len(tb) == 1 or base_type_name(from_ty)[-2:] == tb[-2:]):
        return e
    cands = I.idx.methods.get((tb[-1], "From", ("from",)), [])
    if len(tb) > 1:
        pre = tuple(tb[:-1])
        c2 = [c for c in cands if c[0][-len(pre):] == pre]
        cands = c2 or cands
    sel = [c for c in cands if base_type_name(c[1].params[0][1])[-1] == fb]
    if len(sel) == 1:
        return I.run_fn(sel[0][1], [e])
    if fb == tb[-1]:
        return e
    # std conversions that occur
    raise Inconclusive("From<%s> for %s" % (from_ty, to_ty))


@T.trait("FromResidual", "from_residual", r"Result$")
def _res_from_residual(I, a, d):
    r = _res(a[0])
    selfargs = generic_args(d["self"])
    traitargs = generic_args(d["trait"]) if d.get("trait") else []
    to_ty = selfargs[1] if len(selfargs) > 1 else None
    from_ty = None
    if traitargs:
        inner = generic_args(traitargs[0])
        from_ty = inner[1] if len(inner) > 1 else None
    e = r.fields[0]
    if to_ty and from_ty:
        e = convert_error(I, e, from_ty, to_ty)
    return ERR(e)


@T.trait("FromResidual", "from_residual", r"Option$")
def _opt_from_residual(I, a, d):
    return NONE()


@T.trait("FromResidual", "from_residual", r"Poll$")
def _poll_from_residual(I, a, d):
    r = _res(a[0])
    selfargs = generic_args(d["self"])
    traitargs = generic_args(d["trait"]) if d.get("trait") else []
    e = r.fields[0]
    try:
        to_ty = generic_args(selfargs[0])[1]
        from_ty = generic_args(traitargs[0])[1]
        e = convert_error(I, e, from_ty, to_ty)
    except IndexError:
        pass
    return READY(ERR(e))


@T.path("std::result::Result::ok", "core::result::Result::ok")
def _res_ok(I, a, d):
    r = _res(a[0])
    if r.vname == "Ok":
        return SOME(r.fields[0])
    I.drop_value(r.fields[0])
    return NONE()


@T.path("std::result::Result::err", "core::result::Result::err")
def _res_err(I, a, d):
    r = _res(a[0])
    if r.vname == "Err":
        return SOME(r.fields[0])
    I.drop_value(r.fields[0])
    return NONE()


@T.path("std::result::Result::is_ok", "core::result::Result::is_ok")
def _res_is_ok(I, a, d):
    return _res(a[0]).vname == "Ok"


@T.path("std::result::Result::is_err", "core::result::Result::is_err")
def _res_is_err(I, a, d):
    return _res(a[0]).vname == "Err"


@T.path("std::result::Result::map", "core::result::Result::map")
def _res_map(I, a, d):
    r = _res(a[0])
    if r.vname == "Ok":
        return OK(I.call_value(a[1], [r.fields[0]]))
    return r


@T.path("std::result::Result::map_err", "core::result::Result::map_err")
def _res_map_err(I, a, d):
    r = _res(a[0])
    if r.vname == "Err":
        return ERR(I.call_value(a[1], [r.fields[0]]))
    return r


@T.path("std::result::Result::and_then", "core::result::Result::and_then")
def _res_and_then(I, a, d):
    r = _res(a[0])
    if r.vname == "Ok":
        return I.call_value(a[1], [r.fields[0]])
    return r


@T.path("std::result::Result::or_else", "core::result::Result::or_else")
def _res_or_else(I, a, d):
    r = _res(a[0])
    if r.vname == "Err":
        return I.call_value(a[1], [r.fields[0]])
    return r


@T.path("std::result::Result::unwrap", "core::result::Result::unwrap")
def _res_unwrap(I, a, d):
    r = _res(a[0])
    if r.vname == "Err":
        I.drop_value(r.fields[0])
        panic("called `Result::unwrap()` on an `Err` value")
    return r.fields[0]


@T.path("std::result::Result::expect", "core::result::Result::expect")
def _res_expect(I, a, d):
    r = _res(a[0])
    if r.vname == "Err":
        I.drop_value(r.fields[0])
        panic("Result::expect failed")
    return r.fields[0]


@T.path("std::result::Result::unwrap_or", "core::result::Result::unwrap_or")
def _res_unwrap_or(I, a, d):
    r = _res(a[0])
    if r.vname == "Err":
        I.drop_value(r.fields[0])
        return a[1]
    return r.fields[0]


@T.path("std::result::Result::unwrap_or_else", "core::result::Result::unwrap_or_else")
def _res_unwrap_or_else(I, a, d):
    r = _res(a[0])
    if r.vname == "Err":
        return I.call_value(a[1], [r.fields[0]])
    return r.fields[0]


@T.path("std::result::Result::unwrap_or_default", "core::result::Result::unwrap_or_default")
def _res_unwrap_or_default(I, a, d):
    r = _res(a[0])
    if r.vname != "Err":
        return r.fields[0]
    I.drop_value(r.fields[0])
    return _default_of(d, "Result")


def _default_of(d, what):
    """Default::default() of the payload type named in the call's turbofish (as the dump prints it)."""
    m = re.search(r"(?:Result|Option)::<\s*([^,>]+)", d.get("raw", ""))
    ty = m.group(1).strip() if m else None
    if ty == "&str":
        return BytesRef(SBytes(), "str")
    if ty in ("String", "std::string::String"):
        return mk_string(SBytes())
    if ty in ("usize", "u64", "u32", "u16", "u8", "u128", "i64", "i32", "isize"):
        return 0
    if ty == "bool":
        return False
    raise Inconclusive("%s::unwrap_or_default for %s" % (what, ty))


# ---------------------------------------------------------------------------
# conversions

@T.trait("AsRef", "as_ref")
def _as_ref(I, a, d):
    v = peel(a[0])
    if isinstance(v, BufObj):
        return BytesRef(v.sb, "bytes")
    if isinstance(v, BytesRef):
        return v
    if hasattr(v, "as_sbytes"):
        return BytesRef(v.as_sbytes())
    raise Inconclusive("AsRef::as_ref on %r" % (v,))


@T.trait("Deref", "deref")
def _deref(I, a, d):
    v = peel(a[0])
    if isinstance(v, BufObj):
        return BytesRef(v.sb, "bytes")
    if isinstance(v, BytesRef):
        return v
    if isinstance(v, VecObj):
        return SliceRef(v.items)
    if isinstance(v, BoxV):
        return Ref(CellLoc(v.cell))
    if hasattr(v, "rust_deref"):
        return v.rust_deref(I)
    raise Inconclusive("Deref::deref on %r" % (v,))


@T.trait("Borrow", "borrow")
def _borrow(I, a, d):
    return _as_ref(I, a, d)


@T.trait("ToOwned", "to_owned")
def _to_owned(I, a, d):
    v = peel(a[0])
    st = d.get("self", "")
    if isinstance(v, (BufObj, BytesRef)):
        if "Path" in st:
            return mk_pathbuf(v.sb)
        if "str" in st:
            return mk_string(v.sb)
        if "[u8]" in st:
            return mk_vec_u8(v.sb)
        return BufObj("String" if getattr(v, "kind", "") == "str" else "Vec<u8>", v.sb)
    raise Inconclusive("to_owned of %r" % (v,))


@T.trait("ToString", "to_string")
def _to_string(I, a, d):
    return mk_string(display_of(I, a[0]))


@T.trait("From", "from", r"String$")
def _string_from(I, a, d):
    return mk_string(as_sbytes(a[0]))


@T.trait("From", "from", r"PathBuf$")
def _pathbuf_from(I, a, d):
    return mk_pathbuf(as_sbytes(a[0]))


@T.trait("From", "from", r"Vec$")
def _vec_from(I, a, d):
    return mk_vec_u8(as_sbytes(a[0]))


class DynError:
    """Box<dyn Error + Send + Sync> built from a message."""
    rust_type = "DynError"

    def __init__(self, msg):
        self.msg = msg

    def __repr__(self):
        return "DynError(%r)" % (self.msg,)


@T.trait("From", "from", r"Box$")
def _box_from(I, a, d):
    v = peel(a[0])
    if isinstance(v, (BufObj, BytesRef)):
        return DynError(v.sb)
    return BoxV(a[0])


@T.trait("Into", "into")
def _into(I, a, d):
    tr = d.get("trait") or ""
    targ = generic_args(tr)
    to = targ[0] if targ else ""
    v = peel(a[0])
    tb = base_type_name(to)[-1] if to else ""
    if tb == "String":
        return mk_string(as_sbytes(v))
    if tb == "PathBuf":
        return mk_pathbuf(as_sbytes(v))
    if tb == "Vec":
        return mk_vec_u8(as_sbytes(v))
    if tb == "Box":
        if isinstance(v, (BufObj, BytesRef)):
            return DynError(v.sb)
        return BoxV(a[0])
    # From impl of a local type
    cands = I.idx.methods.get((tb, "From", ("from",)), [])
    if len(cands) == 1:
        return I.run_fn(cands[0][1], [a[0]])
    fb = base_type_name(d["self"])[-1]
    if fb == tb:
        return a[0]
    selfty = (d.get("self") or "").strip()
    if selfty.startswith("impl ") or re.fullmatch(r"[A-Z][A-Za-z0-9]{0,2}", selfty or "x"):
        # a generic parameter (`impl Into<T>` / `T: Into<U>`): the conversion is decided by the value passed in
        rt = getattr(v, "rust_type", None)
        if rt == tb or (isinstance(v, Agg) and isinstance(v.ty, str) and v.ty.split("::")[-1] == tb) or (isinstance(v, Adt) and v.ty == tb):
            return a[0]
        if tb == "Value":
            from .serde import JsonValue
            if isinstance(v, JsonValue):
                return a[0]
            if isinstance(v, (BufObj, BytesRef)) and v.sb.is_concrete():
                return JsonValue(v.sb.concrete().decode("utf-8", "replace"))
            if isinstance(v, bool) or isinstance(v, int):
                return JsonValue(v)
    if to in ("u16", "u32", "u64", "u128", "usize") and (isinstance(v, int) and not isinstance(v, bool) or (is_sym(v) and not z3.is_bool(v))):
        wd = {"u16": 16, "u32": 32, "u64": 64, "u128": 128, "usize": 64}[to]
        if isinstance(v, int):
            return v
        return z3.ZeroExt(wd - v.size(), v) if v.size() < wd else v        # lossless widening (From<uN> for uM)
    if to.startswith("[u8;") and hasattr(v, "as_sbytes"):
        return BufObj(to, v.as_sbytes())       # GenericArray<u8, N> -> [u8; N]
    if to.startswith("[u8;") and isinstance(v, (BufObj, BytesRef)):
        return BufObj(to, v.sb)
    raise Inconclusive("Into<%s> for %s" % (to, d["self"]))


# ---------------------------------------------------------------------------
# formatting

class FmtArg:
    def __init__(self, kind, ref):
        self.kind = kind
        self.ref = ref


class FmtArguments:
    def __init__(self, template, args):
        self.template = template
        self.args = args


@T.path("core::fmt::rt::Argument::new_display")
def _arg_display(I, a, d):
    return FmtArg("display", a[0])


@T.path("core::fmt::rt::Argument::new_lower_hex")
def _arg_lower_hex(I, a, d):
    return FmtArg("lower_hex", a[0])


@T.path("core::fmt::rt::Argument::new_upper_hex")
def _arg_upper_hex(I, a, d):
    return FmtArg("upper_hex", a[0])


@T.path("core::fmt::rt::Argument::new_binary")
def _arg_binary(I, a, d):
    return FmtArg("binary", a[0])


@T.path("core::fmt::rt::Argument::new_octal")
def _arg_octal(I, a, d):
    return FmtArg("octal", a[0])


@T.path("core::fmt::rt::Argument::new_debug")
def _arg_debug(I, a, d):
    return FmtArg("debug", a[0])


@T.path("std::fmt::Arguments::new", "core::fmt::Arguments::new")
def _arguments_new(I, a, d):
    tmpl = as_sbytes(a[0]).concrete()
    arr = peel(a[1])
    args = list(arr.fields) if isinstance(arr, Agg) else list(arr.items)
    return FmtArguments(tmpl, args)


@T.path("std::fmt::Arguments::from_str", "core::fmt::Arguments::from_str", "std::fmt::Arguments::new_const", "core::fmt::Arguments::new_const")
def _arguments_from_str(I, a, d):
    s = as_sbytes(a[0]).concrete()
    return FmtArguments(None, s)


_dbg_n = [0]


def display_of(I, v):
    """Display text of a value as SBytes."""
    v = peel(v)
    if isinstance(v, (BufObj, BytesRef)):
        return v.sb
    if isinstance(v, bool):
        return SBytes.of(b"true" if v else b"false")
    if isinstance(v, int):
        return SBytes.of(str(v).encode())
    if is_sym(v):
        if z3.is_bool(v):
            raise Inconclusive("Display of symbolic bool")
        return SBytes((sb.Atom("dec", (v, v.size())),))
    if isinstance(v, Adt) and v.ty == "Algorithm":
        return SBytes.of(v.vname.lower().encode())
    if isinstance(v, Adt) and v.ty == "ErrorKind":
        return SBytes.of(v.vname.encode())
    if hasattr(v, "display"):
        return v.display(I)
    if isinstance(v, DisplayWrap):
        return v.sb
    # opaque text (error messages): content never matters
    return SBytes((sb.Atom("opaque", ("display", type(v).__name__)),))


class DisplayWrap:
    def __init__(self, s):
        self.sb = s


def format_pieces(I, fa):
    """The successive write_str calls core::fmt::write makes for these arguments: one per literal piece
    and one per plain Display argument (a String/&str argument is handed over whole)."""
    if fa.template is None:
        return [SBytes.of(fa.args)] if fa.args else []
    whole = format_arguments(I, fa, pieces=True)
    return [p for p in whole if not (p.is_concrete() and not p.concrete())]


def format_arguments(I, fa, pieces=False):
    if fa.template is None:
        return SBytes.of(fa.args)
    if pieces:
        out = _PieceList()
        r = _format_arguments(I, fa, out)
        return r.items
    return _format_arguments(I, fa, SBytes())


class _PieceList:
    def __init__(self):
        self.items = []

    def __add__(self, x):
        self.items.append(SBytes.of(x))
        return self


def _fmt_spec_value(I, arg):
    """Concrete int or concrete text of a formatting argument, else None."""
    v = peel(arg.ref)
    if isinstance(v, bool):
        return None
    if isinstance(v, int):
        return v
    if arg.kind == "display" and isinstance(v, (BufObj, BytesRef)) and v.sb.is_concrete():
        return v.sb.concrete()
    return None


def _fmt_with_spec(kind, v, flags, width):
    """core::fmt padding rules for integers and strings (fill, alignment, `0` flag, `#` flag)."""
    fill = chr(flags & 0x1FFFFF).encode("utf-8")
    zero = (flags >> 24) & 1
    alt = (flags >> 23) & 1
    plus = (flags >> 21) & 1
    align = (flags >> 29) & 3          # 0 left, 1 right, 2 centre, 3 unspecified
    if isinstance(v, int):
        body, prefix = {"display": (b"%d" % v, b""), "lower_hex": (b"%x" % v, b"0x"), "upper_hex": (b"%X" % v, b"0x"),
                        "binary": (bin(v)[2:].encode(), b"0b"), "octal": (b"%o" % v, b"0o")}[kind]
        prefix = (b"+" if plus and kind == "display" else b"") + (prefix if alt else b"")
        if width is None or len(prefix) + len(body) >= width:
            return prefix + body
        pad = width - len(prefix) - len(body)
        if zero:
            return prefix + b"0" * pad + body
        if align == 3:
            align = 1
        text = prefix + body
    else:
        text = v
        n_chars = len(v.decode("utf-8", "replace"))
        if width is None or n_chars >= width:
            return text
        pad = width - n_chars
        if align == 3:
            align = 0
    if align == 0:
        return text + fill * pad
    if align == 1:
        return fill * pad + text
    return fill * (pad // 2) + text + fill * (pad - pad // 2)


def _format_arguments(I, fa, out):
    t = fa.template
    i = 0
    argi = 0
    while True:
        n = t[i]
        i += 1
        if n == 0:
            break
        if n < 0x80:
            out = out + t[i:i + n]
            i += n
        elif n == 0x80:
            ln = t[i] | (t[i + 1] << 8)
            i += 2
            out = out + t[i:i + ln]
            i += ln
        else:
            plain = n == 0xC0
            flags, width, prec = 0x60000020, None, None
            if not plain:
                if n & 1:
                    flags = t[i] | (t[i + 1] << 8) | (t[i + 2] << 16) | (t[i + 3] << 24)
                    i += 4
                if n & 2:
                    width = t[i] | (t[i + 1] << 8)
                    i += 2
                if n & 4:
                    prec = t[i] | (t[i + 1] << 8)
                    i += 2
                if n & 8:
                    argi = t[i] | (t[i + 1] << 8)
                    i += 2
            arg = fa.args[argi]
            argi += 1
            if arg.kind == "display" and plain:
                out = out + display_of(I, arg.ref)
            elif arg.kind in ("display", "lower_hex", "upper_hex", "binary", "octal") and prec is None and (flags >> 27) & 1 == (1 if width is not None else 0) \
                    and _fmt_spec_value(I, arg) is not None:
                out = out + _fmt_with_spec(arg.kind, _fmt_spec_value(I, arg), flags, width)
            elif arg.kind == "display":
                # precision / runtime width / symbolic values: only error messages use them in this crate
                out = out + SBytes((sb.Atom("opaque", ("fmtopts", argi)),))
            else:
                _dbg_n[0] += 1
                out = out + SBytes((sb.Atom("opaque", ("debug", id(arg))),))
    return out


@T.path("format", "alloc::fmt::format", "std::fmt::format")
def _format(I, a, d):
    return mk_string(format_arguments(I, a[0]))


# ---------------------------------------------------------------------------
# String / str / slices

@T.path("std::string::String::new", "alloc::string::String::new")
def _string_new(I, a, d):
    return mk_string(b"")


@T.path("std::string::String::as_bytes", "alloc::string::String::as_bytes", "core::str::as_bytes", "str::as_bytes")
def _string_as_bytes(I, a, d):
    return BytesRef(as_sbytes(a[0]), "bytes")


@T.path("std::string::String::as_str", "alloc::string::String::as_str")
def _string_as_str(I, a, d):
    return BytesRef(as_sbytes(a[0]), "str")


@T.path("std::string::String::len", "core::str::len", "str::len")
def _string_len(I, a, d):
    return as_sbytes(a[0]).length()


@T.path("std::string::String::push_str", "alloc::string::String::push_str")
def _string_push_str(I, a, d):
    b = peel(a[0])
    b.sb = b.sb + as_sbytes(a[1])
    return UNIT


class Utf8ErrorObj:
    """std::str::Utf8Error / FromUtf8Error: remembers the offending bytes so that valid_up_to can be answered."""
    rust_type = "Utf8Error"

    def __init__(self, data):
        self.data = data

    def display(self, I):
        return SBytes((sb.Atom("opaque", ("utf8err",)),))


@T.path("std::string::String::from_utf8", "alloc::string::String::from_utf8")
def _string_from_utf8(I, a, d):
    from .fs import utf8_check
    data = as_sbytes(a[0])
    if utf8_check(I, data):
        return OK(mk_string(data))
    return ERR(Utf8ErrorObj(data))


@T.path("core::str::from_utf8", "std::str::from_utf8", "core::str::converts::from_utf8")
def _str_from_utf8(I, a, d):
    from .fs import utf8_check
    data = as_sbytes(a[0])
    if utf8_check(I, data):
        return OK(BytesRef(data, "str"))
    return ERR(Utf8ErrorObj(data))


@T.path("core::str::Utf8Error::valid_up_to", "std::str::Utf8Error::valid_up_to", "core::str::error::Utf8Error::valid_up_to")
def _utf8error_valid_up_to(I, a, d):
    """Length of the longest valid prefix.  Decided for byte strings made of concrete runs and text atoms (valid
    UTF-8 by axiom, each ending on a character boundary); symbolic damage inside the prefix is inconclusive."""
    e = peel(a[0])
    if not isinstance(e, Utf8ErrorObj):
        raise Inconclusive("valid_up_to on %r" % (e,))
    pos = 0
    run = b""
    for seg in e.data.segs:
        if isinstance(seg, bytes):
            run += seg
            continue
        try:
            run.decode("utf-8")
        except UnicodeDecodeError as ex:
            return sb._add(pos, ex.start)
        if not isinstance(seg, sb.Atom):
            raise Inconclusive("Utf8Error::valid_up_to over symbolic damage")
        ln = sb.seg_len(seg)
        if ln is None:
            raise Inconclusive("Utf8Error::valid_up_to: text atom of unknown length")
        pos = sb._add(sb._add(pos, len(run)), ln)
        run = b""
    try:
        run.decode("utf-8")
    except UnicodeDecodeError as ex:
        return sb._add(pos, ex.start)
    raise Inconclusive("Utf8Error for bytes that look valid")


@T.path("core::str::to_string", "str::to_string", "core::str::to_owned", "str::to_owned", "std::str::to_owned")
def _str_to_string(I, a, d):
    return mk_string(as_sbytes(a[0]))


@T.path("core::str::is_empty", "str::is_empty", "std::string::String::is_empty")
def _str_is_empty(I, a, d):
    ln = as_sbytes(a[0]).length()
    return (ln == 0) if not is_sym(ln) else (ln == z3.BitVecVal(0, 64))


def split_sbytes(s, sepbyte):
    """Split SBytes at a separator byte that can only occur in concrete segments / SymBytes.
    Returns list of SBytes or raises Inconclusive when a symbolic byte could be the separator
    (callers that support that pass through split_sbytes_sym)."""
    parts = [[]]
    for seg in s.segs:
        if isinstance(seg, bytes):
            chunks = seg.split(bytes([sepbyte]))
            for k, c in enumerate(chunks):
                if k > 0:
                    parts.append([])
                if c:
                    parts[-1].append(c)
        elif isinstance(seg, (sb.Atom,)):
            parts[-1].append(seg)
        elif isinstance(seg, sb.SymByte):
            parts[-1].append(seg)   # caller must have decided it is not the separator
        elif isinstance(seg, sb.CutSeg):
            parts[-1].append(seg)   # caller went through split_with_cuts: no separator inside
        else:
            if isinstance(seg, sb.BlobSeg):
                raise Inconclusive("split over opaque blob")
            parts[-1].append(seg)
    return [SBytes(p) for p in parts]


def split_with_cuts(I, s, sepbyte):
    """split_sbytes that also handles symbolic cuts of concrete bytes: forks (through the solver) on
    how many separators fall inside the cut."""
    if not s.has_kind(sb.CutSeg):
        return split_sbytes(s, sepbyte)
    segs = []
    for seg in s.segs:
        if not isinstance(seg, sb.CutSeg):
            segs.append(seg)
            continue
        cur = seg.lo
        hi = sb._bv(seg.hi)
        data = seg.data
        while True:
            p = data.find(bytes([sepbyte]), cur)
            if p < 0 or I.w.branch(z3.ULE(hi, z3.BitVecVal(p, 64)), "cut-before-sep"):
                segs.append(sb.CutSeg(data, cur, seg.hi))
                break
            segs.append(data[cur:p + 1])
            cur = p + 1
    return split_sbytes(SBytes(segs), sepbyte)


def decide_symbytes(I, s, specials):
    """Fork on each symbolic byte being one of the `specials` (list of byte values); returns an
    SBytes in which every SymByte that equals a special has been replaced by that concrete byte
    (and the others are constrained to differ from all specials)."""
    segs = []
    for seg in s.segs:
        if isinstance(seg, sb.SymByte):
            hit = None
            for sp in specials:
                if I.w.branch(seg.bv == z3.BitVecVal(sp, 8), "symbyte=%d" % sp):
                    hit = sp
                    break
            segs.append(bytes([hit]) if hit is not None else seg)
        else:
            segs.append(seg)
    return SBytes(segs)


class RIter:
    """A Rust iterator: next(I) -> value or RIter.STOP."""
    STOP = object()
    rust_type = "RIter"

    def __init__(self, nxt, back=None):
        self._next = nxt
        self._back = back

    def next(self, I):
        return self._next(I)

    @staticmethod
    def from_list(items):
        items = list(items)

        def nxt(I):
            if items:
                return items.pop(0)
            return RIter.STOP

        def back(I):
            if items:
                return items.pop()
            return RIter.STOP
        return RIter(nxt, back)

    def to_list(self, I, limit=10000):
        out = []
        while True:
            v = self.next(I)
            if v is RIter.STOP:
                return out
            out.append(v)
            if len(out) > limit:
                raise Hang("iterator does not terminate")


@T.path("core::str::split", "str::split", "std::str::split")
def _str_split(I, a, d):
    s = as_sbytes(a[0])
    sep = a[1]
    if not isinstance(sep, int):
        sepb = as_sbytes(sep).concrete()
        if len(sepb) != 1:
            raise Inconclusive("split on multi-byte pattern")
        sep = sepb[0]
    if sep > 127:
        raise Inconclusive("split on non-ASCII char")
    s = decide_symbytes(I, s, [sep])
    parts = [BytesRef(p, "str") for p in split_with_cuts(I, s, sep)]
    return RIter.from_list(parts)


@T.path("core::str::lines", "str::lines")
def _str_lines(I, a, d):
    raise Inconclusive("str::lines")


@T.path("core::str::trim", "str::trim")
def _str_trim(I, a, d):
    raise Inconclusive("str::trim")


@T.path("std::str::replace", "core::str::replace", "str::replace", "alloc::str::replace")
def _str_replace(I, a, d):
    s = as_sbytes(a[0])
    if s.is_concrete():
        frm = as_sbytes(a[1]).concrete()
        to = as_sbytes(a[2]).concrete()
        return mk_string(s.concrete().replace(frm, to))
    return mk_string(SBytes((sb.Atom("opaque", ("replace", id(s))),)))


@T.path("core::str::parse", "str::parse", "std::str::parse")
def _str_parse(I, a, d):
    tf = turbofish_of(d, "parse")
    target = base_type_name(tf[0])[-1] if tf else None
    m = T.lookup_trait("FromStr", "from_str", target or "")
    if m is None:
        raise Inconclusive("parse::<%s>" % target)
    return m[0](I, a, d)


def index_range(I, s, rng, what="slice"):
    """s[range] with Rust's bounds checks.  s: SBytes; returns SBytes."""
    rng = peel(rng)
    ln = s.length()
    name = rng.ty.split("::")[-1] if isinstance(rng, Agg) else None
    if name == "RangeFull":
        return s
    if name == "Range":
        lo, hi = rng.fields
    elif name == "RangeFrom":
        lo, hi = rng.fields[0], ln
    elif name == "RangeTo":
        lo, hi = 0, rng.fields[0]
    elif name == "RangeInclusive":
        lo, hi = rng.fields[0], rng.fields[1] + 1
    elif name == "RangeToInclusive":
        lo, hi = 0, rng.fields[0] + 1
    else:
        raise Inconclusive("index by %r" % (rng,))
    sym = is_sym(lo) or is_sym(hi) or is_sym(ln)
    if not sym:
        if lo > hi:
            panic("slice index starts at %d but ends at %d" % (lo, hi))
        if hi > ln:
            panic("range end index %d out of range for %s of length %d" % (hi, what, ln))
    else:
        if not I.w.branch(z3.ULE(bv(lo, 64), bv(hi, 64)), "idx-order"):
            panic("slice index starts after its end")
        if not I.w.branch(z3.ULE(bv(hi, 64), bv(ln, 64)), "idx-end"):
            panic("range end index out of range for %s" % what)
    return sb.slice_(s, lo, hi, I.w)


@T.trait("Index", "index", r"String$|^str$")
def _string_index(I, a, d):
    s = as_sbytes(a[0])
    # char-boundary checks: atoms and ASCII are always fine; non-ASCII concrete text is checked
    r = index_range(I, s, a[1], "string")
    if s.is_concrete():
        try:
            r.concrete().decode("utf-8")
        except UnicodeDecodeError:
            panic("byte index is not a char boundary")
    return BytesRef(r, "str")


@T.trait("Index", "index", r"^\[u8\]$|^\[u8; \d+\]$")
def _u8slice_index(I, a, d):
    v = peel(a[0])
    if isinstance(v, MutBytesRef):
        cur = sb.slice_(v.buf.sb, v.start, v.end, I.w)
    else:
        cur = as_sbytes(v)
    return BytesRef(index_range(I, cur, a[1]), "bytes")


@T.trait("IndexMut", "index_mut", r"^\[u8\]$|^\[u8; \d+\]$|Vec$")
def _u8slice_index_mut(I, a, d):
    v = peel(a[0])
    rng = peel(a[1])
    if isinstance(v, BufObj):
        base, start, end = v, 0, v.sb.length()
    elif isinstance(v, MutBytesRef):
        base, start, end = v.buf, v.start, v.end
    else:
        raise Inconclusive("index_mut on %r" % (v,))
    cur = sb.slice_(base.sb, start, end, I.w)
    name = rng.ty.split("::")[-1]
    ln = cur.length()
    if name == "RangeFull":
        lo, hi = 0, ln
    elif name == "Range":
        lo, hi = rng.fields
    elif name == "RangeFrom":
        lo, hi = rng.fields[0], ln
    elif name == "RangeTo":
        lo, hi = 0, rng.fields[0]
    else:
        raise Inconclusive("index_mut by %r" % (rng,))
    index_range(I, cur, rng)   # bounds checks (may panic)
    return MutBytesRef(base, _addv(start, lo), _addv(start, hi))


def _addv(a, b):
    if is_sym(a) or is_sym(b):
        return z3.simplify(bv(a, 64) + bv(b, 64))
    return a + b


@T.trait("Index", "index", r"Vec$")
def _vec_index(I, a, d):
    v = peel(a[0])
    rng = peel(a[1])
    if isinstance(v, BufObj):
        return BytesRef(index_range(I, v.sb, rng), "bytes")
    if isinstance(v, VecObj):
        if isinstance(rng, Agg) and rng.ty.endswith("RangeFull"):
            return SliceRef(v.items)
        if isinstance(rng, int):
            if not (0 <= rng < len(v.items)):
                panic("index out of bounds")
            return Ref(ElemLoc(v.items, rng))
        if isinstance(rng, Agg):
            name = rng.ty.split("::")[-1]
            n = len(v.items)
            lo, hi = {"Range": lambda: (rng.fields[0], rng.fields[1]), "RangeFrom": lambda: (rng.fields[0], n),
                      "RangeTo": lambda: (0, rng.fields[0])}[name]()
            if lo > hi or hi > n:
                panic("range out of bounds")
            return SliceRef(v.items, lo, hi)
    raise Inconclusive("Vec index %r" % (rng,))


@T.trait("PartialEq", "eq", r"String$|^str$|^&str$|^\[u8\]$|Vec$|PathBuf$|Path$")
def _bytes_eq(I, a, d):
    return sb.content_eq(as_sbytes(a[0]), as_sbytes(a[1]), I.w)


@T.trait("PartialEq", "ne", r"String$|^str$|^&str$|^\[u8\]$|Vec$|PathBuf$|Path$")
def _bytes_ne(I, a, d):
    return I._bnot(sb.content_eq(as_sbytes(a[0]), as_sbytes(a[1]), I.w))


class HasherObj:
    rust_type = "Hasher"

    def __init__(self):
        self.stream = SBytes()


@T.trait("Hash", "hash", r"String$|^str$")
def _string_hash(I, a, d):
    h = peel(a[1])
    if not isinstance(h, HasherObj):
        raise Inconclusive("Hash::hash into %r" % (h,))
    h.stream = h.stream + as_sbytes(a[0]) + b"\xff"
    return UNIT


@T.trait("Hash", "hash", r"^(usize|u64|u128|u32|u8)$")
def _int_hash(I, a, d):
    h = peel(a[1])
    v = peel(a[0])
    h.stream = h.stream + display_of(I, v) + b"|"
    return UNIT


@T.path("core::slice::copy_from_slice", "slice::copy_from_slice")
def _copy_from_slice(I, a, d):
    dst = peel(a[0])
    src = as_sbytes(a[1])
    if isinstance(dst, MutBytesRef):
        dlen = I._sub(dst.end, dst.start)
    elif isinstance(dst, BufObj):
        dst = MutBytesRef(dst, 0, dst.sb.length())
        dlen = dst.end
    elif hasattr(dst, "as_mut_bytes"):
        dst = dst.as_mut_bytes(I)
        dlen = I._sub(dst.end, dst.start)
    else:
        raise Inconclusive("copy_from_slice into %r" % (dst,))
    slen = src.length()
    if is_sym(dlen) or is_sym(slen):
        same = I.w.branch(bv(dlen, 64) == bv(slen, 64), "copy_from_slice-len")
    else:
        same = dlen == slen
    if not same:
        panic("copy_from_slice: source slice length does not match destination slice length")
    write_window(I, dst.buf, dst.start, src)
    return UNIT


def write_window(I, buf, start, data):
    """buf[start : start+len(data)] = data   (window inside the buffer: caller checked)."""
    old = buf.sb
    n = data.length()
    end = _addv(start, n)
    total = old.length()
    head = sb.slice_(old, 0, start, I.w)
    tail = sb.slice_(old, end, total, I.w)
    buf.sb = head + data + tail
    if hasattr(buf, "on_write"):
        buf.on_write(I)


@T.path("core::slice::len", "slice::len")
def _slice_len(I, a, d):
    return I.seq_length(a[0])


@T.path("core::slice::is_empty", "slice::is_empty")
def _slice_is_empty(I, a, d):
    ln = I.seq_length(a[0])
    return ln == 0 if not is_sym(ln) else ln == z3.BitVecVal(0, 64)


@T.path("core::slice::to_vec", "slice::to_vec")
def _slice_to_vec(I, a, d):
    return mk_vec_u8(as_sbytes(a[0]))


def _byte_end(I, v, front):
    """first()/last() of a byte string: Some(&byte) or None (forks on emptiness when the length is symbolic)."""
    from ..interp import ByteLoc
    ln = v.sb.length()
    if is_sym(ln):
        if I.w.branch(bv(ln, 64) == 0, "bytes-empty"):
            return NONE()
        if not front:
            raise Inconclusive("last byte of bytes of symbolic length")
    elif ln == 0:
        return NONE()
    idx = 0 if front else ln - 1
    return SOME(Ref(ByteLoc(v, idx)))


@T.path("core::slice::first", "slice::first")
def _slice_first(I, a, d):
    v = peel(a[0])
    if isinstance(v, SliceRef):
        return SOME(Ref(ElemLoc(v.items, v.start))) if len(v) else NONE()
    if isinstance(v, VecObj):
        return SOME(Ref(ElemLoc(v.items, 0))) if v.items else NONE()
    if isinstance(v, (BufObj, BytesRef)):
        return _byte_end(I, v, True)
    raise Inconclusive("slice::first on %r" % (v,))


@T.path("core::slice::last", "slice::last")
def _slice_last(I, a, d):
    v = peel(a[0])
    if isinstance(v, SliceRef):
        return SOME(Ref(ElemLoc(v.items, v.end - 1))) if len(v) else NONE()
    if isinstance(v, VecObj):
        return SOME(Ref(ElemLoc(v.items, len(v.items) - 1))) if v.items else NONE()
    if isinstance(v, (BufObj, BytesRef)):
        return _byte_end(I, v, False)
    raise Inconclusive("slice::last on %r" % (v,))


@T.path("core::slice::get", "slice::get")
def _slice_get(I, a, d):
    v = peel(a[0])
    i = a[1]
    if isinstance(v, (SliceRef, VecObj)) and isinstance(i, int):
        items = v.items
        start = v.start if isinstance(v, SliceRef) else 0
        n = len(v) if isinstance(v, SliceRef) else len(items)
        return SOME(Ref(ElemLoc(items, start + i))) if 0 <= i < n else NONE()
    raise Inconclusive("slice::get")


@T.path("core::slice::iter", "slice::iter")
def _slice_iter(I, a, d):
    v = peel(a[0])
    if isinstance(v, SliceRef):
        return RIter.from_list([Ref(ElemLoc(v.items, v.start + i)) for i in range(len(v))])
    if isinstance(v, VecObj):
        return RIter.from_list([Ref(ElemLoc(v.items, i)) for i in range(len(v.items))])
    if isinstance(v, Agg) and v.kind == "array":
        return RIter.from_list([Ref(ElemLoc(v.fields, i)) for i in range(len(v.fields))])
    if isinstance(v, (BufObj, BytesRef)):
        ln = v.sb.length()
        if not is_sym(ln) and v.sb.is_concrete():
            return RIter.from_list(list(v.sb.concrete()))
    raise Inconclusive("slice::iter on %r" % (v,))


# ---------------------------------------------------------------------------
# Vec

@T.path("std::vec::Vec::new", "alloc::vec::Vec::new")
def _vec_new(I, a, d):
    raw = d.get("raw", "") + " " + d.get("self", "")
    if re.search(r"Vec::<u8>|Vec<u8>", raw):
        return mk_vec_u8(b"")
    return VecObj([])


@T.path("std::vec::Vec::with_capacity", "alloc::vec::Vec::with_capacity")
def _vec_with_capacity(I, a, d):
    return _vec_new(I, a, d)


@T.path("std::vec::from_elem", "alloc::vec::from_elem")
def _vec_from_elem(I, a, d):
    v, n = a
    if isinstance(v, int) and not isinstance(v, bool):
        return mk_vec_u8(SBytes((sb.Fill(v, n),)))
    raise Inconclusive("vec![x; n]")


@T.path("std::vec::Vec::push", "alloc::vec::Vec::push")
def _vec_push(I, a, d):
    v = peel(a[0])
    if isinstance(v, VecObj):
        v.items.append(a[1])
        return UNIT
    if isinstance(v, BufObj):
        x = a[1]
        v.sb = v.sb + (bytes([x]) if isinstance(x, int) else SBytes((sb.SymByte(x),)))
        return UNIT
    raise Inconclusive("Vec::push on %r" % (v,))


@T.path("std::vec::Vec::len", "alloc::vec::Vec::len")
def _vec_len(I, a, d):
    return I.seq_length(peel(a[0]))


@T.path("std::vec::Vec::is_empty", "alloc::vec::Vec::is_empty")
def _vec_is_empty(I, a, d):
    ln = I.seq_length(peel(a[0]))
    return ln == 0 if not is_sym(ln) else ln == z3.BitVecVal(0, 64)


@T.path("std::vec::Vec::reserve", "alloc::vec::Vec::reserve")
def _vec_reserve(I, a, d):
    return UNIT


_junk_n = [0]


@T.path("std::vec::Vec::set_len", "alloc::vec::Vec::set_len")
def _vec_set_len(I, a, d):
    v = peel(a[0])
    n = a[1]
    if not isinstance(v, BufObj):
        raise Inconclusive("set_len on %r" % (v,))
    cur = v.sb.length()
    # shrink: truncate; grow: expose uninitialised (junk) bytes
    if (not is_sym(cur) and not is_sym(n) and n <= cur) or (is_sym(cur) or is_sym(n)) and I.w.branch(z3.ULE(bv(n, 64), bv(cur, 64)), "set_len-shrink"):
        v.sb = sb.slice_(v.sb, 0, n, I.w)
    else:
        _junk_n[0] += 1
        v.sb = v.sb + SBytes((sb.Junk(("uninit", I.w.fresh_name("uninit")), I._sub(n, cur)),))
    return UNIT


@T.path("std::vec::Vec::extend_from_slice", "alloc::vec::Vec::extend_from_slice")
def _vec_extend_from_slice(I, a, d):
    v = peel(a[0])
    v.sb = v.sb + as_sbytes(a[1])
    return UNIT


@T.path("std::vec::Vec::truncate", "alloc::vec::Vec::truncate")
def _vec_truncate(I, a, d):
    v = peel(a[0])
    if isinstance(v, BufObj):
        ln = v.sb.length()
        n = a[1]
        if is_sym(ln) or is_sym(n):
            if I.w.branch(z3.ULT(bv(n, 64), bv(ln, 64)), "truncate"):
                v.sb = sb.slice_(v.sb, 0, n, I.w)
        elif n < ln:
            v.sb = sb.slice_(v.sb, 0, n, I.w)
        return UNIT
    raise Inconclusive("truncate")


@T.path("std::vec::Vec::as_slice", "alloc::vec::Vec::as_slice")
def _vec_as_slice(I, a, d):
    return _deref(I, a, d)


@T.path("std::vec::Vec::clear", "alloc::vec::Vec::clear")
def _vec_clear(I, a, d):
    v = peel(a[0])
    if isinstance(v, BufObj):
        v.sb = SBytes()
    else:
        v.items.clear()
    return UNIT


# ---------------------------------------------------------------------------
# iterators

def _iter_of(v):
    v = peel(v) if not isinstance(v, RIter) else v
    if isinstance(v, RIter):
        return v
    raise Inconclusive("expected iterator, got %r" % (v,))


@T.trait("Iterator", "next")
def _it_next(I, a, d):
    it = _iter_of(a[0])
    v = it.next(I)
    return NONE() if v is RIter.STOP else SOME(v)


@T.trait("StreamExt", "next")
def _stream_next(I, a, d):
    from .asyncrt import NextFuture
    return NextFuture(a[0])


@T.trait("Iterator", "map")
def _it_map(I, a, d):
    it, f = _iter_of(a[0]), a[1]

    def nxt(I2):
        v = it.next(I2)
        if v is RIter.STOP:
            return v
        return I2.call_value(f, [v])
    return RIter(nxt)


@T.trait("Iterator", "map_while")
def _it_map_while(I, a, d):
    it, f = _iter_of(a[0]), a[1]
    state = {"done": False}

    def nxt(I2):
        if state["done"]:
            return RIter.STOP
        v = it.next(I2)
        if v is RIter.STOP:
            return v
        r = I2.call_value(f, [v])
        if r.vname == "None":
            # MapWhile is not fused, but collect()/for stop at the first None
            return RIter.STOP
        return r.fields[0]
    return RIter(nxt)


@T.trait("Iterator", "filter_map")
def _it_filter_map(I, a, d):
    it, f = _iter_of(a[0]), a[1]

    def nxt(I2):
        while True:
            v = it.next(I2)
            if v is RIter.STOP:
                return v
            r = I2.call_value(f, [v])
            if r.vname == "Some":
                return r.fields[0]
    return RIter(nxt)


@T.trait("Iterator", "filter")
def _it_filter(I, a, d):
    it, f = _iter_of(a[0]), a[1]

    def nxt(I2):
        while True:
            v = it.next(I2)
            if v is RIter.STOP:
                return v
            keep = I2.call_value(f, [Ref(ValLoc(v))])
            if truthy(I2, keep, "filter"):
                return v
            I2.drop_value(v)
    return RIter(nxt)


@T.trait("Iterator", "take_while")
def _it_take_while(I, a, d):
    it, f = _iter_of(a[0]), a[1]
    state = {"done": False}

    def nxt(I2):
        if state["done"]:
            return RIter.STOP
        v = it.next(I2)
        if v is RIter.STOP:
            return v
        keep = I2.call_value(f, [Ref(ValLoc(v))])
        if truthy(I2, keep, "take_while"):
            return v
        state["done"] = True
        I2.drop_value(v)
        return RIter.STOP
    return RIter(nxt)


@T.trait("Iterator", "flatten")
def _it_flatten(I, a, d):
    it = _iter_of(a[0])
    cur = {"inner": None}

    def nxt(I2):
        while True:
            if cur["inner"] is not None:
                v = cur["inner"].next(I2)
                if v is not RIter.STOP:
                    return v
                cur["inner"] = None
            o = it.next(I2)
            if o is RIter.STOP:
                return o
            cur["inner"] = to_iter(I2, o)
    return RIter(nxt)


def to_iter(I, o):
    """IntoIterator for values yielded inside flatten/flat_map."""
    if isinstance(o, RIter):
        return o
    if isinstance(o, Adt) and o.ty == "Option":
        return RIter.from_list([o.fields[0]] if o.vname == "Some" else [])
    if isinstance(o, Adt) and o.ty == "Result":
        if o.vname == "Err":
            I.drop_value(o.fields[0])
        return RIter.from_list([o.fields[0]] if o.vname == "Ok" else [])
    if isinstance(o, Adt) and o.ty == "Either":
        return to_iter(I, o.fields[0])
    return _into_iter(I, [o], {})


@T.trait("Iterator", "flat_map")
def _it_flat_map(I, a, d):
    mapped = _it_map(I, a, d)
    return _it_flatten(I, [mapped], d)


@T.trait("Iterator", "rev")
def _it_rev(I, a, d):
    it = _iter_of(a[0])
    if it._back is None:
        raise Inconclusive("rev on single-ended iterator")
    return RIter(it._back, it._next)


@T.trait("Iterator", "fold")
def _it_fold(I, a, d):
    it, acc, f = _iter_of(a[0]), a[1], a[2]
    while True:
        v = it.next(I)
        if v is RIter.STOP:
            return acc
        acc = I.call_value(f, [acc, v])


@T.trait("Iterator", "for_each")
def _it_for_each(I, a, d):
    it, f = _iter_of(a[0]), a[1]
    while True:
        v = it.next(I)
        if v is RIter.STOP:
            return UNIT
        I.call_value(f, [v])


@T.trait("Iterator", "count")
def _it_count(I, a, d):
    return len(_iter_of(a[0]).to_list(I))


@T.trait("Iterator", "last")
def _it_last(I, a, d):
    items = _iter_of(a[0]).to_list(I)
    for x in items[:-1]:
        I.drop_value(x)
    return SOME(items[-1]) if items else NONE()


@T.trait("Iterator", "enumerate")
def _it_enumerate(I, a, d):
    it = _iter_of(a[0])
    n = [0]

    def nxt(I2):
        v = it.next(I2)
        if v is RIter.STOP:
            return v
        n[0] += 1
        return Agg("tuple", None, [n[0] - 1, v])
    return RIter(nxt)


@T.trait("Iterator", "skip")
def _it_skip(I, a, d):
    it, n = _iter_of(a[0]), a[1]
    done = [False]

    def nxt(I2):
        if not done[0]:
            done[0] = True
            for _ in range(n):
                v = it.next(I2)
                if v is RIter.STOP:
                    return v
                I2.drop_value(v)
        return it.next(I2)
    return RIter(nxt)


@T.trait("Iterator", "take")
def _it_take(I, a, d):
    it, n = _iter_of(a[0]), [a[1]]

    def nxt(I2):
        if n[0] <= 0:
            return RIter.STOP
        n[0] -= 1
        return it.next(I2)
    return RIter(nxt)


@T.trait("Iterator", "cloned")
def _it_cloned(I, a, d):
    it = _iter_of(a[0])

    def nxt(I2):
        v = it.next(I2)
        if v is RIter.STOP:
            return v
        return clone_value(I2, v)
    return RIter(nxt)


@T.trait("Iterator", "chain")
def _it_chain(I, a, d):
    x, y = _iter_of(a[0]), to_iter(I, a[1])

    def nxt(I2):
        v = x.next(I2)
        if v is not RIter.STOP:
            return v
        return y.next(I2)
    return RIter(nxt)


class HashSetObj:
    rust_type = "HashSet"

    def __init__(self):
        self.items = []
        self.hashes = []

    def insert(self, I, v):
        h = HasherObj()
        I.call_trait_method("Hash", "hash", [Ref(ValLoc(v)), Ref(ValLoc(h), True)])
        for k, (x, hx) in enumerate(zip(self.items, self.hashes)):
            he = sb.content_eq(hx, h.stream, I.w)
            if not truthy(I, he, "hashset-hash"):
                continue     # different bucket/hash: equality is never consulted
            e = I.call_trait_method("PartialEq", "eq", [Ref(ValLoc(x)), Ref(ValLoc(v))])
            if truthy(I, e, "hashset-eq"):
                I.drop_value(v)
                return False
        self.items.append(v)
        self.hashes.append(h.stream)
        return True


@T.trait("Iterator", "collect")
def _it_collect(I, a, d):
    it = _iter_of(a[0])
    tf = turbofish_of(d, "collect")
    target = tf[0] if tf else ""
    return collect_into(I, it, target)


def collect_into(I, it, target):
    tb = base_type_name(target)[-1] if target else "Vec"
    if tb == "Vec":
        items = it.to_list(I)
        ga = generic_args(target)
        if ga and ga[0] == "u8":
            return mk_vec_u8(SBytes([bytes([x]) if isinstance(x, int) else sb.SymByte(x) for x in items]))
        return VecObj(items)
    if tb == "HashSet":
        hs = HashSetObj()
        for v in it.to_list(I):
            hs.insert(I, v)
        return hs
    if tb == "Result":
        ga = generic_args(target)
        inner_items = []
        while True:
            v = it.next(I)
            if v is RIter.STOP:
                break
            if v.vname == "Err":
                for x in inner_items:
                    I.drop_value(x)
                return ERR(v.fields[0])
            inner_items.append(v.fields[0])
        return OK(collect_into(I, RIter.from_list(inner_items), ga[0] if ga else "Vec"))
    if tb == "String":
        out = SBytes()
        for v in it.to_list(I):
            out = out + (as_sbytes(v) if not isinstance(v, int) else chr(v).encode())
        return mk_string(out)
    raise Inconclusive("collect::<%s>" % target)


@T.path("std::iter::once", "core::iter::once", "once")
def _iter_once(I, a, d):
    return RIter.from_list([a[0]])


@T.path("std::iter::empty", "core::iter::empty")
def _iter_empty(I, a, d):
    return RIter.from_list([])


# Either<L, R> as Iterator is handled by to_iter(); direct calls:
@T.trait("Iterator", "next", r"Either$")
def _either_next(I, a, d):
    e = peel(a[0])
    return _it_next(I, [e.fields[0]], d)


# ---------------------------------------------------------------------------
# Path / PathBuf

def path_components(s):
    """(is_abs, [component SBytes]) -- '.' components and empty ones dropped like Path::components."""
    parts = split_sbytes(s, 0x2F)
    is_abs = False
    if s.segs and isinstance(s.segs[0], bytes) and s.segs[0].startswith(b"/"):
        is_abs = True
    comps = []
    for k, p in enumerate(parts):
        if not p.segs:
            continue
        if p.is_concrete() and p.concrete() == b"." and (k > 0 or len(parts) > 1):
            if k > 0:
                continue
        comps.append(p)
    return is_abs, comps


def path_from(is_abs, comps):
    out = SBytes(b"/") if is_abs else SBytes()
    for k, c in enumerate(comps):
        if k > 0:
            out = out + b"/"
        out = out + c
    return out


def path_join(base, p):
    if p.segs and isinstance(p.segs[0], bytes) and p.segs[0].startswith(b"/"):
        return p
    if not base.segs:
        return p
    last = base.segs[-1]
    if isinstance(last, bytes) and last.endswith(b"/"):
        return base + p
    return base + b"/" + p


@T.path("std::path::PathBuf::new")
def _pathbuf_new(I, a, d):
    return mk_pathbuf(b"")


@T.path("std::path::PathBuf::push")
def _pathbuf_push(I, a, d):
    b = peel(a[0])
    b.sb = path_join(b.sb, as_sbytes(a[1]))
    return UNIT


@T.path("std::path::Path::join")
def _path_join(I, a, d):
    return mk_pathbuf(path_join(as_sbytes(a[0]), as_sbytes(a[1])))


@T.path("std::path::Path::new")
def _path_new(I, a, d):
    return BytesRef(as_sbytes(a[0]), "path")


@T.path("std::path::Path::to_path_buf", "std::path::Path::to_owned")
def _path_to_path_buf(I, a, d):
    return mk_pathbuf(as_sbytes(a[0]))


@T.path("std::path::PathBuf::as_path")
def _pathbuf_as_path(I, a, d):
    return BytesRef(as_sbytes(a[0]), "path")


@T.path("std::path::Path::parent")
def _path_parent(I, a, d):
    s = as_sbytes(a[0])
    is_abs, comps = path_components(s)
    if not comps:
        return NONE()
    return SOME(BytesRef(path_from(is_abs, comps[:-1]), "path"))


@T.path("std::path::Path::file_name")
def _path_file_name(I, a, d):
    s = as_sbytes(a[0])
    is_abs, comps = path_components(s)
    if not comps:
        return NONE()
    return SOME(BytesRef(comps[-1], "osstr"))


@T.path("std::path::Path::display")
def _path_display(I, a, d):
    return DisplayWrap(as_sbytes(a[0]))


@T.path("std::path::Path::to_str")
def _path_to_str(I, a, d):
    return SOME(BytesRef(as_sbytes(a[0]), "str"))


@T.path("std::path::Path::to_string_lossy")
def _path_to_string_lossy(I, a, d):
    return Adt("Cow", 0, "Borrowed", [BytesRef(as_sbytes(a[0]), "str")])


@T.path("std::path::Path::is_absolute")
def _path_is_absolute(I, a, d):
    s = as_sbytes(a[0])
    return bool(s.segs and isinstance(s.segs[0], bytes) and s.segs[0].startswith(b"/"))


@T.path("std::path::Path::is_relative")
def _path_is_relative(I, a, d):
    return not _path_is_absolute(I, a, d)


@T.path("std::path::Path::starts_with")
def _path_starts_with(I, a, d):
    _, c1 = path_components(as_sbytes(a[0]))
    _, c2 = path_components(as_sbytes(a[1]))
    if len(c2) > len(c1):
        return False
    return all(x.key() == y.key() for x, y in zip(c1, c2))


@T.path("std::env::temp_dir")
def _env_temp_dir(I, a, d):
    return mk_pathbuf(b"/root/systmp")


@T.path("std::env::current_dir")
def _env_current_dir(I, a, d):
    return OK(mk_pathbuf(I.env.vfs.cwd))


# ---------------------------------------------------------------------------
# hex / misc

@T.path("hex::encode", "encode")
def _hex_encode(I, a, d):
    v = peel(a[0])
    if hasattr(v, "digest"):
        dg = v.digest
        if dg.raw is not None:
            return mk_string(dg.raw.hex().encode())
        return mk_string(SBytes((sb.Atom("hex", dg),)))
    s = as_sbytes(v)
    if s.is_concrete():
        return mk_string(s.concrete().hex().encode())
    raise Inconclusive("hex::encode of symbolic bytes")


@T.path("std::cmp::min", "core::cmp::min")
def _cmp_min(I, a, d):
    x, y = a
    if is_sym(x) or is_sym(y):
        return z3.If(z3.ULE(bv(x, 64), bv(y, 64)), bv(x, 64), bv(y, 64))
    return min(x, y)


@T.path("std::cmp::max", "core::cmp::max")
def _cmp_max(I, a, d):
    x, y = a
    if is_sym(x) or is_sym(y):
        return z3.If(z3.UGE(bv(x, 64), bv(y, 64)), bv(x, 64), bv(y, 64))
    return max(x, y)


@T.path("core::panicking::panic", "core::panicking::panic_fmt", "std::rt::begin_panic", "core::panicking::panic_explicit",
        "std::rt::panic_fmt", "core::panicking::panic_display", "core::option::unwrap_failed", "core::result::unwrap_failed",
        "core::option::expect_failed")
def _panic(I, a, d):
    panic("explicit panic")


@T.path("std::process::abort", "std::process::exit", "core::intrinsics::abort")
def _abort(I, a, d):
    raise RustAbort("process::abort/exit")


# ---------------------------------------------------------------------------
# slice / Vec algorithms that a refactoring of the index code might reach for

def _items_of(v):
    v = peel(v)
    if isinstance(v, SliceRef):
        return v
    if isinstance(v, VecObj):
        return SliceRef(v.items)
    raise Inconclusive("expected slice/Vec, got %r" % (v,))


def key_less(I, a, b, label):
    """a < b on ordered model values (ints, symbolic ints, byte strings, Option, tuples) -> bool via branch."""
    a, b = peel(a), peel(b)
    if isinstance(a, (BufObj, BytesRef)) and isinstance(b, (BufObj, BytesRef)):
        if a.sb.is_concrete() and b.sb.is_concrete():
            return a.sb.concrete() < b.sb.concrete()
        raise Inconclusive("ordering of symbolic strings")
    if isinstance(a, Adt) and isinstance(b, Adt) and a.ty == b.ty:
        if a.variant != b.variant:
            return a.variant < b.variant
        for x, y in zip(a.fields, b.fields):
            if key_less(I, x, y, label):
                return True
            if key_less(I, y, x, label):
                return False
        return False
    if isinstance(a, Agg) and isinstance(b, Agg):
        for x, y in zip(a.fields, b.fields):
            if key_less(I, x, y, label):
                return True
            if key_less(I, y, x, label):
                return False
        return False
    if isinstance(a, bool) or isinstance(b, bool):
        return (not a) and b
    if is_sym(a) or is_sym(b):
        w = a.size() if is_sym(a) else b.size()
        return I.w.branch(z3.ULT(bv(a, w), bv(b, w)), label)
    if isinstance(a, int) and isinstance(b, int):
        return a < b
    raise Inconclusive("ordering of %r and %r" % (a, b))


def _stable_sort(I, s, less):
    items = [s.items[s.start + i] for i in range(len(s))]
    out = []
    for x in items:                      # insertion sort keeps equal elements in order
        pos = len(out)
        while pos > 0 and less(x, out[pos - 1]):
            pos -= 1
        out.insert(pos, x)
    for i, x in enumerate(out):
        s.items[s.start + i] = x


def _ordering_less(I, f):
    def less(x, y):
        o = I.call_value(f, [Ref(ValLoc(x)), Ref(ValLoc(y))])
        return isinstance(o, Adt) and o.vname == "Less"
    return less


@T.path("core::slice::sort_by_key", "slice::sort_by_key", "core::slice::sort_by_cached_key", "core::slice::sort_unstable_by_key")
def _slice_sort_by_key(I, a, d):
    s = _items_of(a[0])
    f = a[1]
    keys = {}

    def key(x):
        if id(x) not in keys:
            keys[id(x)] = I.call_value(f, [Ref(ValLoc(x))])
        return keys[id(x)]
    _stable_sort(I, s, lambda x, y: key_less(I, key(x), key(y), "sort-key"))
    return UNIT


@T.path("core::slice::sort_by", "slice::sort_by", "core::slice::sort_unstable_by")
def _slice_sort_by(I, a, d):
    _stable_sort(I, _items_of(a[0]), _ordering_less(I, a[1]))
    return UNIT


@T.path("core::slice::sort", "slice::sort", "core::slice::sort_unstable")
def _slice_sort(I, a, d):
    _stable_sort(I, _items_of(a[0]), lambda x, y: key_less(I, x, y, "sort"))
    return UNIT


@T.path("core::slice::reverse", "slice::reverse")
def _slice_reverse(I, a, d):
    s = _items_of(a[0])
    items = [s.items[s.start + i] for i in range(len(s))][::-1]
    for i, x in enumerate(items):
        s.items[s.start + i] = x
    return UNIT


@T.path("core::slice::contains", "slice::contains")
def _slice_contains(I, a, d):
    s = _items_of(a[0])
    for i in range(len(s)):
        if truthy(I, values_eq(I, s.at(i), a[1]), "contains"):
            return True
    return False


@T.path("core::slice::iter_mut", "slice::iter_mut")
def _slice_iter_mut(I, a, d):
    s = _items_of(a[0])
    return RIter.from_list([Ref(ElemLoc(s.items, s.start + i), True) for i in range(len(s))])


@T.trait("DerefMut", "deref_mut", r"Vec$")
def _vec_deref_mut(I, a, d):
    v = peel(a[0])
    if isinstance(v, VecObj):
        return SliceRef(v.items)
    if isinstance(v, BufObj):
        return MutBytesRef(v, 0, v.sb.length())
    raise Inconclusive("DerefMut on %r" % (v,))


def _dedup(I, v, same):
    v = peel(v)
    if not isinstance(v, VecObj):
        raise Inconclusive("dedup on %r" % (v,))
    out = []
    for x in v.items:
        if out and same(x, out[-1]):
            I.drop_value(x)
            continue
        out.append(x)
    v.items[:] = out
    return UNIT


@T.path("std::vec::Vec::dedup_by", "alloc::vec::Vec::dedup_by")
def _vec_dedup_by(I, a, d):
    f = a[1]
    return _dedup(I, a[0], lambda x, prev: truthy(I, I.call_value(f, [Ref(ValLoc(x), True), Ref(ValLoc(prev), True)]), "dedup_by"))


@T.path("std::vec::Vec::dedup_by_key", "alloc::vec::Vec::dedup_by_key")
def _vec_dedup_by_key(I, a, d):
    f = a[1]
    return _dedup(I, a[0], lambda x, prev: truthy(I, values_eq(I, I.call_value(f, [Ref(ValLoc(x), True)]), I.call_value(f, [Ref(ValLoc(prev), True)])), "dedup_by_key"))


@T.path("std::vec::Vec::dedup", "alloc::vec::Vec::dedup")
def _vec_dedup(I, a, d):
    return _dedup(I, a[0], lambda x, prev: truthy(I, I.call_trait_method("PartialEq", "eq", [Ref(ValLoc(x)), Ref(ValLoc(prev))]), "dedup"))


@T.path("std::vec::Vec::retain", "alloc::vec::Vec::retain")
def _vec_retain(I, a, d):
    v = peel(a[0])
    f = a[1]
    if not isinstance(v, VecObj):
        raise Inconclusive("retain on %r" % (v,))
    out = []
    for x in v.items:
        if truthy(I, I.call_value(f, [Ref(ValLoc(x))]), "retain"):
            out.append(x)
        else:
            I.drop_value(x)
    v.items[:] = out
    return UNIT


@T.path("std::vec::Vec::pop", "alloc::vec::Vec::pop")
def _vec_pop(I, a, d):
    v = peel(a[0])
    if isinstance(v, VecObj):
        return SOME(v.items.pop()) if v.items else NONE()
    raise Inconclusive("Vec<u8>::pop")


@T.path("std::vec::Vec::insert", "alloc::vec::Vec::insert")
def _vec_insert(I, a, d):
    v = peel(a[0])
    if isinstance(v, VecObj) and isinstance(a[1], int):
        if a[1] > len(v.items):
            panic("insertion index out of bounds")
        v.items.insert(a[1], a[2])
        return UNIT
    raise Inconclusive("Vec::insert")


@T.path("std::vec::Vec::remove", "alloc::vec::Vec::remove", "std::vec::Vec::swap_remove")
def _vec_remove(I, a, d):
    v = peel(a[0])
    if isinstance(v, VecObj) and isinstance(a[1], int):
        if a[1] >= len(v.items):
            panic("removal index out of bounds")
        return v.items.pop(a[1])
    raise Inconclusive("Vec::remove")


@T.path("std::vec::Vec::iter", "alloc::vec::Vec::iter")
def _vec_iter(I, a, d):
    return _slice_iter(I, a, d)


@T.path("std::vec::Vec::into_iter")
def _vec_into_iter2(I, a, d):
    return _into_iter(I, a, d)


@T.path("std::vec::Vec::first", "std::vec::Vec::last")
def _vec_first_last(I, a, d):
    if d["segs"][-1] == "first":
        return _slice_first(I, a, d)
    return _slice_last(I, a, d)


def _extreme(I, it, keyf, want_max, label):
    best, bestk = None, None
    while True:
        v = it.next(I)
        if v is RIter.STOP:
            break
        k = keyf(v)
        if best is None:
            best, bestk = v, k
            continue
        if want_max:
            # max_by_key returns the LAST maximal element
            if not key_less(I, k, bestk, label):
                I.drop_value(best)
                best, bestk = v, k
            else:
                I.drop_value(v)
        else:
            # min_by_key returns the FIRST minimal element
            if key_less(I, k, bestk, label):
                I.drop_value(best)
                best, bestk = v, k
            else:
                I.drop_value(v)
    return NONE() if best is None else SOME(best)


@T.trait("Iterator", "max_by_key")
def _it_max_by_key(I, a, d):
    f = a[1]
    return _extreme(I, _iter_of(a[0]), lambda v: I.call_value(f, [Ref(ValLoc(v))]), True, "max_by_key")


@T.trait("Iterator", "min_by_key")
def _it_min_by_key(I, a, d):
    f = a[1]
    return _extreme(I, _iter_of(a[0]), lambda v: I.call_value(f, [Ref(ValLoc(v))]), False, "min_by_key")


@T.trait("Iterator", "max")
def _it_max(I, a, d):
    return _extreme(I, _iter_of(a[0]), lambda v: v, True, "max")


@T.trait("Iterator", "min")
def _it_min(I, a, d):
    return _extreme(I, _iter_of(a[0]), lambda v: v, False, "min")


@T.trait("Iterator", "max_by")
def _it_max_by(I, a, d):
    f = a[1]
    it = _iter_of(a[0])
    best = None
    while True:
        v = it.next(I)
        if v is RIter.STOP:
            break
        if best is None:
            best = v
            continue
        o = I.call_value(f, [Ref(ValLoc(best)), Ref(ValLoc(v))])
        if o.vname != "Greater":
            I.drop_value(best)
            best = v
        else:
            I.drop_value(v)
    return NONE() if best is None else SOME(best)


@T.trait("Iterator", "find")
def _it_find(I, a, d):
    it, f = _iter_of(a[0]), a[1]
    while True:
        v = it.next(I)
        if v is RIter.STOP:
            return NONE()
        if truthy(I, I.call_value(f, [Ref(ValLoc(v))]), "find"):
            return SOME(v)
        I.drop_value(v)


@T.trait("Iterator", "find_map")
def _it_find_map(I, a, d):
    it, f = _iter_of(a[0]), a[1]
    while True:
        v = it.next(I)
        if v is RIter.STOP:
            return NONE()
        r = I.call_value(f, [v])
        if r.vname == "Some":
            return r


@T.trait("Iterator", "position")
def _it_position(I, a, d):
    it, f = _iter_of(a[0]), a[1]
    i = 0
    while True:
        v = it.next(I)
        if v is RIter.STOP:
            return NONE()
        if truthy(I, I.call_value(f, [v]), "position"):
            return SOME(i)
        i += 1


@T.trait("Iterator", "any")
def _it_any(I, a, d):
    it, f = _iter_of(a[0]), a[1]
    while True:
        v = it.next(I)
        if v is RIter.STOP:
            return False
        if truthy(I, I.call_value(f, [v]), "any"):
            return True


@T.trait("Iterator", "all")
def _it_all(I, a, d):
    it, f = _iter_of(a[0]), a[1]
    while True:
        v = it.next(I)
        if v is RIter.STOP:
            return True
        if not truthy(I, I.call_value(f, [v]), "all"):
            return False


@T.trait("Iterator", "nth")
def _it_nth(I, a, d):
    it, n = _iter_of(a[0]), a[1]
    for _ in range(n):
        v = it.next(I)
        if v is RIter.STOP:
            return NONE()
        I.drop_value(v)
    v = it.next(I)
    return NONE() if v is RIter.STOP else SOME(v)


@T.trait("Iterator", "peekable")
def _it_peekable(I, a, d):
    raise Inconclusive("Iterator::peekable")


@T.trait("DoubleEndedIterator", "next_back")
def _it_next_back(I, a, d):
    it = _iter_of(a[0])
    if it._back is None:
        raise Inconclusive("next_back on single-ended iterator")
    v = it._back(I)
    return NONE() if v is RIter.STOP else SOME(v)


@T.trait("Ord", "cmp")
def _ord_cmp(I, a, d):
    x, y = a
    if key_less(I, x, y, "cmp-lt"):
        return Adt("Ordering", 0, "Less")
    if key_less(I, y, x, "cmp-gt"):
        return Adt("Ordering", 2, "Greater")
    return Adt("Ordering", 1, "Equal")


@T.trait("PartialOrd", "partial_cmp")
def _partial_cmp(I, a, d):
    return SOME(_ord_cmp(I, a, d))


@T.path("std::cmp::Ordering::reverse", "core::cmp::Ordering::reverse")
def _ordering_reverse(I, a, d):
    o = peel(a[0])
    return {"Less": Adt("Ordering", 2, "Greater"), "Greater": Adt("Ordering", 0, "Less"), "Equal": o}[o.vname]


@T.path("std::cmp::Ordering::then", "std::cmp::Ordering::then_with")
def _ordering_then(I, a, d):
    o = peel(a[0])
    if o.vname != "Equal":
        return o
    if d["segs"][-1] == "then":
        return a[1]
    return I.call_value(a[1], [])


# HashMap / BTreeMap keyed by model values (keys compared through their PartialEq)
class MapObj:
    rust_type = "Map"

    def __init__(self, ordered=False):
        self.items = []     # [key, value]
        self.ordered = ordered

    def find(self, I, k):
        for ent in self.items:
            if truthy(I, values_eq(I, ent[0], k), "map-key-eq"):
                return ent
        return None


@T.path("std::collections::HashMap::new", "std::collections::BTreeMap::new", "std::collections::HashMap::with_capacity")
def _map_new(I, a, d):
    return MapObj("BTreeMap" in d.get("raw", ""))


@T.path("std::collections::HashMap::insert", "std::collections::BTreeMap::insert")
def _map_insert(I, a, d):
    m = peel(a[0])
    ent = m.find(I, a[1])
    if ent is not None:
        old = ent[1]
        ent[1] = a[2]
        I.drop_value(a[1])
        return SOME(old)
    m.items.append([a[1], a[2]])
    return NONE()


@T.path("std::collections::HashMap::get", "std::collections::BTreeMap::get")
def _map_get(I, a, d):
    m = peel(a[0])
    ent = m.find(I, a[1])
    return SOME(Ref(ElemLoc(ent, 1))) if ent is not None else NONE()


@T.path("std::collections::HashMap::remove", "std::collections::BTreeMap::remove")
def _map_remove(I, a, d):
    m = peel(a[0])
    ent = m.find(I, a[1])
    if ent is None:
        return NONE()
    m.items.remove(ent)
    return SOME(ent[1])


@T.path("std::collections::HashMap::contains_key", "std::collections::BTreeMap::contains_key")
def _map_contains_key(I, a, d):
    return peel(a[0]).find(I, a[1]) is not None


@T.path("std::collections::HashMap::into_values", "std::collections::BTreeMap::into_values", "std::collections::HashMap::values", "std::collections::BTreeMap::values")
def _map_values(I, a, d):
    m = peel(a[0])
    vals = [e[1] for e in m.items]
    if not m.ordered and len(vals) > 1 and I.w.choose(2, "hashmap-order") == 1:
        vals.reverse()
    if d["segs"][-1] == "values":
        return RIter.from_list([Ref(ValLoc(v)) for v in vals])
    return RIter.from_list(vals)


@T.path("std::collections::HashSet::new")
def _hashset_new(I, a, d):
    return HashSetObj()


@T.path("std::collections::HashSet::insert")
def _hashset_insert(I, a, d):
    return peel(a[0]).insert(I, a[1])


@T.path("std::collections::HashSet::contains")
def _hashset_contains(I, a, d):
    hs = peel(a[0])
    for x in hs.items:
        if truthy(I, I.call_trait_method("PartialEq", "eq", [Ref(ValLoc(x)), a[1]]), "hashset-contains"):
            return True
    return False


def _fn_call(I, a, d):
    tup = a[1]
    unpacked = list(tup.fields) if isinstance(tup, Agg) else ([] if tup is UNIT else [tup])
    return I.call_value(a[0], unpacked)


for _tr, _m in (("Fn", "call"), ("FnMut", "call_mut"), ("FnOnce", "call_once")):
    T.trait(_tr, _m)(_fn_call)


@T.trait("Ord", "min")
def _ord_min(I, a, d):
    x, y = a
    if is_sym(x) or is_sym(y):
        w = x.size() if is_sym(x) else y.size()
        return z3.If(z3.ULE(bv(x, w), bv(y, w)), bv(x, w), bv(y, w))
    if isinstance(x, int) and isinstance(y, int):
        return min(x, y)
    return y if key_less(I, y, x, "min") else x


@T.trait("Ord", "max")
def _ord_max(I, a, d):
    x, y = a
    if is_sym(x) or is_sym(y):
        w = x.size() if is_sym(x) else y.size()
        return z3.If(z3.UGE(bv(y, w), bv(x, w)), bv(y, w), bv(x, w))
    if isinstance(x, int) and isinstance(y, int):
        return max(x, y)
    return x if key_less(I, y, x, "max") else y


@T.trait("Ord", "clamp")
def _ord_clamp(I, a, d):
    return _ord_min(I, [_ord_max(I, [a[0], a[1]], d), a[2]], d)


# ---------------------------------------------------------------------------
# more str API (pattern arguments: &str / char / String)

def _pattern_bytes(p):
    p = peel(p)
    if isinstance(p, int) and not isinstance(p, bool):
        return chr(p).encode("utf-8")
    return as_sbytes(p).concrete() if as_sbytes(p).is_concrete() else None


def _concrete_or_none(s):
    s = sb.concretise_atoms(s)
    return s.concrete() if s.is_concrete() else None


def _contains(I, hay, pat):
    hb = _concrete_or_none(hay)
    if pat is None:
        raise Inconclusive("symbolic pattern")
    if hb is not None:
        return pat in hb
    # atoms / symbolic parts: a hit inside a concrete run is decisive
    for seg in hay.segs:
        if isinstance(seg, bytes) and pat in seg:
            return True
    if (hay.has_kind(sb.CutSeg) or hay.has_kind(sb.SymByte)) and not hay.has_kind(sb.BlobSeg) and len(pat) == 1 and pat[0] < 0x80:
        # a single ASCII byte: decide every symbolic byte / cut position through the solver
        h2 = decide_symbytes(I, hay, [pat[0]])
        return len(split_with_cuts(I, h2, pat[0])) > 1
    if hay.has_kind(sb.CutSeg) or hay.has_kind(sb.SymByte) or hay.has_kind(sb.BlobSeg):
        raise Inconclusive("str::contains over symbolic bytes")
    # text atoms (digits / hex / base64 alphabets): a pattern with a byte outside those alphabets cannot
    # lie inside or across an atom
    alphabet = b"0123456789abcdefghijklmnopqrstuvwxyzABCDEFGHIJKLMNOPQRSTUVWXYZ+/="
    segs = list(hay.segs)
    possible = False
    for i, seg in enumerate(segs):
        if not isinstance(seg, sb.Atom):
            continue
        L = segs[i - 1] if i > 0 and isinstance(segs[i - 1], bytes) else b""
        R = segs[i + 1] if i + 1 < len(segs) and isinstance(segs[i + 1], bytes) else b""
        more_left = i > 1 or (i == 1 and not isinstance(segs[0], bytes))
        more_right = i + 2 < len(segs) or (i + 1 < len(segs) and not isinstance(segs[i + 1], bytes))
        for st in range(len(pat)):
            for en in range(st + 1, len(pat) + 1):
                if any(ch not in alphabet for ch in pat[st:en]):
                    break
                x, y = pat[:st], pat[en:]
                okx = L.endswith(x) if len(x) <= len(L) else (more_left and x.endswith(L))
                oky = R.startswith(y) if len(y) <= len(R) else (more_right and y.startswith(R))
                if okx and oky:
                    possible = True
    if not possible:
        return False
    raise Inconclusive("str::contains undecided over text atoms")


@T.path("core::str::contains", "str::contains")
def _str_contains(I, a, d):
    return _contains(I, as_sbytes(a[0]), _pattern_bytes(a[1]))


def _affix_eq(I, s, p, front):
    """Does the (partly symbolic) text s start / end with the concrete bytes p?"""
    m = len(p)
    ln = s.length()
    if is_sym(ln):
        if not I.w.branch(z3.UGE(bv(ln, 64), bv(m, 64)), "affix-len"):
            return False
    elif ln < m:
        return False
    part = sb.slice_(s, 0, m, I.w) if front else sb.slice_(s, I._sub(ln, m), ln, I.w)
    e = sb.content_eq(part, SBytes.of(p), I.w)
    if e is True or e is False:
        return e
    return I.w.branch(e, "affix-eq")


@T.path("core::str::starts_with", "str::starts_with")
def _str_starts_with(I, a, d):
    s, p = sb.concretise_atoms(as_sbytes(a[0])), _pattern_bytes(a[1])
    if p is None:
        raise Inconclusive("symbolic pattern")
    if s.segs and isinstance(s.segs[0], bytes) and len(s.segs[0]) >= len(p):
        return s.segs[0].startswith(p)
    if s.is_concrete():
        return s.concrete().startswith(p)
    if not s.segs:
        return p == b""
    return _affix_eq(I, s, p, True)


@T.path("core::str::ends_with", "str::ends_with")
def _str_ends_with(I, a, d):
    s, p = sb.concretise_atoms(as_sbytes(a[0])), _pattern_bytes(a[1])
    if p is None:
        raise Inconclusive("symbolic pattern")
    if s.segs and isinstance(s.segs[-1], bytes) and len(s.segs[-1]) >= len(p):
        return s.segs[-1].endswith(p)
    if s.is_concrete():
        return s.concrete().endswith(p)
    if not s.segs:
        return p == b""
    return _affix_eq(I, s, p, False)


@T.path("core::str::find", "str::find")
def _str_find(I, a, d):
    s, p = _concrete_or_none(as_sbytes(a[0])), _pattern_bytes(a[1])
    if s is None or p is None:
        raise Inconclusive("str::find over symbolic text")
    i = s.find(p)
    return NONE() if i < 0 else SOME(i)


@T.path("core::str::split_once", "str::split_once")
def _str_split_once(I, a, d):
    s, p = as_sbytes(a[0]), _pattern_bytes(a[1])
    if p is None or len(p) != 1:
        raise Inconclusive("split_once pattern")
    s2 = decide_symbytes(I, s, [p[0]])
    parts = split_with_cuts(I, s2, p[0])
    if len(parts) < 2:
        return NONE()
    rest = parts[1]
    for q in parts[2:]:
        rest = rest + p + q
    return SOME(Agg("tuple", None, [BytesRef(parts[0], "str"), BytesRef(rest, "str")]))


@T.path("core::str::splitn", "str::splitn")
def _str_splitn(I, a, d):
    s, n, p = as_sbytes(a[0]), a[1], _pattern_bytes(a[2])
    if p is None or len(p) != 1 or not isinstance(n, int):
        raise Inconclusive("splitn pattern")
    s2 = decide_symbytes(I, s, [p[0]])
    parts = split_with_cuts(I, s2, p[0])
    if n <= 0:
        return RIter.from_list([])
    if len(parts) > n:
        rest = parts[n - 1]
        for q in parts[n:]:
            rest = rest + p + q
        parts = parts[:n - 1] + [rest]
    return RIter.from_list([BytesRef(x, "str") for x in parts])


def _trim(b, left=True, right=True):
    ws = b" \t\n\r\x0b\x0c"
    if left:
        b = b.lstrip(ws)
    if right:
        b = b.rstrip(ws)
    return b


def _str_trim_generic(left, right):
    def f(I, a, d):
        s = sb.concretise_atoms(as_sbytes(a[0]))
        segs = list(s.segs)
        if any(not isinstance(x, (bytes, sb.Atom)) for x in segs):
            raise Inconclusive("trim over symbolic bytes")
        if left and segs and isinstance(segs[0], bytes):
            segs[0] = _trim(segs[0], True, False)
        if right and segs and isinstance(segs[-1], bytes):
            segs[-1] = _trim(segs[-1], False, True)
        return BytesRef(SBytes(segs), "str")
    return f


T.path("core::str::trim", "str::trim")(_str_trim_generic(True, True))
T.path("core::str::trim_start", "str::trim_start")(_str_trim_generic(True, False))
T.path("core::str::trim_end", "str::trim_end")(_str_trim_generic(False, True))


@T.path("core::str::strip_prefix", "str::strip_prefix")
def _str_strip_prefix(I, a, d):
    s, p = sb.concretise_atoms(as_sbytes(a[0])), _pattern_bytes(a[1])
    if _str_starts_with(I, a, d):
        return SOME(BytesRef(sb.slice_(s, len(p), s.length(), I.w), "str"))
    return NONE()


@T.path("core::str::lines", "str::lines")
def _str_lines2(I, a, d):
    from .fs import lines_of
    items = lines_of(I, as_sbytes(a[0]))
    out = []
    for it in items:
        if it.vname != "Ok":
            raise Inconclusive("str::lines over invalid UTF-8")
        out.append(BytesRef(it.fields[0].sb, "str"))
    return RIter.from_list(out)


@T.path("core::str::bytes", "str::bytes", "core::str::chars", "str::chars", "core::str::char_indices")
def _str_chars(I, a, d):
    raise Inconclusive("per-character iteration over strings is not modelled")


@T.path("core::str::eq_ignore_ascii_case", "core::str::to_lowercase", "core::str::to_uppercase", "core::str::to_ascii_lowercase")
def _str_case(I, a, d):
    raise Inconclusive("case mapping is not modelled")


@T.trait("Extend", "extend")
def _extend(I, a, d):
    v = peel(a[0])
    it = to_iter(I, a[1])
    items = it.to_list(I)
    if isinstance(v, VecObj):
        v.items.extend(items)
        return UNIT
    if isinstance(v, BufObj) and v.kind == "PathBuf":
        for x in items:
            v.sb = path_join(v.sb, as_sbytes(x))      # PathBuf::extend pushes every segment
        return UNIT
    if isinstance(v, BufObj):
        for x in items:
            v.sb = v.sb + (bytes([x]) if isinstance(x, int) else as_sbytes(x))
        return UNIT
    if isinstance(v, HashSetObj):
        for x in items:
            v.insert(I, x)
        return UNIT
    raise Inconclusive("Extend::extend on %r" % (v,))


@T.path("std::vec::Vec::extend", "std::vec::Vec::append")
def _vec_extend(I, a, d):
    if d["segs"][-1] == "append":
        src = peel(a[1])
        dst = peel(a[0])
        if isinstance(dst, VecObj) and isinstance(src, VecObj):
            dst.items.extend(src.items)
            src.items.clear()
            return UNIT
        if isinstance(dst, BufObj) and isinstance(src, BufObj):
            dst.sb = dst.sb + src.sb
            src.sb = SBytes()
            return UNIT
        raise Inconclusive("Vec::append")
    return _extend(I, a, d)


@T.path("core::str::strip_suffix", "str::strip_suffix")
def _str_strip_suffix(I, a, d):
    s, p = sb.concretise_atoms(as_sbytes(a[0])), _pattern_bytes(a[1])
    if p is None or len(p) != 1:
        raise Inconclusive("strip_suffix pattern")
    if not s.segs:
        return NONE()
    last = s.segs[-1]
    if isinstance(last, bytes):
        if last.endswith(p):
            return SOME(BytesRef(SBytes(s.segs[:-1] + (last[:-1],)), "str"))
        return NONE()
    if isinstance(last, sb.SymByte):
        if I.w.branch(last.bv == z3.BitVecVal(p[0], 8), "strip_suffix-sym"):
            return SOME(BytesRef(SBytes(s.segs[:-1]), "str"))
        return NONE()
    if isinstance(last, sb.CutSeg):
        if I.w.branch(sb.cut_cond(last, lambda b: b.endswith(p)), "strip_suffix-cut"):
            return SOME(BytesRef(SBytes(s.segs[:-1] + (sb.CutSeg(last.data, last.lo, I._sub(last.hi, 1)),)), "str"))
        return NONE()
    if isinstance(last, sb.Atom) or (isinstance(last, sb.Junk) and isinstance(last.id, tuple) and last.id[:1] == ("atomcut",)):
        if p[0] in b"\n\r\t ":
            return NONE()
    raise Inconclusive("strip_suffix over %r" % (last,))


@T.path("std::string::String::clear", "alloc::string::String::clear")
def _string_clear(I, a, d):
    peel(a[0]).sb = SBytes()
    return UNIT


@T.path("std::string::String::with_capacity", "alloc::string::String::with_capacity")
def _string_with_capacity(I, a, d):
    return mk_string(b"")


@T.path("std::string::String::truncate", "alloc::string::String::truncate")
def _string_truncate(I, a, d):
    return _vec_truncate(I, a, d)


@T.path("std::string::String::push", "alloc::string::String::push")
def _string_push(I, a, d):
    b = peel(a[0])
    b.sb = b.sb + chr(a[1]).encode("utf-8")
    return UNIT


@T.path("std::path::Path::ancestors")
def _path_ancestors(I, a, d):
    s = as_sbytes(a[0])
    is_abs, comps = path_components(s)
    out = []
    for k in range(len(comps), -1, -1):
        if k == 0 and not is_abs:
            if comps:
                out.append(BytesRef(SBytes(), "path"))
            break
        out.append(BytesRef(path_from(is_abs, comps[:k]), "path"))
    return RIter.from_list(out)



@T.path("std::path::Path::strip_prefix")
def _path_strip_prefix(I, a, d):
    ia, ca = path_components(as_sbytes(a[0]))
    ib, cb = path_components(as_sbytes(a[1]))
    if ia != ib or len(cb) > len(ca) or any(x.key() != y.key() for x, y in zip(ca, cb)):
        return ERR(Agg("struct", "StripPrefixError", []))
    return OK(BytesRef(path_from(False, ca[len(cb):]), "path"))


@T.path("std::path::Path::extension", "std::path::Path::file_stem", "std::path::Path::with_extension", "std::path::Path::with_file_name")
def _path_misc(I, a, d):
    which = d["segs"][-1]
    is_abs, comps = path_components(as_sbytes(a[0]))
    last = comps[-1] if comps else None
    if last is not None and last.is_concrete() and last.concrete() == b"..":
        last = None
    if which == "with_file_name":
        base = comps[:-1] if last is not None else comps
        return mk_pathbuf(path_from(is_abs, base + [as_sbytes(a[1])]))
    if last is None:
        if which == "with_extension":
            return mk_pathbuf(as_sbytes(a[0]))
        return NONE()
    if not last.is_concrete():
        raise Inconclusive("Path API %s on a symbolic file name" % which)
    name = last.concrete()
    dot = name.rfind(b".")
    if dot <= 0:
        stem, ext = name, None
    else:
        stem, ext = name[:dot], name[dot + 1:]
    if which == "extension":
        return NONE() if ext is None else SOME(BytesRef(ext, "path"))
    if which == "file_stem":
        return SOME(BytesRef(stem, "path"))
    new_ext = as_sbytes(a[1])
    if new_ext.is_concrete() and not new_ext.concrete():
        newname = SBytes.of(stem)
    else:
        newname = SBytes.of(stem) + b"." + new_ext
    return mk_pathbuf(path_from(is_abs, comps[:-1] + [newname]))
