"""C13 -- a failing filesystem operation surfaces as an error and never corrupts the cache."""
import z3
from .common import *
from ..models.serde import JsonValue
from ..replay import render_value
from .C03 import content_invariant

BOUNDS = {"faults": "exactly one filesystem action of the call fails (every action in turn) with EIO / ENOSPC / EACCES / EMFILE, or - for data "
                    "and index writes - transfers a symbolic non-empty proper prefix and then fails (short write + failure)",
          "operations": "one-shot and streamed writes (keyed / by address, with and without declared size), read / read_hash / streamed read + check, "
                        "copy, hard_link, remove, remove_hash, remove_fully, list, metadata, exists",
          "data": "any length; prior cache state: another entry present, target key absent or present",
          "outside": "two faults in one call (thorough: none either - single-fault model); faults that persist into the retry"}


def base_state(scn):
    O = scn.blob("O")
    r = scn.write("other", scn.whole(O))
    if r.kind != "ok":
        return None
    return O, r.value


def after_checks(ctx, scn, tag, O, osri):
    """Other entries unaffected; content area valid; lookups do not fail."""
    I = scn.s.I
    out = scn.read("other")
    expect_bytes(ctx, out, scn.whole(O), tag + ":other", "reading another entry after the fault")
    content_invariant(ctx, scn, tag, "content area after the fault")


def fault_write(ctx, entry, keyed, declared, prior, api):
    scn = ctx.new_scn(api=api)
    scn.env.short_read_budget = 0
    st = base_state(scn)
    if st is None:
        return
    O, osri = st
    D = scn.blob("D")
    scn.distinct(D, O)
    data = scn.whole(D)
    tag = "C13:%s:write:%s:%s:%s:prior-%s" % (api, entry, "keyed" if keyed else "hash", "declared" if declared else "nosize", prior)
    if prior == "present" and keyed:
        if scn.write("k", scn.whole(O)).kind != "ok":
            return
    before = scn.metadata("k") if keyed else None

    def do_write(armed):
        outs = []
        if armed:
            scn.arm_fault()
            scn.fault_step = None
        if entry == "oneshot":
            if armed:
                scn.fault_step = len(scn.log)
            outs.append(scn.write("k", data) if keyed else scn.write_hash(data))
        else:
            opts = {"size": D.len} if declared else {}
            start = len(scn.log)
            r = scn.open("k", opts) if keyed else scn.open_hash(opts)
            outs.append(r)
            if r.kind == "ok":
                o = scn.hwrite_all(r.handle, data)
                outs.append(o)
                if o.kind == "ok":
                    outs.append(scn.commit(r.handle))
                else:
                    scn.hdrop(r.handle)
            if armed and scn.env.fault.fired is not None:
                # the step during which the fault fired
                act = scn.env.fault.fired["action"]
                for s_ in scn.log[start:]:
                    pass
        if armed:
            scn.disarm()
        return outs
    first_log = len(scn.log)
    outs = do_write(True)
    fired = scn.env.fault.fired
    if fired is None:
        return                 # no fault on this path: C02's business
    # locate the armed step: the logged step whose execution contained the faulted action
    scn.fault_step = None
    for s_ in scn.log[first_log:]:
        if s_.outcome.kind in ("err", "panic", "abort", "hang"):
            scn.fault_step = s_.index
            break
    if scn.fault_step is None:
        scn.fault_step = scn.log[-1].index if entry == "oneshot" else (outs and first_log + len(outs) - 1)
    ctx.note("fault %s on %s -> %s" % (fired["kind"], "short" if fired.get("short") else fired["errno"], [o.kind for o in outs]))
    for o in outs:
        if o.kind in ("panic", "abort", "hang"):
            ctx.expect(False, tag + ":" + o.kind + ":" + fired["kind"], "write under an injected %s fault: %s (%s)" % (fired["kind"], o.kind, o.detail),
                       native={"kind": "outcome_in", "step": scn.fault_step, "allowed": ["ok", "err"]})
            return
    final = outs[-1]
    if final.kind == "ok" and (entry == "oneshot" or len(outs) == 3):
        # truthful success: the data must be retrievable
        if keyed:
            expect_bytes(ctx, scn.read("k"), data, tag + ":lie:" + fired["kind"], "the write reported success under an injected fault, reading the key")
        else:
            expect_bytes(ctx, scn.read_hash(final.value), data, tag + ":lie:" + fired["kind"], "the write reported success under an injected fault, reading the address")
    else:
        if keyed:
            # a failed write must not have changed the mapping to something unreadable: lookup works and either old or new
            out = scn.metadata("k")
            step = last(scn)
            if expect_ok(ctx, out, tag + ":lookup-after", "lookup after the failed write"):
                I = scn.s.I
                same_as_before = values_eq(I, out.value, before.value)
                is_new = False
                if out.value.vname == "Some":
                    is_new = values_eq(I, out.value.fields[0].fields[1], scn.sri_of(data))
                ctx.expect(I._bnot(I._band(I._bnot(same_as_before), I._bnot(is_new))), tag + ":mapping-lost:" + fired["kind"],
                           "after a failed write the key maps to neither its previous entry nor the new one",
                           native=lambda cz: {"kind": "any", "of": [{"kind": "value_is", "step": step, "value": render_value(before.value, cz)},
                                                                   {"kind": "meta_field", "step": step, "field": "integrity", "value": sri_text(cz, data, "Sha256")}]})
                if out.value.vname == "Some":
                    rd = scn.read("k")
                    rstep = last(scn)
                    # whatever the key maps to must be readable (old data or, if the index append happened, the new data)
                    if rd.kind == "ok":
                        got = as_sbytes(rd.value)
                        e_old = sb.content_eq(got, scn.whole(O), ctx.w) if prior == "present" else False
                        e_new = sb.content_eq(got, data, ctx.w)
                        I = scn.s.I
                        ctx.expect(I._bnot(I._band(I._bnot(e_old), I._bnot(e_new))), tag + ":garbage", "after a failed write the key reads as neither old nor new data",
                                   native=lambda cz: {"kind": "any", "of": [nat_bytes(cz, rstep, data)] + ([nat_bytes(cz, rstep, scn.whole(O))] if prior == "present" else [])})
                    else:
                        ctx.expect(False, tag + ":dangling:" + fired["kind"], "after a failed write the key maps to an entry that cannot be read (%s)" % err_class(rd.value),
                                   native=ok_spec(rstep))
    after_checks(ctx, scn, tag, O, osri)
    # once the fault is gone the same call succeeds
    outs = do_write(False)
    if expect_ok(ctx, outs[-1], tag + ":retry", "the same write after the fault is gone"):
        if keyed:
            expect_bytes(ctx, scn.read("k"), data, tag + ":retry-read", "reading the key after the retried write")
        else:
            expect_bytes(ctx, scn.read_hash(outs[-1].value), data, tag + ":retry-read", "reading the address after the retried write")


def fault_other(ctx, op, api):
    """Faults during reads, extraction, removal, listing."""
    scn = ctx.new_scn(api=api)
    scn.env.short_read_budget = 0
    scn.env.max_reads_per_file = 2
    st = base_state(scn)
    if st is None:
        return
    O, osri = st
    D = scn.blob("D")
    scn.distinct(D, O)
    data = scn.whole(D)
    r = scn.write("k", data)
    if r.kind != "ok":
        return
    sri = r.value
    tag = "C13:%s:%s" % (api, op)

    def run(armed):
        if armed:
            scn.arm_fault(short_write=False)
            scn.fault_step = len(scn.log)
        if op == "read":
            out = scn.read("k")
        elif op == "read_hash":
            out = scn.read_hash(sri)
        elif op == "metadata":
            out = scn.metadata("k")
        elif op == "exists":
            out = scn.exists(sri)
        elif op == "copy":
            out = scn.extract("copy", ROOT + ("/out" if armed else "/out2"), key="k")
        elif op == "hard_link":
            out = scn.extract("hard_link", ROOT + ("/out" if armed else "/out2"), key="k")
        elif op == "remove":
            out = scn.remove("k")
        elif op == "remove_hash":
            out = scn.remove_hash(sri)
        elif op == "remove_fully":
            out = scn.remove_fully("k")
        elif op == "list":
            out = scn.list()
        else:
            raise ValueError(op)
        if armed:
            scn.disarm()
        return out
    out = run(True)
    fired = scn.env.fault.fired
    if fired is None:
        return
    step = scn.fault_step
    what = "%s under an injected %s fault (%s)" % (op, fired["kind"], fired["errno"])
    if not expect_no_panic(ctx, out, tag + ":" + fired["kind"], what):
        return
    if out.kind == "ok":
        # a truthful success: the entry exists, so a lookup that reports success reports it
        if op == "metadata":
            ctx.expect(out.value.vname == "Some", tag + ":lie:not-found", what + ": reported success with 'no such entry' for a key that exists",
                       native={"kind": "not", "of": {"kind": "value_is", "step": step, "value": {"meta": None}}})
        if op == "exists":
            ctx.expect(out.value is True, tag + ":lie:not-exists", what + ": reported success with 'does not exist' for stored content",
                       native={"kind": "value_is", "step": step, "value": {"bool": True}})
        if op in ("read", "read_hash"):
            e = sb.content_eq(as_sbytes(out.value), data, ctx.w)
            ctx.expect(e, tag + ":wrong-bytes", what + ": Ok with wrong bytes", native=lambda cz: nat_bytes(cz, step, data))
        if op == "copy":
            rd = scn.fs_read(ROOT + "/out")
            rstep = last(scn)
            if rd.kind == "ok":
                e = sb.content_eq(as_sbytes(rd.value), data, ctx.w)
                ctx.expect(e, tag + ":wrong-copy", what + ": Ok but the destination holds other bytes", native=lambda cz: nat_bytes(cz, rstep, data))
            else:
                ctx.expect(False, tag + ":no-copy", what + ": Ok but no destination file", native=ok_spec(rstep))
        if op == "list":
            items = out.value.items
            # a truthful listing: every Ok item is a real entry; errors are reported as items
            for it in items:
                if it.vname == "Ok":
                    kb = it.fields[0].fields[0].sb
                    ctx.expect(kb.is_concrete() and kb.concrete() in (b"k", b"other"), tag + ":list-ghost", what + ": listing invents an entry", native=None)
    if op in ("remove_hash", "remove_fully", "remove"):
        if out.kind == "ok":
            # a truthful success: what was reported as removed is removed
            if op in ("remove", "remove_fully"):
                lk = scn.metadata("k")
                if lk.kind == "ok":
                    ctx.expect(lk.value.vname == "None", tag + ":lie:still-found", what + ": reported success but the key is still found",
                               native={"kind": "value_is", "step": last(scn), "value": {"meta": None}})
            if op in ("remove_hash", "remove_fully"):
                rh = scn.read_hash(sri)
                ctx.expect(rh.kind == "err", tag + ":lie:content-still-there", what + ": reported success but the content is still retrievable",
                           native={"kind": "outcome_in", "step": last(scn), "allowed": ["err"]})
    else:
        # read-only operations leave everything as it was
        expect_bytes(ctx, scn.read("k"), data, tag + ":k-after", "reading the key after the faulted " + op)
    after_checks(ctx, scn, tag, O, osri)
    if op in ("remove", "remove_hash", "remove_fully"):
        # retry succeeds (or the thing is already gone)
        out2 = run(False)
        if out2.kind != "ok":
            gone = out2.kind == "err" and "NotFound" in err_class(out2.value)
            ctx.expect(gone, tag + ":retry", "%s does not succeed once the fault is gone (%s)" % (op, err_class(out2.value) if out2.kind == "err" else out2.kind),
                       native=ok_spec(last(scn)))
    else:
        out2 = run(False)
        expect_ok(ctx, out2, tag + ":retry", "%s once the fault is gone" % op)


def tasks(tier, flavours):
    out = []
    for fl in flavours:
        api = "sync" if fl == "sync" else "async"
        for keyed in (True, False):
            for prior in (("absent", "present") if keyed else ("absent",)):
                out.append(dict(module="C13", family="fault_write", flavour=fl, params=dict(entry="oneshot", keyed=keyed, declared=False, prior=prior, api=api)))
                for declared in (False, True):
                    if tier == "quick" and fl != "sync" and declared and not keyed:
                        continue
                    out.append(dict(module="C13", family="fault_write", flavour=fl, params=dict(entry="streamed", keyed=keyed, declared=declared, prior=prior, api=api)))
        ops = ["read", "read_hash", "metadata", "copy", "hard_link", "remove", "remove_hash", "remove_fully", "list", "exists"]
        for op in ops:
            out.append(dict(module="C13", family="fault_other", flavour=fl, params=dict(op=op, api=api)))
    return out
