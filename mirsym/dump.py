"""Dump cacache's MIR for the three build flavours from /repo's *current working tree*.

The dump is keyed by a digest of the source files, so an edited tree is never checked against a
stale encoding.  The scratch copy lives outside /repo and /verif and is removed after the dump;
the cargo target directory is kept under /verif/build as a build cache."""
import fcntl
import hashlib
import json
import os
import shutil
import subprocess
import sys
import tempfile
import time

VERIF = os.path.dirname(os.path.dirname(os.path.abspath(__file__)))
REPO = os.environ.get("VERIF_REPO", "/repo")
BUILD = os.path.join(VERIF, "build")

FLAVOURS = {
    "sync": ["--no-default-features", "--features", "mmap,link_to"],
    "async-std": ["--features", "link_to"],
    "tokio": ["--no-default-features", "--features", "tokio-runtime,mmap,link_to"],
}


def source_files(repo=None):
    repo = repo or REPO
    out = {}
    for root, dirs, files in os.walk(os.path.join(repo, "src")):
        dirs.sort()
        for f in sorted(files):
            if f.endswith(".rs"):
                p = os.path.join(root, f)
                out[os.path.relpath(p, repo)] = open(p, "rb").read()
    for f in ("Cargo.toml", "Cargo.lock"):
        p = os.path.join(repo, f)
        if os.path.exists(p):
            out[f] = open(p, "rb").read()
    return out


def tree_digest(files):
    h = hashlib.sha256()
    for k in sorted(files):
        h.update(k.encode() + b"\0" + files[k] + b"\0")
    return h.hexdigest()[:20]


def dump_all(flavours=("sync",), repo=None, verbose=False):
    """Returns {flavour: path to .mir}, srcjson path, digest."""
    repo = repo or REPO
    files = source_files(repo)
    dg = tree_digest(files)
    outdir = os.path.join(BUILD, "mir", dg)
    os.makedirs(outdir, exist_ok=True)
    srcjson = os.path.join(outdir, "src.json")
    if not os.path.exists(srcjson):
        with open(srcjson + ".tmp", "w") as fh:
            json.dump({k: v.decode("utf-8", "replace") for k, v in files.items() if k.endswith(".rs")}, fh)
        os.replace(srcjson + ".tmp", srcjson)
    result = {}
    missing = [fl for fl in flavours if not os.path.exists(os.path.join(outdir, fl + ".mir"))]
    if missing:
        lock = open(os.path.join(BUILD, "mirdump.lock"), "w")
        fcntl.flock(lock, fcntl.LOCK_EX)
        try:
            missing = [fl for fl in flavours if not os.path.exists(os.path.join(outdir, fl + ".mir"))]
            if missing:
                _dump(files, missing, outdir, verbose)
        finally:
            fcntl.flock(lock, fcntl.LOCK_UN)
            lock.close()
    for fl in flavours:
        result[fl] = os.path.join(outdir, fl + ".mir")
    _gc(os.path.join(BUILD, "mir"), keep=dg)
    return result, srcjson, dg


def _gc(mirroot, keep, max_keep=6):
    try:
        ents = [(os.path.getmtime(os.path.join(mirroot, d)), d) for d in os.listdir(mirroot)]
    except OSError:
        return
    ents.sort(reverse=True)
    for _, d in ents[max_keep:]:
        if d != keep:
            shutil.rmtree(os.path.join(mirroot, d), ignore_errors=True)


def _dump(files, flavours, outdir, verbose):
    # fixed path (we hold the lock): keeps cargo's fingerprint stable so the target dir does not grow
    scratch = os.path.join(tempfile.gettempdir(), "mirsym-src-%d-%s" % (os.getuid(), hashlib.sha1(BUILD.encode()).hexdigest()[:8]))
    shutil.rmtree(scratch, ignore_errors=True)
    os.makedirs(scratch)
    try:
        for rel, data in files.items():
            p = os.path.join(scratch, rel)
            os.makedirs(os.path.dirname(p), exist_ok=True)
            with open(p, "wb") as fh:
                fh.write(data)
        # benches are declared in Cargo.toml: provide an empty stub so cargo accepts the manifest
        os.makedirs(os.path.join(scratch, "benches"), exist_ok=True)
        bsrc = os.path.join(REPO, "benches", "benchmarks.rs")
        with open(os.path.join(scratch, "benches", "benchmarks.rs"), "wb") as fh:
            fh.write(open(bsrc, "rb").read() if os.path.exists(bsrc) else b"fn main(){}\n")
        env = dict(os.environ)
        env["CARGO_NET_OFFLINE"] = "true"
        env.pop("RUSTFLAGS", None)
        tgt = os.path.join(BUILD, "mirtgt")
        for fl in flavours:
            t0 = time.time()
            cmd = ["cargo", "+nightly", "rustc", "--offline", "--lib"] + FLAVOURS[fl] + \
                  ["--target-dir", tgt, "--", "-Zunpretty=mir", "-C", "debug-assertions=off", "-C", "overflow-checks=on"]
            os.utime(os.path.join(scratch, "src", "lib.rs"), None)
            p = subprocess.run(cmd, cwd=scratch, env=env, stdout=subprocess.PIPE, stderr=subprocess.PIPE)
            if p.returncode != 0 or len(p.stdout) < 1000:
                sys.stderr.write(p.stderr.decode("utf-8", "replace")[-4000:])
                raise RuntimeError("MIR dump failed for flavour %s (exit %d)" % (fl, p.returncode))
            tmp = os.path.join(outdir, fl + ".mir.tmp")
            with open(tmp, "wb") as fh:
                fh.write(p.stdout)
            os.replace(tmp, os.path.join(outdir, fl + ".mir"))
            if verbose:
                sys.stderr.write("mirdump %s: %.1fs, %d lines\n" % (fl, time.time() - t0, p.stdout.count(b"\n")))
    finally:
        shutil.rmtree(scratch, ignore_errors=True)


if __name__ == "__main__":
    fl = sys.argv[1:] or list(FLAVOURS)
    r, s, dg = dump_all(fl, verbose=True)
    print(dg)
    for k, v in r.items():
        print(k, v)
