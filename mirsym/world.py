"""Per-path context: decision prefix, path condition, solver, counters."""
import time
import z3
from .values import PathInfeasible, Inconclusive, is_sym


class Stats:
    def __init__(self):
        self.queries = 0
        self.solver_s = 0.0
        self.paths = 0
        self.steps = 0
        self.branches = 0
        self.max_depth = 0

    def merge(self, o):
        self.queries += o.queries
        self.solver_s += o.solver_s
        self.paths += o.paths
        self.steps += o.steps
        self.branches += o.branches
        self.max_depth = max(self.max_depth, o.max_depth)


class World:
    SOLVER_TIMEOUT_MS = 20000

    def __init__(self, prefix=(), stats=None, seed=0):
        self.prefix = list(prefix)
        self.decisions = []      # [(taken, n_options, label)]
        self.pc = []
        self.solver = z3.Solver()
        self.solver.set("timeout", self.SOLVER_TIMEOUT_MS)
        if seed:
            self.solver.set("random_seed", seed & 0x7fffffff)
        self.stats = stats or Stats()
        self._fresh = {}
        self.steps = 0
        self.step_budget = 400000
        self.notes = []          # free-form per-path annotations
        self.sym_inputs = {}     # name -> z3 term (for concretisation)
        self.len_axioms = {}
        self.var_ranges = {}     # variable name -> (lo, hi) when the scenario bounds it
        self._known_true = {}
        from . import sbytes as _sb
        _sb.CURRENT_WORLD[0] = self
        # per-path tables: nothing learnt on one path may leak into another
        _sb.RAW_CONTENT.clear()
        _sb._same_vars.clear()
        _sb.EQ_PAIRS.clear()
        _sb._atom_ids.clear()
        _sb.SHARED_PREFIX.clear()

    # -- variables
    def fresh_name(self, base):
        n = self._fresh.get(base, 0)
        self._fresh[base] = n + 1
        return "%s#%d" % (base, n) if n else base

    def fresh_bv(self, base, width, register=True):
        v = z3.BitVec(self.fresh_name(base), width)
        if register:
            self.sym_inputs[str(v)] = v
        return v

    def fresh_bool(self, base, register=True):
        v = z3.Bool(self.fresh_name(base))
        if register:
            self.sym_inputs[str(v)] = v
        return v

    # -- constraints
    def assume(self, cond):
        if cond is True:
            return
        if cond is False:
            raise PathInfeasible()
        self.pc.append(cond)
        self.solver.add(cond)
        m = self.last_model
        if m is not None:
            try:
                if not z3.is_true(m.eval(cond, model_completion=True)):
                    self.last_model = None
            except z3.Z3Exception:
                self.last_model = None

    last_model = None

    def _model_says(self, cond):
        """Truth value of cond in the cached model of the path condition (None if unknown)."""
        m = self.last_model
        if m is None:
            return None
        try:
            v = m.eval(cond, model_completion=True)
        except z3.Z3Exception:
            return None
        if z3.is_true(v):
            return True
        if z3.is_false(v):
            return False
        return None

    def _check(self, *extra):
        t0 = time.time()
        r = self.solver.check(*extra)
        self.stats.solver_s += time.time() - t0
        self.stats.queries += 1
        if r == z3.unknown:
            raise Inconclusive("solver returned unknown: %s" % self.solver.reason_unknown())
        if r == z3.sat:
            try:
                self.last_model = self.solver.model()
            except z3.Z3Exception:
                self.last_model = None
        return r == z3.sat

    def feasible(self, cond=None):
        if cond is None:
            return self._check()
        if cond is True:
            return self._check()
        if cond is False:
            return False
        return self._check(cond)

    def known(self, cond):
        """Does the path condition entail cond?"""
        if cond is True:
            return True
        if cond is False:
            return False
        k = cond.get_id()
        if k in self._known_true:
            return True
        if self._model_says(cond) is False:
            return False
        r = not self._check(z3.Not(cond))
        if r:
            self._known_true[k] = cond     # keep the term alive so that its id stays unique
        return r

    # -- decisions
    # every nondeterministic choice and every symbolic branch appends (taken, alternatives, label);
    # replay is purely positional, so no solver call is repeated inside the prefix.
    def _replayed(self, label):
        k = len(self.decisions)
        if k < len(self.prefix):
            if self.prefix_labels is not None and self.prefix_labels[k] != label:
                raise Inconclusive("non-deterministic replay at decision %d: %r vs %r" % (k, self.prefix_labels[k], label))
            return self.prefix[k]
        return None

    def choose(self, n, label=""):
        """Nondeterministic choice among n options (explored exhaustively)."""
        if n <= 0:
            raise PathInfeasible()
        if n == 1:
            return 0
        label = "ch:" + label
        r = self._replayed(label)
        if r is not None:
            self.decisions.append((r, (), label))
            return r
        self.decisions.append((0, tuple(range(1, n)), label))
        self.stats.branches += 1
        return 0

    def branch(self, cond, label=""):
        """Branch on a (possibly symbolic) Boolean.  Forks when both sides are feasible."""
        if cond is True or cond is False:
            return cond
        if not is_sym(cond):
            return bool(cond)
        cond = z3.simplify(cond)
        if z3.is_true(cond):
            return True
        if z3.is_false(cond):
            return False
        label = "br:" + label
        r = self._replayed(label)
        if r is not None:
            self.decisions.append((r, (), label))
            val = r == 0
            self.assume(cond if val else z3.Not(cond))
            return val
        ms = self._model_says(cond)
        if ms is True:
            t = True
            f = self._check(z3.Not(cond))
        elif ms is False:
            f = True
            t = self._check(cond)
        else:
            t = self._check(cond)
            f = self._check(z3.Not(cond))
        if t and f:
            self.decisions.append((0, (1,), label))
            self.stats.branches += 1
            self.assume(cond)
            return True
        if t:
            self.decisions.append((0, (), label))
            self.assume(cond)
            return True
        if f:
            self.decisions.append((1, (), label))
            self.assume(z3.Not(cond))
            return False
        raise PathInfeasible()

    prefix_labels = None

    def tick(self, n=1):
        self.steps += n
        if self.steps > self.step_budget:
            from .values import Hang
            raise Hang("step budget exceeded")

    # -- model extraction
    def model(self, extra=()):
        s = self.solver
        t0 = time.time()
        r = s.check(*extra)
        self.stats.solver_s += time.time() - t0
        self.stats.queries += 1
        if r != z3.sat:
            return None
        return s.model()


def explore(run_one, max_paths=100000, stats=None, seed=0, on_path=None, time_budget=None, keep=False):
    """Exhaustive DFS over decision prefixes.  run_one(world) -> result (any).
    Returns list of (world, result) when keep is set (worlds are large: solver and terms), else the results
    only.  Raises Inconclusive if a budget is exhausted."""
    stats = stats or Stats()
    stack = [([], [])]
    results = []
    n_done = 0
    t0 = time.time()
    while stack:
        prefix, labels = stack.pop()
        if n_done >= max_paths:
            raise Inconclusive("path budget %d exhausted" % max_paths)
        if time_budget is not None and time.time() - t0 > time_budget:
            raise Inconclusive("time budget exhausted after %d paths" % n_done)
        w = World(prefix, stats=stats, seed=seed)
        w.prefix_labels = labels
        try:
            res = run_one(w)
        except PathInfeasible:
            res = None
            infeasible = True
        else:
            infeasible = False
        if len(w.decisions) < len(prefix) and not infeasible:
            raise Inconclusive("replay consumed fewer decisions than its prefix")
        full = [d[0] for d in w.decisions]
        lbls = [d[2] for d in w.decisions]
        for k in range(len(prefix), len(w.decisions)):
            for alt in reversed(w.decisions[k][1]):
                stack.append((full[:k] + [alt], lbls[:k + 1]))
        stats.paths += 1
        stats.steps += w.steps
        stats.max_depth = max(stats.max_depth, len(w.decisions))
        if not infeasible:
            n_done += 1
            results.append((w, res) if keep else (None, res))
            if on_path:
                on_path(w, res)
        del w
    return results
