#!/usr/bin/env python3
"""Regenerates MANIFEST.json from the list of claimed properties below."""
import json, subprocess

CLAIMED = {
 "C01": ("checked reads: content file replaced by an arbitrary byte string / truncated / removed / symlinked, all checked retrieval entry points, existing destinations, the same process retrieving the entry before and again after in-place damage (length- and mtime-preserving), 3 flavours",
         "Bounded: <= 3 data reads per file (quick 2), single-hash integrities; ideal hash."),
 "C02": ("write/read round trip for data of any length, symbolic chunk boundaries, declared size absent or equal, all algorithms, keyed and by address, cold cache or content address occupied by wrong bytes, 3 flavours",
         "Bounded: <= 3 chunks (quick 2); healthy filesystem (full writes)."),
 "C03": ("content-area invariant at every kill point of every write (before each filesystem action and inside data writes after a symbolic torn prefix) and at normal return; declared size symbolic; additionally one failing rename/mkdir/link plus a kill in the same store",
         "Bounded: <= 3 chunks; no fsync/power-loss model; rename atomic."),
 "C04": ("kill at every point of a keyed write/removal incl. torn index append of any byte length (multi-byte characters), then lookups through both APIs and continuation writes",
         "Concrete small records (so torn lengths are decided exactly); one crash per scenario."),
 "C05": ("all histories of <= 3 (thorough: 4, sync flavour) operations over write/overwrite-with-metadata/remove x 2 keys, explicit symbolic timestamps, mixed sync/async entry points, foreign records in the bucket, keys whose JSON form needs escapes",
         "Bounded history length and alphabet."),
 "C06": ("index damage: truncation at a symbolic length, overwrites with symbolic byte values, inserted garbage lines; oracle from untouched records; sync and async readers",
         "One damage event; quick tier uses representative positions per structural class, thorough every byte position; ideal hash."),
 "C07": ("2-3 concurrent operations (write, write_hash, read, read_hash, metadata, remove, remove_hash, exists, list) by separate processes on cold and warm caches: the schedule (which process performs the next filesystem-changing system call or open) is part of the explored path, sleep-set reduction over recorded footprints; oracle = the same operations run serially in every order by the same code; counterexample schedules are enforced natively system call by system call (LD_PRELOAD gate) and compared with native serial runs",
         "Granularity: control changes hands immediately before a filesystem-changing call or an open for reading, once the running process has completed such an event; blobs <= 64 bytes; one operation per process; quick: pairs (+1 triple), thorough adds cold writer pairs and triples. One known finding (F13)."),
 "C08": ("commit enforcement: symbolic declared size over the full usize range, seven classes of declared integrity, prior key states incl. same data, 3 flavours",
         "Bounded: <= 3 chunks (quick 2); well-formed integrity arguments."),
 "C09": ("remove / remove_hash / remove_fully / clear aimed at shared, distinct and never-written keys, with filesystem frame condition and explicit symbolic timestamps; contents sharing a shard directory; sequences of two or three removals / re-writes",
         "Bounded histories (3 keys + 1 absent)."),
 "C10": ("listing vs lookup after all histories of <= 3 (thorough 4) operations, explicit symbolic timestamps, foreign records, keys needing JSON escapes, records of up to 300 000 bytes, two HashSet orders",
         "Bounded history length; HashSet order modelled by two permutations."),
 "C11": ("metadata round trip with symbolic u128 time, symbolic size, opaque JSON / raw metadata, caller-attached single- and two-hash integrities, hostile keys, defaults tied to the clock reads of the commit, rewrites of a key",
         "JSON values opaque or concrete samples."),
 "C12": ("operation programs (writes with option combinations, reads, streamed reads, extraction, removals, listing, damaged content, index garbage, rejected commits) executed with the SAME symbolic inputs in the sync, async-std and tokio builds and compared step by step, plus mixed-API programs",
         "Programs of <= ~8 operations; default timestamps compared as clock readings; counterexamples confirmed by running both native builds."),
 "C13": ("exactly one filesystem action of each call fails (every action in turn, errno opaque until inspected, or short write + failure); truthful outcome (a reported success of a write, removal or lookup is checked against the state), no damage, retry succeeds",
         "Single fault per call; fault replay through an LD_PRELOAD shim. One known finding (F15)."),
 "C14": ("writers abandoned after creation / chunks / cancelled async write with the blocking job pending, and rejected commits: lookups unchanged, tmp/ empty, no index append",
         "spawn_blocking timing explored in three modes."),
 "C15": ("every filesystem action requested by every public operation under hostile keys: paths confined to the cache directory (or the explicit destination), components only fixed names / algorithm names / digest slices / temp names, read-only calls perform no mutation (also after a removal), extraction over existing destinations and with an unusable tmp/, confusable keys independent, over-eager cleanup above the cache root",
         "Observed at the library-call boundary of the model (what the modelled crates do below is outside the claim)."),
 "C16": ("every ordered pair of store entry points for the same bytes: same address, one content file, every instant of the second store inspected on the action trace (in-place modification replayed by killing the process right after the action); the same bytes stored again over a copy damaged in place (arbitrary other bytes, incl. equal length) must leave the new key and the returned address resolving to the data; algorithm pairs coexist",
         "Sequential second writers (concurrent ones are C07)."),
 "C17": ("library output compared byte for byte (paths and file bytes, symbolic time/size) with an independent ~100-line reference writer, and reference-written caches read back through the library",
         "Reference = mirsym/refmodel.py, written from the format description."),
 "C18": ("extraction (copy/reflink/hard_link, checked/unchecked, by key/address) on pristine, damaged and missing content, fresh and existing destinations and destinations produced by an earlier extraction, stored content intact afterwards, filesystems with and without reflink",
         "Bounded: checked extraction <= 3 verification reads (quick 2)."),
 "C19": ("link_to by key/address with absolute, relative and dotdot-through-symlink targets, partial reads through the linker, target rewritten/removed/replaced afterwards, twin targets with identical bytes (the second changed afterwards, or the first removed before an intact twin is linked), address already present as regular content, declared size/integrity incl. two-hash integrities",
         "Targets up to 3 verification reads (8 B probe + 2 x 16 KiB); link_to feature enabled in all dumps."),
 "C20": ("totality: every public operation on hostile on-disk states (checksum-valid records with hostile integrity strings / wrong types / missing fields, empty/NUL/newline buckets, files where directories are expected and vice versa, looping and dangling symlinks) and writers with arbitrary declared sizes and timestamps, the cache changed under an open writer, extraction to odd destinations; panics, aborts and step-budget hangs are violations",
         "One known finding (F9) is reported as KNOWN-FINDING."),
}
REASON_PENDING = "check not built yet (engine under construction); will be claimed once its vacuity and replay guards pass"

props = [json.loads(l) for l in open("/verif/properties.jsonl")]
hooks_commits = []
m = {
 "version": 1,
 "setup_cmd": "./setup.sh",
 "hooks": {"guard": "cacache_verif", "enable": "none: no source hooks are needed; every check re-dumps the MIR of /repo's working tree and rebuilds the native replay runner against it",
           "baseline_off_cmd": "cd /repo && cargo test --workspace --no-fail-fast --offline", "source_commits": hooks_commits, "add_only": True},
 "engines": [{"name": "mirsym", "path": "mirsym/", "serves_properties": sorted(CLAIMED),
              "kind_free_text": "symbolic execution of cacache's own MIR (3 build flavours, re-dumped from /repo on every run) over a symbolic filesystem; z3 decides path feasibility and every assertion; counterexamples are concretised and replayed against a native build of /repo before being reported"}],
 "checks": [],
 "notes": "Exit codes: 0 held on everything explored; 1 + VIOLATION line = solver counterexample that reproduced natively; 2 = inconclusive (unmodelled callee, model/native mismatch, budget) -- never reported as a violation.",
 "not_applicable": [],
}
for p in props:
    pid = p["id"]
    if pid in CLAIMED:
        text, note = CLAIMED[pid]
        m["checks"].append({
            "property_id": pid,
            "quick_cmd": "./check %s --tier quick" % pid,
            "thorough_cmd": "./check %s --tier thorough" % pid,
            "evidence_file": "evidence/%s.json" % pid,
            "replay_cmd_template": "./check replay {path}",
            "engine": "mirsym",
            "level_claimed": {"category": "model_checking",
                              "text": "bounded symbolic model checking of the compiled MIR: " + text + ". Every feasible path within the bounds is explored and every expectation is discharged by z3 (unsat of path-condition AND NOT expectation); not a proof beyond the bounds.",
                              "design_ref": "DESIGN.md section 4 (%s)" % pid},
            "level_note": note + " Trusted: rustc's MIR dump, the interpreter, the library models (validated differentially against the native build), POSIX rename/O_APPEND atomicity, z3.",
            "technique": "SMT-based symbolic execution of the crate's MIR (z3) with native replay of counterexamples",
        })
    else:
        m["not_applicable"].append({"property_id": pid, "reason": REASON_PENDING})
json.dump(m, open("/verif/MANIFEST.json", "w"), indent=1)
print("claimed:", sorted(CLAIMED))
