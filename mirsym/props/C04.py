"""C04 -- a keyed write or removal interrupted by a crash is all-or-nothing."""
import z3
from .common import *
from ..models.serde import JsonValue
from ..replay import render_value
from .C03 import content_invariant

BOUNDS = {"crash_points": "before every filesystem action of the keyed write / removal and inside the index append after a symbolic torn "
                          "prefix of ANY byte length (including cuts inside multi-byte UTF-8 characters of key and metadata)",
          "prior_state": "key absent / present / tombstoned", "operations": "write (streamed, explicit time and metadata) and remove",
          "continuation": "after restart: lookups through sync and async entry points, then a further write to the same key and one to another key",
          "inputs": "concrete small data and metadata with multi-byte characters (the index record is then concrete bytes, so every torn "
                    "length is decided exactly); data content is irrelevant to the index logic",
          "outside": "power loss semantics (no fsync model); torn writes that are not a prefix"}

KEY = "clé-ünï"
OTHER = "other-ключ"
META_OLD = {"v": "old", "é": [1, 2]}
META_NEW = {"v": "nëw ✓", "n": 7}
META_3 = {"v": "third"}


def put(scn, key, data, time, meta, api=None):
    r = scn.open(key, {"time": time, "metadata": JsonValue(meta)}, api=api)
    outs = [r]
    if r.kind == "ok":
        o = scn.hwrite_all(r.handle, data, api=api)
        outs.append(o)
        if o.kind == "ok":
            outs.append(scn.commit(r.handle, api=api))
    return outs


def crash_keyed(ctx, op, prior, api):
    scn = ctx.new_scn(api=api)
    I = scn.s.I
    tag = "C04:%s:%s:prior-%s" % (api, op, prior)
    apis = ["sync"] if scn.flavour == "sync" else ["sync", "async"]
    # another key that must never be affected
    outs = put(scn, OTHER, b"other data", 1000, {"o": 1})
    if outs[-1].kind != "ok":
        return
    if prior in ("present", "tombstoned"):
        if put(scn, KEY, b"old data", 2000, META_OLD)[-1].kind != "ok":
            return
        if prior == "tombstoned" and scn.remove(KEY).kind != "ok":
            return
    before = {}
    for k in (KEY, OTHER):
        before[k] = scn.metadata(k, api="sync")
    # the operation that gets killed
    scn.arm_crash()
    if op == "write":
        outs = put(scn, KEY, b"new data!", 3000, META_NEW)
    else:
        outs = [scn.remove(KEY)]
    scn.disarm()
    for o in outs:
        if o.kind in ("panic", "abort", "hang"):
            ctx.expect(False, tag + ":" + o.kind, "%s %s: %s" % (op, o.kind, o.detail), native={"kind": "outcome_in", "step": last(scn), "allowed": ["ok", "err", "crash"]})
            return
    completed = not scn.crashed() and outs[-1].kind == "ok"
    if scn.crashed():
        f = scn.env.crash.fired
        ctx.note("killed before %s effects=%s torn=%s" % (f["kind"], f["effects"], f["torn"]))
        scn.restart()
    elif not completed:
        return
    # --- after restart
    new_visible = None
    for la in apis:
        out = scn.metadata(KEY, api=la)
        step = last(scn)
        if not expect_ok(ctx, out, tag + ":lookup-%s" % la, "lookup after the crash (%s API)" % la):
            return
        old_v = before[KEY].value
        is_old = values_eq(I, out.value, old_v)
        if op == "write":
            got = out.value
            is_new = False
            if got.vname == "Some":
                m = got.fields[0]
                md = m.fields[4]
                is_new = isinstance(md, JsonValue) and md.py == META_NEW and m.fields[2] == 3000
        else:
            is_new = out.value.vname == "None"
        if completed:
            ctx.expect(is_new is True, tag + ":completed-%s" % la, "the operation returned Ok but its effect is not visible (%s API)" % la,
                       native={"kind": "unreplayable", "why": "covered by C02/C05/C09"} if False else None)
        ok = I._bnot(I._band(I._bnot(is_old), I._bnot(is_new)))
        ctx.expect(ok, tag + ":mixture-%s" % la, "after the crash the key is neither in its previous nor in its new state (%s API)" % la,
                   native=lambda cz, step=step: {"kind": "any", "of": [
                       {"kind": "value_is", "step": step, "value": render_value(old_v, cz)},
                       {"kind": "meta_field", "step": step, "field": "time", "value": "3000"} if op == "write" else {"kind": "value_is", "step": step, "value": {"meta": None}}]})
        if new_visible is None:
            new_visible = (is_new is True) and op == "write"
    out = scn.metadata(OTHER, api="sync")
    step = last(scn)
    if expect_ok(ctx, out, tag + ":other", "lookup of another key after the crash"):
        ctx.expect(values_eq(I, out.value, before[OTHER].value), tag + ":other-changed", "another key's entry changed",
                   native=lambda cz: {"kind": "value_is", "step": step, "value": render_value(before[OTHER].value, cz)})
    if new_visible:
        expect_bytes(ctx, scn.read(KEY, api="sync"), b"new data!", tag + ":new-content", "the new entry is visible but its content")
    content_invariant(ctx, scn, tag, "content area after the crash")
    # --- the cache stays usable
    outs = put(scn, KEY, b"third", 4000, META_3, api=apis[-1])
    if not expect_ok(ctx, outs[-1], tag + ":cont-write", "a later write to the same key"):
        return
    for la in apis:
        out = scn.metadata(KEY, api=la)
        step = last(scn)
        if not expect_ok(ctx, out, tag + ":cont-lookup-%s" % la, "lookup after the later write (%s API)" % la):
            return
        got = out.value
        good = got.vname == "Some" and isinstance(got.fields[0].fields[4], JsonValue) and got.fields[0].fields[4].py == META_3
        ctx.expect(good, tag + ":cont-invisible-%s" % la, "a write made after the crash is not visible through the %s API" % la,
                   native={"kind": "meta_field", "step": step, "field": "time", "value": "4000"})
    expect_bytes(ctx, scn.read(KEY, api="sync"), b"third", tag + ":cont-read", "reading the key after the later write")
    outs = put(scn, OTHER, b"other 2", 5000, {"o": 2}, api="sync")
    expect_ok(ctx, outs[-1], tag + ":cont-other", "a later write to another key")


def tasks(tier, flavours):
    out = []
    for fl in flavours:
        api = "sync" if fl == "sync" else "async"
        for op in ("write", "remove"):
            for prior in ("absent", "present", "tombstoned"):
                if op == "remove" and prior == "absent" and tier == "quick":
                    continue
                out.append(dict(module="C04", family="crash_keyed", flavour=fl, params=dict(op=op, prior=prior, api=api)))
    return out
