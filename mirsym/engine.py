"""Loading of the dumps and the scenario-facing API (call an entry point, classify its outcome)."""
import json
import os
import pickle
import time

from . import dump as mirdump
from .parse import parse_program, Func, path_segments
from .srcinfo import SrcInfo
from .interp import Interp, BufObj, BytesRef, OK, ERR, NONE, SOME
from .values import *
from .world import World, explore, Stats
from .models import TABLE
from .models import core as _core, fs as _fs, ssri as _ssri, serde as _serde  # noqa: F401 (registration)
from .models import asyncrt as _asyncrt  # noqa: F401
from .models import extra as _extra  # noqa: F401
from .models.fs import Env, VFS
from .sbytes import SBytes

_PROGRAMS = {}


def load(flavour="sync", verbose=False):
    """Parse (or load the cached parse of) the MIR dump of /repo's current tree."""
    paths, srcjson, dg = mirdump.dump_all((flavour,), verbose=verbose)
    key = (dg, flavour)
    if key in _PROGRAMS:
        return _PROGRAMS[key]
    mir = paths[flavour]
    pk = mir + ".pickle"
    prog = None
    if os.path.exists(pk) and os.path.getmtime(pk) >= os.path.getmtime(mir) and \
            os.path.getmtime(pk) >= os.path.getmtime(os.path.join(os.path.dirname(__file__), "parse.py")):
        try:
            with open(pk, "rb") as fh:
                prog = pickle.load(fh)
        except Exception:
            prog = None
    if prog is None:
        prog = parse_program(open(mir).read(), flavour)
        try:
            with open(pk + ".tmp%d" % os.getpid(), "wb") as fh:
                pickle.dump(prog, fh)
            os.replace(pk + ".tmp%d" % os.getpid(), pk)
        except Exception:
            pass
    src = SrcInfo(json.load(open(srcjson)), flavour)
    prog.digest = dg
    _PROGRAMS[key] = (prog, src)
    return prog, src


class Outcome:
    def __init__(self, kind, value=None, detail=None):
        self.kind = kind        # ok | err | panic | abort | hang | crash
        self.value = value
        self.detail = detail

    def __repr__(self):
        return "Outcome(%s, %r%s)" % (self.kind, self.value, (", " + str(self.detail)) if self.detail else "")


class Session:
    """One symbolic execution path: an interpreter + environment over a World."""

    def __init__(self, world, flavour="sync", env=None):
        self.prog, self.src = load(flavour)
        self.flavour = flavour
        self.w = world
        self.env = env or Env(world)
        self.I = Interp(self.prog, self.src, world, TABLE, self.env)
        if self.src.problems:
            raise Inconclusive("source facts not understood: %s" % self.src.problems[:3])
        if self.prog.unknown:
            raise Inconclusive("unparsed MIR: %s" % (self.prog.unknown[:3],))

    def find_fn(self, name):
        """Public entry point by (suffix of) its path, e.g. 'write_sync', 'SyncWriter::commit'."""
        segs = tuple(name.split("::"))
        # Type::method
        if len(segs) >= 2 and segs[-2][:1].isupper():
            f = self.I.idx.find_method(segs[:-1], None, segs[-1:])
            if f:
                return f
            for tr in ("Write", "Read", "AsyncWrite", "AsyncRead"):
                f = self.I.idx.find_method(segs[:-1], tr, segs[-1:])
                if f:
                    return f
        f = self.I.idx.find_free(segs)
        if f:
            return f
        raise Inconclusive("entry point %s not found in the %s dump" % (name, self.flavour))

    def call(self, name, *args):
        """Call an entry point; classify the outcome.  Async entry points (functions returning a
        coroutine) are driven to completion by the block_on model."""
        f = name if isinstance(name, Func) else self.find_fn(name)
        return self.call_fn(f, list(args))

    def call_fn(self, f, args):
        from .models.asyncrt import block_on
        self.env.begin_op(f.name)
        try:
            v = self.I.run_fn(f, args)
            if isinstance(v, Coroutine):
                v = block_on(self.I, v)
        except RustPanic as e:
            return Outcome("panic", None, e.msg)
        except RustAbort as e:
            return Outcome("abort", None, str(e))
        except Hang as e:
            return Outcome("hang", None, str(e))
        except ProcessCrash as e:
            self.env.crashed = True
            return Outcome("crash", None, str(e))
        if isinstance(v, Adt) and v.ty == "Result":
            if v.vname == "Ok":
                return Outcome("ok", v.fields[0])
            return Outcome("err", v.fields[0])
        return Outcome("ok", v)

    def call_trait(self, trait, method, *args):
        self.env.begin_op("%s::%s" % (trait, method))
        try:
            v = self.I.call_trait_method(trait, method, list(args))
        except RustPanic as e:
            return Outcome("panic", None, e.msg)
        except RustAbort as e:
            return Outcome("abort", None, str(e))
        except Hang as e:
            return Outcome("hang", None, str(e))
        except ProcessCrash as e:
            self.env.crashed = True
            return Outcome("crash", None, str(e))
        if isinstance(v, Adt) and v.ty == "Result":
            return Outcome("ok" if v.vname == "Ok" else "err", v.fields[0])
        return Outcome("ok", v)

    def drop(self, v):
        self.env.begin_op("drop")
        try:
            self.I.drop_value(v)
        except RustPanic as e:
            return Outcome("panic", None, e.msg)
        except ProcessCrash as e:
            self.env.crashed = True
            return Outcome("crash", None, str(e))
        return Outcome("ok", UNIT)


def path_arg(s):
    return BytesRef(SBytes.of(s), "path")


def str_arg(s):
    return BytesRef(SBytes.of(s), "str")


def bytes_arg(s):
    return BytesRef(SBytes.of(s), "bytes")


def err_class(e):
    """Classification of a cacache Error value: variant name (+ io kind)."""
    if isinstance(e, Adt):
        if e.vname == "IoError":
            io = e.fields[0]
            k = getattr(io, "kind", "?")
            return "IoError(%s)" % ("injected" if k == "?" else k)
        if e.vname == "SizeMismatch":
            return "SizeMismatch"
        return e.vname
    return type(e).__name__
