"""C01 -- checked reads never deliver bytes that differ from what was stored."""
import hashlib
import z3
from .common import *

BOUNDS = {"stored_data": "any length (symbolic); streamed verification loops bounded to 3 data reads per file "
                         "(so copy/reflink see <= 3 KiB, hard_link and async reflink <= 24 KiB; whole reads unbounded)",
          "damage": "content file replaced by an ARBITRARY byte string F of any length (subsumes bit flips, extension, "
                    "another entry's bytes, empty file), truncated at any length, removed, or replaced by a symlink to a file holding F",
          "reads": "<= 3 user reads with symbolic buffer sizes before check() (quick: 2 reads, verification loops bounded to 2 data reads)",
          "integrity": "single hash of each of the five algorithms", "destination": "absent, or (copies) an existing file of arbitrary content and length",
          "repeats": "the same process retrieving the entry once before the damage and again after it (damage in place keeps length-compatible "
                     "cases and the file's modification time)",
          "outside": "more than 3 reads per file; hash collisions (ideal-hash assumption)"}

DAMAGE = ["none", "replace", "truncate", "remove", "symlink"]
RETRIEVALS = ["read", "read_hash", "stream", "stream_hash", "copy", "copy_hash", "hard_link", "hard_link_hash", "reflink", "reflink_hash"]


def damage_content(ctx, scn, sri, D, how):
    """Returns the blob/bytes now at the content address (or None when absent)."""
    cpath = scn.content_path_of(sri)
    if how == "none":
        return
    if how == "replace":
        F = scn.blob("F")
        scn.fs_set(cpath, scn.whole(F))
    elif how == "truncate":
        t = scn.sym("trunc", 64)
        scn.w.assume(z3.ULE(t, sb._bv(D.len)))
        scn.fs_truncate(cpath, t)
    elif how == "remove":
        scn.fs_remove(cpath)
    elif how == "symlink":
        F = scn.blob("F")
        scn.fs_write(ROOT + "/elsewhere", scn.whole(F))
        scn.fs_remove(cpath)
        scn.fs_symlink(ROOT + "/elsewhere", cpath)


def checked(ctx, algo, damage, retrieval, api, nreads=3, dest_exists=False, twice=False):
    scn = ctx.new_scn(api=api)
    if nreads < 3:
        scn.env.short_read_budget = 1
        scn.env.max_reads_per_file = 2
    D = scn.blob("D")
    data = scn.whole(D)
    r = scn.write("k", data, algo=algo)
    if r.kind != "ok":
        return       # C02's business
    sri = r.value
    if twice and retrieval in ("read", "read_hash"):
        # the same process has already retrieved (and verified) this entry once before the damage happens
        first = scn.read_hash(sri) if retrieval == "read_hash" else scn.read("k")
        if first.kind != "ok":
            return
    elif twice and retrieval in ("stream", "stream_hash"):
        r0 = scn.ropen_hash(sri) if retrieval == "stream_hash" else scn.ropen("k")
        if r0.kind != "ok":
            return
        scn.hread(r0.handle, 1 << 20)
        if scn.check(r0.handle).kind != "ok":
            return
    elif twice:
        # the destination was produced by an earlier, successful extraction of the same entry (for hard links it
        # IS the content file); the stored copy is damaged afterwards, then the extraction is repeated
        first = scn.extract(retrieval, ROOT + "/out", sri=sri) if retrieval.endswith("_hash") else scn.extract(retrieval, ROOT + "/out", key="k")
        if first.kind != "ok":
            return
    damage_content(ctx, scn, sri, D, damage)
    tag = "C01:%s:%s:%s%s" % (api, retrieval, damage, ":again" if twice else "")
    what = "%s after damage '%s'" % (retrieval, damage)
    by_hash = retrieval.endswith("_hash")
    if retrieval in ("read", "read_hash"):
        out = scn.read_hash(sri) if by_hash else scn.read("k")
        if not expect_no_panic(ctx, out, tag, what):
            return
        if out.kind == "ok":
            step = last(scn)
            e = sb.content_eq(as_sbytes(out.value), data, ctx.w)
            ctx.expect(e, tag + ":bytes", what + ": Ok with bytes that are not the stored data",
                       native=lambda cz: {"kind": "any", "of": [nat_bytes(cz, step, data), {"kind": "outcome_in", "step": step, "allowed": ["err"]}]})
        return
    if retrieval in ("stream", "stream_hash"):
        r = scn.ropen_hash(sri) if by_hash else scn.ropen("k")
        if not expect_no_panic(ctx, r, tag + ":open", what):
            return
        if r.kind != "ok":
            return
        h = r.handle
        got = SBytes()
        steps = []
        for i in range(nreads):
            n = scn.sym("buf%d" % i, 64, lo=0, hi=1 << 20)
            out = scn.hread(h, n)
            if not expect_no_panic(ctx, out, tag + ":read", what):
                return
            if out.kind != "ok":
                return
            steps.append(last(scn))
            got = got + as_sbytes(out.value)
        out = scn.check(h)
        if not expect_no_panic(ctx, out, tag + ":check", what):
            return
        if out.kind == "ok":
            e = sb.content_eq(got, data, ctx.w)

            def nat(cz):
                b = cz.bytes_of(data)
                return {"kind": "any", "of": [
                    {"kind": "concat_eq", "steps": steps, "len": len(b), "sha256": hashlib.sha256(b).hexdigest()},
                    {"kind": "outcome_in", "step": last(scn), "allowed": ["err"]}]}
            ctx.expect(e, tag + ":bytes", what + ": check() passed but the delivered bytes are not the stored data", native=nat)
        return
    # extractions
    op = retrieval
    dest = ROOT + "/out"
    if dest_exists:
        # the destination already holds an arbitrary file (any length): copies must replace it completely
        G = scn.blob("G")
        scn.fs_write(dest, scn.whole(G))
        tag += ":dest-exists"
    out = scn.extract(op, dest, sri=sri) if by_hash else scn.extract(op, dest, key="k")
    if not expect_no_panic(ctx, out, tag, what):
        return
    if out.kind == "ok":
        okstep = last(scn)
        rd = scn.fs_read(dest)
        step = last(scn)
        if rd.kind != "ok":
            ctx.expect(False, tag + ":dest-missing", what + ": Ok but no file at the destination",
                       native={"kind": "any", "of": [ok_spec(step), {"kind": "outcome_in", "step": okstep, "allowed": ["err"]}]})
            return
        e = sb.content_eq(as_sbytes(rd.value), data, ctx.w)
        ctx.expect(e, tag + ":bytes", what + ": Ok but the destination does not hold the stored data",
                   native=lambda cz: {"kind": "any", "of": [nat_bytes(cz, step, data), {"kind": "outcome_in", "step": okstep, "allowed": ["err"]}]})


def tasks(tier, flavours):
    out = []
    for fl in flavours:
        api = "sync" if fl == "sync" else "async"
        for retrieval in RETRIEVALS:
            if api == "async" and retrieval == "hard_link_hash":
                continue      # no async by-address hard link in the API
            for damage in DAMAGE:
                if tier == "quick" and fl != "sync" and damage in ("truncate", "symlink"):
                    continue
                if tier == "quick" and fl == "tokio" and retrieval.endswith("_hash") and retrieval != "read_hash":
                    continue
                algos = [None] if tier == "quick" else ([None, "Sha1", "Sha512", "Sha384", "Xxh3"] if (damage == "replace" and fl == "sync") else [None, "Sha512", "Xxh3"])
                if tier == "quick" and damage == "replace" and retrieval in ("read", "stream_hash", "copy"):
                    algos = [None, "Sha512", "Xxh3"]
                for algo in algos:
                    out.append(dict(module="C01", family="checked", flavour=fl,
                                    params=dict(algo=algo, damage=damage, retrieval=retrieval, api=api, nreads=2 if tier == "quick" else 3)))
        for retrieval in ("copy", "copy_hash"):
            out.append(dict(module="C01", family="checked", flavour=fl,
                            params=dict(algo=None, damage="none", retrieval=retrieval, api=api, nreads=2 if tier == "quick" else 3, dest_exists=True)))
        for retrieval in ("hard_link", "hard_link_hash", "copy", "reflink", "read", "read_hash", "stream"):
            if api == "async" and retrieval == "hard_link_hash":
                continue
            if tier == "quick" and fl != "sync" and retrieval not in ("hard_link", "read", "read_hash"):
                continue
            for damage in ("replace", "truncate"):
                out.append(dict(module="C01", family="checked", flavour=fl,
                                params=dict(algo=None, damage=damage, retrieval=retrieval, api=api, nreads=2 if tier == "quick" else 3, twice=True)))
        if fl != "sync" and tier != "quick":
            for retrieval in ("read", "stream", "copy", "hard_link"):
                out.append(dict(module="C01", family="checked", flavour=fl, params=dict(algo=None, damage="replace", retrieval=retrieval, api="sync")))
    return out
