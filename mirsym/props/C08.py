"""C08 -- commit enforces declared integrity and size; a rejected commit maps nothing."""
import z3
from .common import *

BOUNDS = {"declared_size": "any usize (symbolic, both sides of the 1 MiB mmap threshold) or absent",
          "data": "any length, delivered in 1..2 chunks (thorough 3) at symbolic boundaries",
          "declared_integrity": "none / correct / wrong digest of the writer's algorithm / correct or wrong digest of another algorithm / "
                                "two-hash values (two algorithms) whose digests are both right or both wrong; a value that is right "
                                "only for an algorithm the writer was explicitly told not to use may be rejected or accepted",
          "prior_state": "key absent / present with other data / present with the same data / removed",
          "outside": "declared integrities that are not well-formed"}

INTEGRITY = ["none", "correct", "wrong", "other-correct", "other-wrong", "multi-right", "multi-wrong"]


def declared_integrity(scn, kind, D, algo):
    a = algo or "Sha256"
    other = "Sha512" if a != "Sha512" else "Sha1"
    data = scn.whole(D)
    if kind == "none":
        return None, True
    if kind == "correct":
        return scn.sri_of(data, a), True
    E = scn.blob("E")
    scn.distinct(D, E)
    wrong = scn.whole(E)
    if kind == "wrong":
        return scn.sri_of(wrong, a), False
    if kind == "other-correct":
        # a correct digest, but of an algorithm the writer does not compute: either verdict is tolerated,
        # but a rejected commit must still map nothing
        return scn.sri_of(data, other), None
    if kind == "other-wrong":
        return scn.sri_of(wrong, other), False
    if kind == "multi-right":
        # both hashes are digests of the data: satisfied under any reading of a multi-hash value
        return scn.sri_multi(scn.sri_of(data, other), scn.sri_of(data, a)), (True if algo is None else None)
    if kind == "multi-wrong":
        return scn.sri_multi(scn.sri_of(wrong, other), scn.sri_of(wrong, a)), False
    raise ValueError(kind)


def commit_rules(ctx, algo, keyed, integrity, size_mode, prior, nchunks, api):
    scn = ctx.new_scn(api=api)
    D = scn.blob("D")
    data = scn.whole(D)
    key = "k"
    tag = "C08:%s:%s:%s:size-%s:prior-%s" % (api, "keyed" if keyed else "hash", integrity, size_mode, prior)
    old = None
    if keyed and prior != "absent":
        if prior == "present-same":
            O = D          # the key already maps to the very bytes the rejected writer will stream
        else:
            O = scn.blob("O")
            scn.distinct(D, O)
        r = scn.write(key, scn.whole(O))
        if r.kind != "ok":
            return
        if prior == "removed":
            if scn.remove(key).kind != "ok":
                return
        else:
            old = scn.whole(O)
    before = scn.metadata(key) if keyed else None
    opts = {}
    if algo:
        opts["algorithm"] = algo
    sri, int_ok = declared_integrity(scn, integrity, D, algo)
    if sri is not None:
        opts["integrity"] = sri
    size_ok = True
    S = None
    if size_mode != "none":
        S = scn.sym("declared", 64)
        opts["size"] = S
    r = scn.open(key, opts) if keyed else scn.open_hash(opts)
    if not expect_ok(ctx, r, tag + ":open", "opening a writer"):
        return
    h = r.handle
    for i, c in enumerate(chunks_of(scn, D, nchunks)):
        out = scn.hwrite_all(h, c)
        if not expect_no_panic(ctx, out, tag + ":write", "writing chunk %d" % (i + 1)):
            return
        if out.kind != "ok":
            # an error from write() is a legitimate way to refuse surplus data only if commit would have failed too
            return
    out = scn.commit(h)
    cstep = last(scn)
    if not expect_no_panic(ctx, out, tag + ":commit", "commit"):
        return
    if S is not None:
        size_ok = ctx.w.branch(S == sb._bv(D.len), "declared==len")
    what = "commit (integrity %s, size %s)" % (integrity, "matching" if size_ok else "mismatching")
    if int_ok is True and size_ok:
        if not expect_ok(ctx, out, tag + ":accept", what):
            return
        if keyed:
            expect_bytes(ctx, scn.read(key), data, tag + ":visible", "reading the key after an accepted commit")
        else:
            expect_bytes(ctx, scn.read_hash(out.value), data, tag + ":visible", "reading the returned address after an accepted commit")
        return
    if int_ok is None and out.kind == "ok":
        if size_ok:
            if keyed:
                expect_bytes(ctx, scn.read(key), data, tag + ":visible", "reading the key after an accepted commit")
            return
    # must be rejected with the right error class
    if out.kind == "ok":
        ctx.expect(False, tag + ":accepted", what + ": accepted although the declaration is not satisfied",
                   native={"kind": "outcome_in", "step": cstep, "allowed": ["err"]})
        return
    cls = err_class(out.value)
    if int_ok is False:
        want = ["IntegrityError"] if size_ok else ["IntegrityError", "SizeMismatch"]
    elif int_ok is None:
        want = ["IntegrityError"] if size_ok else ["IntegrityError", "SizeMismatch"]
    else:
        want = ["SizeMismatch"]
    ctx.expect(cls in want, tag + ":errclass", what + ": rejected with %s instead of %s" % (cls, "/".join(want)),
               native={"kind": "err_variant", "step": cstep, "variants": want})
    if cls == "SizeMismatch" and S is not None:
        e = out.value
        ok = z3.And(sb._bv(e.fields[0]) == S, sb._bv(e.fields[1]) == sb._bv(D.len))
        ctx.expect(ok, tag + ":sizes", what + ": SizeMismatch does not report (declared, written)",
                   native=lambda cz: {"kind": "obs_eq", "step": cstep, "pred": {"outcome": "err", "err": {"variant": "SizeMismatch", "wanted": cz.ev(S), "actual": cz.ev(D.len)}}})
    if keyed:
        after = scn.metadata(key)
        astep = last(scn)
        same = values_eq(ctx.scn.s.I, before.value, after.value) if (before.kind == "ok" and after.kind == "ok") else (before.kind == after.kind)
        from ..replay import render_value
        ctx.expect(same, tag + ":mapping", what + ": a rejected commit changed what the key maps to",
                   native=lambda cz: {"kind": "value_is", "step": astep, "value": render_value(before.value, cz)})
        if old is not None:
            expect_bytes(ctx, scn.read(key), old, tag + ":old-data", "reading the key after a rejected commit")


def tasks(tier, flavours):
    out = []
    for fl in flavours:
        api = "sync" if fl == "sync" else "async"
        for keyed in (True, False):
            for integrity in INTEGRITY:
                for size_mode in ("none", "sym"):
                    priors = ["absent"]
                    if keyed and integrity in ("none", "wrong", "multi-right") :
                        priors = ["absent", "present", "present-same", "removed"] if (tier != "quick" or fl == "sync") else ["present", "present-same"]
                    for prior in priors:
                        for n in ((1, 2) if tier == "quick" else (1, 2, 3)):
                            if tier == "quick" and n == 2 and integrity not in ("none", "correct"):
                                continue
                            algo = None if (integrity != "correct" or n == 1) else "Sha1"
                            out.append(dict(module="C08", family="commit_rules", flavour=fl,
                                            params=dict(algo=algo, keyed=keyed, integrity=integrity, size_mode=size_mode, prior=prior, nchunks=n, api=api)))
    return out
