//! Native scenario runner: executes a scenario JSON against the real cacache build and prints one
//! JSON observation per step.  Used (a) to validate the symbolic models differentially and (b) to
//! replay solver counterexamples before anything is reported as a violation.
use serde_json::{json, Value};
use std::io::{Read, Write};
use std::panic::{catch_unwind, AssertUnwindSafe};
use std::path::{Path, PathBuf};

use cacache::{Algorithm, Integrity, WriteOpts};

#[cfg(feature = "rt-async-std")]
fn block_on<F: std::future::Future>(f: F) -> F::Output {
    async_std::task::block_on(f)
}
#[cfg(feature = "rt-tokio")]
fn block_on<F: std::future::Future>(f: F) -> F::Output {
    thread_local! {
        static RT: tokio::runtime::Runtime = tokio::runtime::Builder::new_current_thread().enable_all().build().unwrap();
    }
    RT.with(|rt| rt.block_on(f))
}

#[cfg(feature = "rt-async-std")]
use futures::io::{AsyncReadExt, AsyncWriteExt};
#[cfg(feature = "rt-tokio")]
use tokio::io::{AsyncReadExt, AsyncWriteExt};

#[allow(dead_code)]
enum Handle {
    SyncWriter(cacache::SyncWriter),
    SyncReader(cacache::SyncReader),
    SyncLinker(cacache::SyncToLinker),
    #[cfg(any(feature = "rt-async-std", feature = "rt-tokio"))]
    Writer(cacache::Writer),
    #[cfg(any(feature = "rt-async-std", feature = "rt-tokio"))]
    Reader(cacache::Reader),
    #[cfg(any(feature = "rt-async-std", feature = "rt-tokio"))]
    Linker(cacache::ToLinker),
}

enum Res {
    Sri(Integrity),
    Bytes(Vec<u8>),
    Handle(usize),
    Meta(Option<cacache::Metadata>),
    List(Vec<Result<cacache::Metadata, cacache::Error>>),
    U64(u64),
    Bool(bool),
    Algo(Algorithm),
    Unit,
    Json(Value),
}

struct Ctx {
    root: PathBuf,
    handles: Vec<Option<Handle>>,
    results: Vec<Option<Res>>,
    next_hid: Option<usize>,
}

fn xorshift_bytes(seed: u64, len: usize) -> Vec<u8> {
    // must match mirsym/replay.py::gen_bytes
    let mut s = seed.wrapping_mul(0x9E3779B97F4A7C15) | 1;
    let mut out = Vec::with_capacity(len);
    while out.len() < len {
        s ^= s << 13;
        s ^= s >> 7;
        s ^= s << 17;
        let b = s.to_le_bytes();
        for x in b.iter() {
            if out.len() < len {
                out.push(*x);
            }
        }
    }
    out
}

fn hex_decode(s: &str) -> Vec<u8> {
    (0..s.len() / 2)
        .map(|i| u8::from_str_radix(&s[2 * i..2 * i + 2], 16).unwrap())
        .collect()
}

fn hex_encode(b: &[u8]) -> String {
    b.iter().map(|x| format!("{:02x}", x)).collect()
}

impl Ctx {
    fn path(&self, v: &Value) -> PathBuf {
        let s = v.as_str().expect("path string");
        if let Some(rest) = s.strip_prefix("$ROOT") {
            let rest = rest.trim_start_matches('/');
            if rest.is_empty() {
                self.root.clone()
            } else {
                self.root.join(rest)
            }
        } else {
            PathBuf::from(s)
        }
    }

    fn cache(&self, step: &Value) -> PathBuf {
        match step.get("cache") {
            Some(c) => self.path(c),
            None => self.root.join("cache"),
        }
    }

    fn data(&self, v: &Value) -> Vec<u8> {
        if let Some(h) = v.get("hex") {
            return hex_decode(h.as_str().unwrap());
        }
        if let Some(s) = v.get("str") {
            return s.as_str().unwrap().as_bytes().to_vec();
        }
        if let Some(seed) = v.get("gen") {
            let len = v["len"].as_u64().unwrap() as usize;
            let all = xorshift_bytes(seed.as_u64().unwrap(), len);
            let a = v.get("a").and_then(|x| x.as_u64()).unwrap_or(0) as usize;
            let b = v.get("b").and_then(|x| x.as_u64()).unwrap_or(len as u64) as usize;
            return all[a..b].to_vec();
        }
        if let Some(r) = v.get("ref") {
            if let Some(Res::Bytes(b)) = &self.results[r.as_u64().unwrap() as usize] {
                return b.clone();
            }
        }
        panic!("bad data spec {v}");
    }

    fn algo(&self, v: Option<&Value>) -> Algorithm {
        match v.and_then(|x| x.as_str()).unwrap_or("Sha256") {
            "Sha1" | "sha1" => Algorithm::Sha1,
            "Sha256" | "sha256" => Algorithm::Sha256,
            "Sha384" | "sha384" => Algorithm::Sha384,
            "Sha512" | "sha512" => Algorithm::Sha512,
            "Xxh3" | "xxh3" => Algorithm::Xxh3,
            x => panic!("algo {x}"),
        }
    }

    fn sri(&self, v: &Value) -> Integrity {
        if let Some(r) = v.get("ref") {
            match &self.results[r.as_u64().unwrap() as usize] {
                Some(Res::Sri(s)) => return s.clone(),
                Some(Res::Meta(Some(m))) => return m.integrity.clone(),
                _ => panic!("ref {r} is not an integrity"),
            }
        }
        if let Some(s) = v.get("str") {
            return s.as_str().unwrap().parse().expect("integrity parses");
        }
        if let Some(d) = v.get("of") {
            let data = self.data(d);
            return ssri::IntegrityOpts::new()
                .algorithm(self.algo(v.get("algo")))
                .chain(&data)
                .result();
        }
        if let Some(m) = v.get("multi") {
            let mut it = m.as_array().unwrap().iter().map(|x| self.sri(x));
            let first = it.next().unwrap();
            return it.fold(first, |acc, x| acc.concat(x));
        }
        panic!("bad sri spec {v}");
    }

    fn opts(&self, v: Option<&Value>) -> WriteOpts {
        let mut o = WriteOpts::new();
        let v = match v {
            Some(v) => v,
            None => return o,
        };
        if let Some(a) = v.get("algorithm") {
            o = o.algorithm(self.algo(Some(a)));
        }
        if let Some(s) = v.get("size") {
            o = o.size(s.as_u64().unwrap() as usize);
        }
        if let Some(t) = v.get("time") {
            let t: u128 = match t {
                Value::String(s) => s.parse().unwrap(),
                other => other.as_u64().unwrap() as u128,
            };
            o = o.time(t);
        }
        if let Some(m) = v.get("metadata") {
            o = o.metadata(m.clone());
        }
        if let Some(r) = v.get("raw_metadata") {
            o = o.raw_metadata(self.data(r));
        }
        if let Some(i) = v.get("integrity") {
            o = o.integrity(self.sri(i));
        }
        o
    }

    fn new_handle(&mut self, h: Handle) -> Res {
        // the scenario names the slot ("hid") so that handle numbers stay stable across a restart
        if let Some(id) = self.next_hid.take() {
            while self.handles.len() <= id {
                self.handles.push(None);
            }
            self.handles[id] = Some(h);
            return Res::Handle(id);
        }
        self.handles.push(Some(h));
        Res::Handle(self.handles.len() - 1)
    }
}

fn io_kind(e: &std::io::Error) -> String {
    format!("{:?}", e.kind())
}

fn err_json(e: &cacache::Error) -> Value {
    match e {
        cacache::Error::EntryNotFound(_, k) => json!({"variant": "EntryNotFound", "key": k}),
        cacache::Error::SizeMismatch(a, b) => json!({"variant": "SizeMismatch", "wanted": a, "actual": b}),
        cacache::Error::IoError(io, _) => json!({"variant": "IoError", "io_kind": io_kind(io)}),
        cacache::Error::SerdeError(_, _) => json!({"variant": "SerdeError"}),
        cacache::Error::IntegrityError(_) => json!({"variant": "IntegrityError"}),
    }
}

fn meta_json(m: &cacache::Metadata) -> Value {
    json!({
        "key": m.key,
        "integrity": m.integrity.to_string(),
        "time": m.time.to_string(),
        "size": m.size,
        "metadata": m.metadata,
        "raw_metadata": m.raw_metadata.as_ref().map(|b| hex_encode(b)),
    })
}

fn sha256_hex(b: &[u8]) -> String {
    let sri = ssri::IntegrityOpts::new().algorithm(Algorithm::Sha256).chain(b).result();
    sri.to_hex().1
}

fn bytes_json(b: &[u8]) -> Value {
    if b.len() <= 8192 {
        json!({"len": b.len(), "sha256": sha256_hex(b), "hex": hex_encode(b)})
    } else {
        json!({"len": b.len(), "sha256": sha256_hex(b)})
    }
}

fn res_json(r: &Res) -> Value {
    match r {
        Res::Sri(s) => json!({"sri": s.to_string()}),
        Res::Bytes(b) => json!({"bytes": bytes_json(b)}),
        Res::Handle(h) => json!({"handle": h}),
        Res::Meta(m) => json!({"meta": m.as_ref().map(meta_json)}),
        Res::List(l) => {
            let mut items: Vec<Value> = l
                .iter()
                .map(|x| match x {
                    Ok(m) => json!({"ok": meta_json(m)}),
                    Err(e) => json!({"err": err_json(e)}),
                })
                .collect();
            items.sort_by_key(|v| v.to_string());
            json!({"list": items})
        }
        Res::U64(n) => json!({"u64": n}),
        Res::Bool(b) => json!({"bool": b}),
        Res::Algo(a) => json!({"algo": a.to_string()}),
        Res::Unit => json!({"unit": true}),
        Res::Json(v) => v.clone(),
    }
}

type R = Result<Res, cacache::Error>;

fn iores<T>(r: std::io::Result<T>, f: impl FnOnce(T) -> Res) -> R {
    match r {
        Ok(t) => Ok(f(t)),
        Err(e) => Err(cacache::Error::IoError(e, "io".into())),
    }
}

fn tree(root: &Path) -> Value {
    fn rec(base: &Path, p: &Path, out: &mut serde_json::Map<String, Value>) {
        let mut ents: Vec<_> = match std::fs::read_dir(p) {
            Ok(rd) => rd.flatten().collect(),
            Err(_) => return,
        };
        ents.sort_by_key(|e| e.file_name());
        for e in ents {
            let path = e.path();
            let rel = path.strip_prefix(base).unwrap().to_string_lossy().to_string();
            let md = std::fs::symlink_metadata(&path).unwrap();
            if md.file_type().is_symlink() {
                let tgt = std::fs::read_link(&path).unwrap();
                out.insert(rel, json!({"type": "symlink", "target": tgt.to_string_lossy()}));
            } else if md.is_dir() {
                out.insert(rel, json!({"type": "dir"}));
                rec(base, &path, out);
            } else {
                use std::os::unix::fs::MetadataExt;
                let b = std::fs::read(&path).unwrap_or_default();
                let mut v = bytes_json(&b);
                v["type"] = json!("file");
                v["nlink"] = json!(md.nlink());
                out.insert(rel, v);
            }
        }
    }
    let mut m = serde_json::Map::new();
    rec(root, root, &mut m);
    Value::Object(m)
}

macro_rules! sync_or_async {
    ($api:expr, $sync:expr, $asy:expr) => {{
        if $api == "sync" {
            $sync
        } else {
            #[cfg(any(feature = "rt-async-std", feature = "rt-tokio"))]
            {
                block_on($asy)
            }
            #[cfg(not(any(feature = "rt-async-std", feature = "rt-tokio")))]
            {
                return Err(Unsupported);
            }
        }
    }};
}

struct Unsupported;

fn run_step(cx: &mut Ctx, step: &Value) -> Result<R, Unsupported> {
    let op = step["op"].as_str().unwrap();
    cx.next_hid = step.get("hid").and_then(|x| x.as_u64()).map(|x| x as usize);
    let api = step.get("api").and_then(|x| x.as_str()).unwrap_or("sync");
    let cache = cx.cache(step);
    let key = step.get("key").and_then(|k| k.as_str()).unwrap_or("").to_string();
    Ok(match op {
        // ---------------------------------------------------------------- writes
        "write" => {
            let data = cx.data(&step["data"]);
            let algo = cx.algo(step.get("algo"));
            let has_algo = step.get("algo").is_some();
            sync_or_async!(
                api,
                if has_algo { cacache::write_sync_with_algo(algo, &cache, &key, &data) } else { cacache::write_sync(&cache, &key, &data) },
                async { if has_algo { cacache::write_with_algo(algo, &cache, &key, &data).await } else { cacache::write(&cache, &key, &data).await } }
            )
            .map(Res::Sri)
        }
        "write_hash" => {
            let data = cx.data(&step["data"]);
            let algo = cx.algo(step.get("algo"));
            let has_algo = step.get("algo").is_some();
            sync_or_async!(
                api,
                if has_algo { cacache::write_hash_sync_with_algo(algo, &cache, &data) } else { cacache::write_hash_sync(&cache, &data) },
                async { if has_algo { cacache::write_hash_with_algo(algo, &cache, &data).await } else { cacache::write_hash(&cache, &data).await } }
            )
            .map(Res::Sri)
        }
        "open" => {
            let o = cx.opts(step.get("opts"));
            if api == "sync" {
                o.open_sync(&cache, &key).map(|w| cx.new_handle(Handle::SyncWriter(w)))
            } else {
                #[cfg(any(feature = "rt-async-std", feature = "rt-tokio"))]
                {
                    block_on(o.open(&cache, &key)).map(|w| cx.new_handle(Handle::Writer(w)))
                }
                #[cfg(not(any(feature = "rt-async-std", feature = "rt-tokio")))]
                return Err(Unsupported);
            }
        }
        "open_hash" => {
            let o = cx.opts(step.get("opts"));
            if api == "sync" {
                o.open_hash_sync(&cache).map(|w| cx.new_handle(Handle::SyncWriter(w)))
            } else {
                #[cfg(any(feature = "rt-async-std", feature = "rt-tokio"))]
                {
                    block_on(o.open_hash(&cache)).map(|w| cx.new_handle(Handle::Writer(w)))
                }
                #[cfg(not(any(feature = "rt-async-std", feature = "rt-tokio")))]
                return Err(Unsupported);
            }
        }
        "create" => {
            let algo = cx.algo(step.get("algo"));
            let has_algo = step.get("algo").is_some();
            if api == "sync" {
                (if has_algo { cacache::SyncWriter::create_with_algo(algo, &cache, &key) } else { cacache::SyncWriter::create(&cache, &key) })
                    .map(|w| cx.new_handle(Handle::SyncWriter(w)))
            } else {
                #[cfg(any(feature = "rt-async-std", feature = "rt-tokio"))]
                {
                    block_on(async { if has_algo { cacache::Writer::create_with_algo(algo, &cache, &key).await } else { cacache::Writer::create(&cache, &key).await } })
                        .map(|w| cx.new_handle(Handle::Writer(w)))
                }
                #[cfg(not(any(feature = "rt-async-std", feature = "rt-tokio")))]
                return Err(Unsupported);
            }
        }
        "hwrite" | "hwrite_all" | "hflush" | "hclose" => {
            let h = step["h"].as_u64().unwrap() as usize;
            let data = if op.starts_with("hwrite") { cx.data(&step["data"]) } else { vec![] };
            match cx.handles.get_mut(h).and_then(|x| x.as_mut()).expect("live handle") {
                Handle::SyncWriter(w) => match op {
                    "hwrite" => iores(w.write(&data), |n| Res::U64(n as u64)),
                    "hwrite_all" => iores(w.write_all(&data), |_| Res::Unit),
                    "hflush" => iores(w.flush(), |_| Res::Unit),
                    _ => return Err(Unsupported),
                },
                #[cfg(any(feature = "rt-async-std", feature = "rt-tokio"))]
                Handle::Writer(w) => match op {
                    "hwrite" => iores(block_on(w.write(&data)), |n| Res::U64(n as u64)),
                    "hwrite_all" => iores(block_on(w.write_all(&data)), |_| Res::Unit),
                    "hflush" => iores(block_on(w.flush()), |_| Res::Unit),
                    _ => {
                        #[cfg(feature = "rt-async-std")]
                        {
                            iores(block_on(w.close()), |_| Res::Unit)
                        }
                        #[cfg(feature = "rt-tokio")]
                        {
                            iores(block_on(w.shutdown()), |_| Res::Unit)
                        }
                    }
                },
                _ => panic!("handle {h} is not a writer"),
            }
        }
        "hwrite_cancel" => {
            // poll write_all once, then drop the future (and report whether it had completed)
            let h = step["h"].as_u64().unwrap() as usize;
            let data = cx.data(&step["data"]);
            match cx.handles.get_mut(h).and_then(|x| x.as_mut()).expect("live handle") {
                #[cfg(any(feature = "rt-async-std", feature = "rt-tokio"))]
                Handle::Writer(w) => {
                    let ready = block_on(async {
                        use std::future::Future;
                        let mut fut = Box::pin(w.write_all(&data));
                        let waker = futures::task::noop_waker();
                        let mut tcx = std::task::Context::from_waker(&waker);
                        let r = fut.as_mut().poll(&mut tcx).is_ready();
                        drop(fut);
                        r
                    });
                    Ok(Res::Bool(ready))
                }
                _ => return Err(Unsupported),
            }
        }
        "quiesce" => {
            // give detached blocking-pool jobs time to finish
            std::thread::sleep(std::time::Duration::from_millis(150));
            Ok(Res::Unit)
        }
        "commit" => {
            let h = step["h"].as_u64().unwrap() as usize;
            match cx.handles.get_mut(h).and_then(|x| x.take()).expect("live handle") {
                Handle::SyncWriter(w) => w.commit().map(Res::Sri),
                Handle::SyncLinker(l) => l.commit().map(Res::Sri),
                #[cfg(any(feature = "rt-async-std", feature = "rt-tokio"))]
                Handle::Writer(w) => block_on(w.commit()).map(Res::Sri),
                #[cfg(any(feature = "rt-async-std", feature = "rt-tokio"))]
                Handle::Linker(l) => block_on(l.commit()).map(Res::Sri),
                _ => panic!("handle {h} cannot commit"),
            }
        }
        "hdrop" => {
            let h = step["h"].as_u64().unwrap() as usize;
            drop(cx.handles.get_mut(h).and_then(|x| x.take()));
            Ok(Res::Unit)
        }
        // ---------------------------------------------------------------- reads
        "read" => sync_or_async!(api, cacache::read_sync(&cache, &key), cacache::read(&cache, &key)).map(Res::Bytes),
        "read_hash" => {
            let sri = cx.sri(&step["sri"]);
            sync_or_async!(api, cacache::read_hash_sync(&cache, &sri), cacache::read_hash(&cache, &sri)).map(Res::Bytes)
        }
        "ropen" => {
            if api == "sync" {
                cacache::SyncReader::open(&cache, &key).map(|r| cx.new_handle(Handle::SyncReader(r)))
            } else {
                #[cfg(any(feature = "rt-async-std", feature = "rt-tokio"))]
                {
                    block_on(cacache::Reader::open(&cache, &key)).map(|r| cx.new_handle(Handle::Reader(r)))
                }
                #[cfg(not(any(feature = "rt-async-std", feature = "rt-tokio")))]
                return Err(Unsupported);
            }
        }
        "ropen_hash" => {
            let sri = cx.sri(&step["sri"]);
            if api == "sync" {
                cacache::SyncReader::open_hash(&cache, sri).map(|r| cx.new_handle(Handle::SyncReader(r)))
            } else {
                #[cfg(any(feature = "rt-async-std", feature = "rt-tokio"))]
                {
                    block_on(cacache::Reader::open_hash(&cache, sri)).map(|r| cx.new_handle(Handle::Reader(r)))
                }
                #[cfg(not(any(feature = "rt-async-std", feature = "rt-tokio")))]
                return Err(Unsupported);
            }
        }
        "hread" | "hread_to_end" => {
            let h = step["h"].as_u64().unwrap() as usize;
            let n = step.get("n").and_then(|x| x.as_u64()).unwrap_or(0) as usize;
            let mut buf = vec![0u8; n];
            let to_end = op == "hread_to_end";
            let mut all = Vec::new();
            let r: std::io::Result<usize> = match cx.handles.get_mut(h).and_then(|x| x.as_mut()).expect("live handle") {
                Handle::SyncReader(r) => if to_end { r.read_to_end(&mut all) } else { r.read(&mut buf) },
                Handle::SyncLinker(r) => if to_end { r.read_to_end(&mut all) } else { r.read(&mut buf) },
                #[cfg(any(feature = "rt-async-std", feature = "rt-tokio"))]
                Handle::Reader(r) => if to_end { block_on(r.read_to_end(&mut all)) } else { block_on(r.read(&mut buf)) },
                #[cfg(any(feature = "rt-async-std", feature = "rt-tokio"))]
                Handle::Linker(r) => if to_end { block_on(r.read_to_end(&mut all)) } else { block_on(r.read(&mut buf)) },
                _ => panic!("handle {h} is not readable"),
            };
            iores(r, |k| if to_end { Res::Bytes(all) } else { Res::Bytes(buf[..k].to_vec()) })
        }
        "check" => {
            let h = step["h"].as_u64().unwrap() as usize;
            match cx.handles.get_mut(h).and_then(|x| x.take()).expect("live handle") {
                Handle::SyncReader(r) => r.check().map(Res::Algo),
                #[cfg(any(feature = "rt-async-std", feature = "rt-tokio"))]
                Handle::Reader(r) => r.check().map(Res::Algo),
                _ => panic!("handle {h} cannot check"),
            }
        }
        "copy" | "copy_unchecked" | "reflink" | "reflink_unchecked" | "hard_link" | "hard_link_unchecked" => {
            let to = cx.path(&step["to"]);
            match (op, api) {
                ("copy", "sync") => cacache::copy_sync(&cache, &key, &to).map(Res::U64),
                ("copy_unchecked", "sync") => cacache::copy_unchecked_sync(&cache, &key, &to).map(Res::U64),
                ("reflink", "sync") => cacache::reflink_sync(&cache, &key, &to).map(|_| Res::Unit),
                ("reflink_unchecked", "sync") => cacache::reflink_unchecked_sync(&cache, &key, &to).map(|_| Res::Unit),
                ("hard_link", "sync") => cacache::hard_link_sync(&cache, &key, &to).map(|_| Res::Unit),
                ("hard_link_unchecked", "sync") => cacache::hard_link_unchecked_sync(&cache, &key, &to).map(|_| Res::Unit),
                #[cfg(any(feature = "rt-async-std", feature = "rt-tokio"))]
                ("copy", _) => block_on(cacache::copy(&cache, &key, &to)).map(Res::U64),
                #[cfg(any(feature = "rt-async-std", feature = "rt-tokio"))]
                ("copy_unchecked", _) => block_on(cacache::copy_unchecked(&cache, &key, &to)).map(Res::U64),
                #[cfg(any(feature = "rt-async-std", feature = "rt-tokio"))]
                ("reflink", _) => block_on(cacache::reflink(&cache, &key, &to)).map(|_| Res::Unit),
                #[cfg(any(feature = "rt-async-std", feature = "rt-tokio"))]
                ("reflink_unchecked", _) => block_on(cacache::reflink_unchecked(&cache, &key, &to)).map(|_| Res::Unit),
                #[cfg(any(feature = "rt-async-std", feature = "rt-tokio"))]
                ("hard_link", _) => block_on(cacache::hard_link(&cache, &key, &to)).map(|_| Res::Unit),
                _ => return Err(Unsupported),
            }
        }
        "copy_hash" | "copy_hash_unchecked" | "reflink_hash" | "reflink_hash_unchecked" | "hard_link_hash" | "hard_link_hash_unchecked" => {
            let to = cx.path(&step["to"]);
            let sri = cx.sri(&step["sri"]);
            match (op, api) {
                ("copy_hash", "sync") => cacache::copy_hash_sync(&cache, &sri, &to).map(Res::U64),
                ("copy_hash_unchecked", "sync") => cacache::copy_hash_unchecked_sync(&cache, &sri, &to).map(Res::U64),
                ("reflink_hash", "sync") => cacache::reflink_hash_sync(&cache, &sri, &to).map(|_| Res::Unit),
                ("reflink_hash_unchecked", "sync") => cacache::reflink_hash_unchecked_sync(&cache, &sri, &to).map(|_| Res::Unit),
                ("hard_link_hash", "sync") => cacache::hard_link_hash_sync(&cache, &sri, &to).map(|_| Res::Unit),
                ("hard_link_hash_unchecked", "sync") => cacache::hard_link_hash_unchecked_sync(&cache, &sri, &to).map(|_| Res::Unit),
                #[cfg(any(feature = "rt-async-std", feature = "rt-tokio"))]
                ("copy_hash", _) => block_on(cacache::copy_hash(&cache, &sri, &to)).map(Res::U64),
                #[cfg(any(feature = "rt-async-std", feature = "rt-tokio"))]
                ("copy_hash_unchecked", _) => block_on(cacache::copy_hash_unchecked(&cache, &sri, &to)).map(Res::U64),
                #[cfg(any(feature = "rt-async-std", feature = "rt-tokio"))]
                ("reflink_hash", _) => block_on(cacache::reflink_hash(&cache, &sri, &to)).map(|_| Res::Unit),
                _ => return Err(Unsupported),
            }
        }
        "metadata" => sync_or_async!(api, cacache::metadata_sync(&cache, &key), cacache::metadata(&cache, &key)).map(Res::Meta),
        "exists" => {
            let sri = cx.sri(&step["sri"]);
            Ok(Res::Bool(sync_or_async!(api, cacache::exists_sync(&cache, &sri), cacache::exists(&cache, &sri))))
        }
        "list" => Ok(Res::List(cacache::list_sync(&cache).collect())),
        // ---------------------------------------------------------------- removals
        "remove" => sync_or_async!(api, cacache::remove_sync(&cache, &key), cacache::remove(&cache, &key)).map(|_| Res::Unit),
        "remove_hash" => {
            let sri = cx.sri(&step["sri"]);
            sync_or_async!(api, cacache::remove_hash_sync(&cache, &sri), cacache::remove_hash(&cache, &sri)).map(|_| Res::Unit)
        }
        "remove_fully" => {
            let o = cacache::RemoveOpts::new().remove_fully(step.get("fully").and_then(|x| x.as_bool()).unwrap_or(true));
            sync_or_async!(api, o.remove_sync(&cache, &key), o.remove(&cache, &key)).map(|_| Res::Unit)
        }
        "clear" => sync_or_async!(api, cacache::clear_sync(&cache), cacache::clear(&cache)).map(|_| Res::Unit),
        // ---------------------------------------------------------------- link_to
        "link_to" => {
            let target = cx.path(&step["target"]);
            sync_or_async!(api, cacache::link_to_sync(&cache, &key, &target), cacache::link_to(&cache, &key, &target)).map(Res::Sri)
        }
        "link_to_hash" => {
            let target = cx.path(&step["target"]);
            sync_or_async!(api, cacache::link_to_hash_sync(&cache, &target), cacache::link_to_hash(&cache, &target)).map(Res::Sri)
        }
        "link_open" | "link_open_hash" => {
            let target = cx.path(&step["target"]);
            let o = cx.opts(step.get("opts"));
            let keyed = op == "link_open";
            if api == "sync" {
                (if keyed { o.link_to_sync(&cache, &key, &target) } else { o.link_to_hash_sync(&cache, &target) })
                    .map(|l| cx.new_handle(Handle::SyncLinker(l)))
            } else {
                #[cfg(any(feature = "rt-async-std", feature = "rt-tokio"))]
                {
                    block_on(async { if keyed { o.link_to(&cache, &key, &target).await } else { o.link_to_hash(&cache, &target).await } })
                        .map(|l| cx.new_handle(Handle::Linker(l)))
                }
                #[cfg(not(any(feature = "rt-async-std", feature = "rt-tokio")))]
                return Err(Unsupported);
            }
        }
        // ---------------------------------------------------------------- raw index
        "index_insert" => {
            let o = cx.opts(step.get("opts"));
            sync_or_async!(api, cacache::index::insert(&cache, &key, o), cacache::index::insert_async(&cache, &key, o)).map(Res::Sri)
        }
        "index_find" => sync_or_async!(api, cacache::index::find(&cache, &key), cacache::index::find_async(&cache, &key)).map(Res::Meta),
        "index_delete" => sync_or_async!(api, cacache::index::delete(&cache, &key), cacache::index::delete_async(&cache, &key)).map(|_| Res::Unit),
        "index_ls" => Ok(Res::List(cacache::index::ls(&cache).collect())),
        // ---------------------------------------------------------------- filesystem manipulation
        "fs_write" => {
            let p = cx.path(&step["path"]);
            if let Some(parent) = p.parent() {
                let _ = std::fs::create_dir_all(parent);
            }
            iores(std::fs::write(&p, cx.data(&step["data"])), |_| Res::Unit)
        }
        "fs_append" => {
            let p = cx.path(&step["path"]);
            let d = cx.data(&step["data"]);
            iores(
                std::fs::OpenOptions::new().append(true).create(true).open(&p).and_then(|mut f| f.write_all(&d)),
                |_| Res::Unit,
            )
        }
        "fs_patch" => {
            let p = cx.path(&step["path"]);
            let d = cx.data(&step["data"]);
            let off = step["off"].as_u64().unwrap() as usize;
            iores(
                std::fs::read(&p).and_then(|mut b| {
                    if b.len() < off + d.len() {
                        b.resize(off + d.len(), 0);
                    }
                    b[off..off + d.len()].copy_from_slice(&d);
                    std::fs::write(&p, b)
                }),
                |_| Res::Unit,
            )
        }
        "fs_insert" => {
            let p = cx.path(&step["path"]);
            let d = cx.data(&step["data"]);
            let off = step["off"].as_u64().unwrap() as usize;
            iores(
                std::fs::read(&p).and_then(|b| {
                    let mut n = b[..off].to_vec();
                    n.extend_from_slice(&d);
                    n.extend_from_slice(&b[off..]);
                    std::fs::write(&p, n)
                }),
                |_| Res::Unit,
            )
        }
        "fs_truncate" => {
            let p = cx.path(&step["path"]);
            let len = step["len"].as_u64().unwrap();
            iores(std::fs::OpenOptions::new().write(true).open(&p).and_then(|f| f.set_len(len)), |_| Res::Unit)
        }
        "fs_flip" => {
            let p = cx.path(&step["path"]);
            let byte = step["byte"].as_u64().unwrap() as usize;
            let bit = step["bit"].as_u64().unwrap() as u8;
            iores(
                std::fs::read(&p).and_then(|mut b| {
                    b[byte] ^= 1 << bit;
                    std::fs::write(&p, b)
                }),
                |_| Res::Unit,
            )
        }
        "fs_remove" => {
            let p = cx.path(&step["path"]);
            iores(std::fs::remove_file(&p), |_| Res::Unit)
        }
        "fs_remove_dir_all" => {
            let p = cx.path(&step["path"]);
            iores(std::fs::remove_dir_all(&p), |_| Res::Unit)
        }
        "fs_rename" => {
            let p = cx.path(&step["path"]);
            let q = cx.path(&step["to"]);
            iores(std::fs::rename(&p, &q), |_| Res::Unit)
        }
        "fs_symlink" => {
            let p = cx.path(&step["path"]);
            let t = cx.path(&step["target"]);
            if let Some(parent) = p.parent() {
                let _ = std::fs::create_dir_all(parent);
            }
            iores(std::os::unix::fs::symlink(&t, &p), |_| Res::Unit)
        }
        "fs_mkdir_p" => {
            let p = cx.path(&step["path"]);
            iores(std::fs::create_dir_all(&p), |_| Res::Unit)
        }
        "fs_read" => {
            let p = cx.path(&step["path"]);
            iores(std::fs::read(&p), Res::Bytes)
        }
        "chdir" => {
            let p = cx.path(&step["path"]);
            iores(std::env::set_current_dir(&p), |_| Res::Unit)
        }
        "content_path" => {
            // where does the library put this address?  (derived by probing: write nothing, compute from to_hex)
            let sri = cx.sri(&step["sri"]);
            let (algo, hex) = sri.to_hex();
            let p = format!("cache/content-v2/{}/{}/{}/{}", algo, &hex[0..2], &hex[2..4], &hex[4..]);
            Ok(Res::Json(json!({"path": p})))
        }
        "snapshot" => Ok(Res::Json(json!({"tree": tree(&cx.root)}))),
        other => panic!("unknown op {other}"),
    })
}

fn main() {
    let args: Vec<String> = std::env::args().collect();
    let scenario: Value = serde_json::from_str(&std::fs::read_to_string(&args[1]).expect("scenario file")).expect("scenario json");
    let keep_root = args.iter().any(|a| a == "--keep");
    let given_root = args.iter().position(|a| a == "--root").map(|i| PathBuf::from(&args[i + 1]));
    let tmp;
    let root = match given_root {
        Some(r) => r,
        None => {
            tmp = tempfile::Builder::new().prefix("cacache-replay-").tempdir().unwrap();
            if keep_root {
                tmp.into_path()
            } else {
                tmp.path().to_path_buf()
            }
        }
    };
    let root = std::fs::canonicalize(&root).unwrap();
    // the system temporary directory of this process lives under the scenario root, so that anything the library
    // puts there is visible in the final tree (and to the shim)
    let systmp = root.join("systmp");
    let _ = std::fs::create_dir_all(&systmp);
    std::env::set_var("TMPDIR", &systmp);
    // watchdog: a hang is an observation, not a stuck check
    let limit = scenario.get("watchdog_s").and_then(|x| x.as_u64()).unwrap_or(60);
    std::thread::spawn(move || {
        std::thread::sleep(std::time::Duration::from_secs(limit));
        println!("{}", json!({"outcome": "hang"}));
        std::process::exit(3);
    });
    std::panic::set_hook(Box::new(|_| {}));
    let mut cx = Ctx { root: root.clone(), handles: vec![], results: vec![], next_hid: None };
    let steps = scenario["steps"].as_array().expect("steps");
    let out = std::io::stdout();
    let from = args.iter().position(|a| a == "--from").map(|i| args[i + 1].parse::<usize>().unwrap()).unwrap_or(0);
    let upto = args.iter().position(|a| a == "--upto").map(|i| args[i + 1].parse::<usize>().unwrap()).unwrap_or(usize::MAX);
    // optional LD_PRELOAD shim: armed around the one step that carries "arm": true
    let arm: Option<extern "C" fn(i32)> = unsafe {
        let p = libc::dlsym(libc::RTLD_DEFAULT, b"cacache_shim_arm\0".as_ptr() as *const libc::c_char);
        if p.is_null() { None } else { Some(std::mem::transmute::<*mut libc::c_void, extern "C" fn(i32)>(p)) }
    };
    for (i, step) in steps.iter().enumerate() {
        if i < from {
            cx.results.push(None);
            continue;
        }
        if i > upto {
            break;
        }
        let armed_here = step.get("arm").and_then(|x| x.as_bool()).unwrap_or(false);
        if armed_here {
            if let Some(f) = arm {
                f(1);
            }
        }
        // environment edits of an existing file (damage) keep its modification time: bit rot and hostile
        // edits do not announce themselves (the model makes the same choice)
        let env_edit = step.get("op").and_then(|x| x.as_str()).map(|o| o.starts_with("fs_")).unwrap_or(false) && step.get("path").is_some();
        let edited = if env_edit { Some(cx.path(&step["path"])) } else { None };
        let before = edited.as_ref().and_then(|p| std::fs::symlink_metadata(p).ok()).filter(|m| m.is_file()).and_then(|m| m.modified().ok());
        let r = catch_unwind(AssertUnwindSafe(|| run_step(&mut cx, step)));
        if let (Some(p), Some(t)) = (edited.as_ref(), before) {
            if let Ok(f) = std::fs::OpenOptions::new().write(true).open(p) {
                let _ = f.set_modified(t);
            }
        }
        if armed_here {
            if let Some(f) = arm {
                f(0);
            }
        }
        let obs = match r {
            Ok(Ok(Ok(res))) => {
                let j = json!({"step": i, "outcome": "ok", "value": res_json(&res)});
                cx.results.push(Some(res));
                j
            }
            Ok(Ok(Err(e))) => {
                cx.results.push(None);
                json!({"step": i, "outcome": "err", "err": err_json(&e)})
            }
            Ok(Err(Unsupported)) => {
                cx.results.push(None);
                json!({"step": i, "outcome": "unsupported"})
            }
            Err(p) => {
                cx.results.push(None);
                let msg = p
                    .downcast_ref::<String>()
                    .cloned()
                    .or_else(|| p.downcast_ref::<&str>().map(|s| s.to_string()))
                    .unwrap_or_default();
                json!({"step": i, "outcome": "panic", "message": msg})
            }
        };
        let mut lock = out.lock();
        writeln!(lock, "{}", obs).unwrap();
        lock.flush().unwrap();
    }
    // dropping handles may unlink temp files: do it before the final snapshot
    let _ = catch_unwind(AssertUnwindSafe(|| cx.handles.clear()));
    println!("{}", json!({"final": {"tree": tree(&root)}}));
    std::process::exit(0);
}
