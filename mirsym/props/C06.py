"""C06 -- damage to an index file is contained to the damaged records."""
import z3
from .common import *
from ..models.serde import JsonValue
from ..replay import render_value
from .. import refmodel
from .C05 import bucket_path_of
from .C04 import put

BOUNDS = {"bucket": "3 honest records of one key (write, overwrite, tombstone or overwrite) with multi-byte key and metadata, written through the API "
                    "(concrete bytes, explicit times), optionally one honest append after the damage",
          "damage": "truncation at a SYMBOLIC length (any byte); overwrite of 1 or 3 bytes at a position with SYMBOLIC values (any of the 256 "
                    "byte values each, so NUL, newline, tab, invalid UTF-8 and single-bit flips are included); insertion of a line of <= 4 symbolic "
                    "bytes (quick: 2) at a record boundary",
          "positions": "quick: representative positions of every structural class of each record (leading newline, first/middle/last byte of the "
                       "checksum, the tab, first/middle/last byte of the JSON incl. inside a multi-byte character); thorough: every byte position (sync; every third position in the async flavours)",
          "oracle": "records whose bytes and delimiting newlines are untouched stay effective; a destroyed newline invalidates the two records it separated",
          "outside": "two damage events at once; damage that forges a record with a valid checksum (ideal hash)"}

KEY = "clé"
METAS = [{"v": "one"}, {"v": "twö ✓"}, {"v": "three"}]
DATAS = [b"first", b"second!", b"3rd"]


def build_bucket(scn, third):
    """Three honest records for KEY.  Returns [(start, end, meta or None)] spans in the bucket file."""
    outs = put(scn, KEY, DATAS[0], 1000, METAS[0])
    if outs[-1].kind != "ok":
        return None
    outs = put(scn, KEY, DATAS[1], 2000, METAS[1])
    if outs[-1].kind != "ok":
        return None
    if third == "tombstone":
        if scn.index_insert(KEY, {"time": 3000}).kind != "ok":     # a tombstone with an explicit time (concrete record)
            return None
    else:
        outs = put(scn, KEY, DATAS[2], 3000, METAS[2])
        if outs[-1].kind != "ok":
            return None
    return True


def spans_of(data):
    """[(start, end)] of the records ("\\n" + line) in the bucket bytes."""
    starts = [i for i, b in enumerate(data) if b == 10]
    return [(s, (starts[k + 1] if k + 1 < len(starts) else len(data))) for k, s in enumerate(starts)]


def expected_state(metas_effective):
    """metas_effective: list of (meta dict or None for tombstone) of the surviving records in order."""
    cur = None
    for m in metas_effective:
        cur = m
    return cur


def check_state(ctx, scn, tag, want_meta, apis, what):
    I = scn.s.I
    for la in apis:
        out = scn.metadata(KEY, api=la)
        step = last(scn)
        if not expect_ok(ctx, out, tag + ":lookup-%s" % la, "lookup (%s API) %s" % (la, what)):
            return False
        got = out.value
        if want_meta is None:
            ctx.expect(got.vname == "None", tag + ":ghost-%s" % la, "%s: lookup (%s API) finds an entry although the surviving records say the key is absent" % (what, la),
                       native={"kind": "value_is", "step": step, "value": {"meta": None}})
        else:
            good = got.vname == "Some" and isinstance(got.fields[0].fields[4], JsonValue) and got.fields[0].fields[4].py == want_meta
            ctx.expect(good, tag + ":wrong-%s" % la, "%s: lookup (%s API) does not return the last surviving record (%r)" % (what, la, want_meta),
                       native={"kind": "meta_field", "step": step, "field": "metadata", "value": want_meta})
    out = scn.list()
    step = last(scn)
    if not expect_no_panic(ctx, out, tag + ":list", "listing " + what):
        return False
    if out.kind == "ok":
        oks = [x.fields[0] for x in out.value.items if x.vname == "Ok"]
        mine = [m for m in oks if m.fields[0].sb.is_concrete() and m.fields[0].sb.concrete().decode() == KEY]
        if want_meta is None:
            ctx.expect(not mine, tag + ":list-ghost", "%s: listing shows the key although it is absent" % what, native=None)
        else:
            good = len(mine) == 1 and isinstance(mine[0].fields[4], JsonValue) and mine[0].fields[4].py == want_meta
            ctx.expect(good, tag + ":list-wrong", "%s: listing does not show the last surviving record" % what, native=None)
    return True


def damage(ctx, kind, third, pos, append_after, api, nbytes=4):
    scn = ctx.new_scn(api=api)
    apis = ["sync"] if scn.flavour == "sync" else ["sync", "async"]
    tag = "C06:%s:%s:%s:%s%s" % (api, kind, third, pos, ":append" if append_after else "")
    if not build_bucket(scn, third):
        return
    bp = bucket_path_of(scn, KEY)
    ino = scn.file_at(bp)
    data = ino.sb.concrete()
    spans = spans_of(data)
    metas = [METAS[0], METAS[1], None if third == "tombstone" else METAS[2]]
    assert len(spans) == 3, spans
    survivors = [True, True, True]
    w = ctx.w
    if kind == "truncate":
        n = scn.sym("cut", 64, lo=0, hi=len(data))
        scn.fs_truncate(bp, n)
        for r, (s, e) in enumerate(spans):
            survivors[r] = w.branch(z3.UGE(n, z3.BitVecVal(e, 64)), "rec%d-intact" % r)
    elif kind in ("overwrite1", "overwrite3"):
        k = 1 if kind == "overwrite1" else 3
        p = resolve_pos(pos, spans, data)
        if p + k > len(data):
            return
        vals = [scn.sym("v%d" % j, 8) for j in range(k)]
        new = SBytes([data[:p]] + [sb.SymByte(v) for v in vals] + [data[p + k:]])
        scn.fs_set(bp, new)
        # which bytes really changed?
        changed = []
        for j, v in enumerate(vals):
            changed.append(not w.branch(v == z3.BitVecVal(data[p + j], 8), "byte%d-unchanged" % j))
        for j, ch in enumerate(changed):
            if not ch:
                continue
            q = p + j
            for r, (s, e) in enumerate(spans):
                if s <= q < e:
                    survivors[r] = False
                    if q == s and r > 0:
                        survivors[r - 1] = False      # the separating newline is gone: both records are fused
    elif kind == "insert":
        r = int(pos)
        at = spans[r][0] if r < len(spans) else len(data)
        nb = nbytes
        vals = [scn.sym("g%d" % j, 8) for j in range(nb)]
        new = SBytes([data[:at], b"\n"] + [sb.SymByte(v) for v in vals] + [data[at:]])
        scn.fs_set(bp, new)
    else:
        raise ValueError(kind)
    eff = [m for m, s in zip(metas, survivors) if s]
    want = expected_state(eff)
    if not check_state(ctx, scn, tag, want, apis, "after the damage"):
        return
    if append_after:
        outs = put(scn, KEY, b"after", 9000, {"v": "after"}, api=apis[-1])
        if not expect_ok(ctx, outs[-1], tag + ":append", "an honest write after the damage"):
            return
        # the damaged tail may swallow the appended record only if it destroyed ... nothing: appends start with a newline
        check_state(ctx, scn, tag + ":after-append", {"v": "after"}, apis, "after a further honest write")


def resolve_pos(pos, spans, data):
    """'r:class' -> byte offset.  classes: nl, h0, hm, hl, tab, j0, jm, jl, mb (inside a multi-byte char)"""
    if isinstance(pos, int):
        return pos
    r, cls = pos.split(":")
    s, e = spans[int(r)]
    tab = data.index(b"\t", s)
    if cls == "nl":
        return s
    if cls == "h0":
        return s + 1
    if cls == "hm":
        return s + 30
    if cls == "hl":
        return tab - 1
    if cls == "tab":
        return tab
    if cls == "j0":
        return tab + 1
    if cls == "jm":
        return (tab + e) // 2
    if cls == "jl":
        return e - 1
    if cls == "mb":
        for q in range(tab, e):
            if data[q] >= 0x80:
                return q + 1 if data[q + 1] & 0xC0 == 0x80 else q
        return tab + 10
    raise ValueError(cls)


def tasks(tier, flavours):
    out = []
    for fl in flavours:
        api = "sync" if fl == "sync" else "async"
        for third in ("write", "tombstone"):
            for ap in (False, True):
                out.append(dict(module="C06", family="damage", flavour=fl, params=dict(kind="truncate", third=third, pos="sym", append_after=ap, api=api)))
            for r in (range(4) if (tier != "quick" or fl == "sync") else (1, 3)):
                out.append(dict(module="C06", family="damage", flavour=fl, params=dict(kind="insert", third=third, pos=str(r), append_after=True, api=api,
                                                                                     nbytes=2 if tier == "quick" else 4)))
            if tier == "quick":
                classes = ["nl", "hm", "tab", "jm", "mb", "jl"]
                recs = [1] if fl != "sync" else [0, 1, 2]
                for r in recs:
                    for cls in classes:
                        out.append(dict(module="C06", family="damage", flavour=fl, params=dict(kind="overwrite1", third=third, pos="%d:%s" % (r, cls), append_after=(r == 2), api=api)))
                out.append(dict(module="C06", family="damage", flavour=fl, params=dict(kind="overwrite3", third=third, pos="1:hl", append_after=False, api=api)))
                out.append(dict(module="C06", family="damage", flavour=fl, params=dict(kind="overwrite3", third=third, pos="2:jl", append_after=True, api=api)))
            else:
                for p in range(0, 720, 1 if fl == "sync" else 3):
                    out.append(dict(module="C06", family="damage", flavour=fl, params=dict(kind="overwrite1", third=third, pos=p, append_after=(p % 2 == 0), api=api)))
                for p in range(0, 720, 7 if fl == "sync" else 21):
                    out.append(dict(module="C06", family="damage", flavour=fl, params=dict(kind="overwrite3", third=third, pos=p, append_after=True, api=api)))
    return out
