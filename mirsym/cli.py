import argparse
import json
import os
import sys
import time

from .check import run_check, native_holds
from .props.common import ASSUMPTIONS


def flavours_for(tier):
    fl = os.environ.get("VERIF_FLAVOURS")
    if fl:
        return fl.split(",")
    return ["sync", "async-std", "tokio"]


def main():
    if len(sys.argv) >= 3 and sys.argv[1] == "replay":
        return replay(sys.argv[2])
    ap = argparse.ArgumentParser()
    ap.add_argument("prop")
    ap.add_argument("--tier", default=os.environ.get("VERIF_TIER", "quick"))
    ap.add_argument("--only", default=None, help="run only families matching this substring")
    a = ap.parse_args()
    seed = int(os.environ.get("VERIF_SEED", "0"))
    t0 = time.time()
    mod = __import__("mirsym.props." + a.prop, fromlist=["x"])
    tasks = mod.tasks(a.tier, flavours_for(a.tier))
    if a.only:
        tasks = [t for t in tasks if a.only in t["family"] or a.only in json.dumps(t["params"])]
    for t in tasks:
        # a safety net against runaway families, generous enough for a heavily loaded machine
        t.setdefault("time_budget", 1800 if a.tier == "quick" else 4 * 3600)
    rc = run_check(a.prop, tasks, a.tier, seed, "", ASSUMPTIONS + getattr(mod, "EXTRA_ASSUMPTIONS", []), mod.BOUNDS, t0)
    sys.exit(rc)


def replay(path):
    from .replay import run_native
    c = json.load(open(path))
    obs, tree = run_native(c["scenario"], c["scenario"].get("flavour", "sync"))
    holds = native_holds(c["expectation"], obs, tree, c["scenario"])
    print(json.dumps({"what": c["what"], "signature": c["signature"], "observations": obs[-8:], "expectation_holds": holds}, indent=1))
    sys.exit(1 if holds is False else 0)


if __name__ == "__main__":
    main()
