// LD_PRELOAD shim for replaying crash points and injected faults of the symbolic model against the
// real cacache build.  Configuration (environment):
//   CACACHE_SHIM_ROOT   only paths under this directory are considered
//   CACACHE_SHIM_SPEC   "crash <effects> <torn|-1>"            kill the process when the armed step has
//                                                               completed <effects> successful mutations and is
//                                                               about to perform the next one (torn >= 0: the
//                                                               next mutation is a write; write <torn> bytes first)
//                       "fault <class> <occurrence> <errno> <short|-1> <path-suffix>"
//                                                               the <occurrence>-th call of <class> on a path ending
//                                                               in <path-suffix> fails with <errno> (short >= 0: that
//                                                               write transfers <short> bytes, the retry fails)
//                       "gate <me> <control file>"                 schedule replay for concurrent processes (C07): the
//                                                               control file (shared mapping) holds a sequence of
//                                                               process numbers; a process may run filesystem calls
//                                                               only while it holds the turn.  A slot lets a process
//                                                               run from where it is parked (arming, or a gate) through
//                                                               one event to its next gate.  Gates: calls that can
//                                                               change the filesystem and opens for reading; events:
//                                                               gate calls that did change it, and opens for reading.
// The runner arms the shim for exactly one step via cacache_shim_arm().
#define _GNU_SOURCE
#include <dlfcn.h>
#include <errno.h>
#include <fcntl.h>
#include <stdarg.h>
#include <stdio.h>
#include <stdlib.h>
#include <string.h>
#include <sys/stat.h>
#include <sys/types.h>
#include <sys/ioctl.h>
#include <sys/mman.h>
#include <pthread.h>
#include <unistd.h>
#include <limits.h>
#include <dirent.h>

static int armed = 0;
static int mode = 0; /* bit flags: 1 crash, 2 fault, 4 gate (crash and fault may be combined) */
static int g_me = 0, g_holding = 0, g_succeeded = 0;
static volatile int *g_ctl = NULL;   /* [0] pos [1] n [2] diverged [3] holder [4..12) done [16..] schedule */
static pthread_mutex_t g_mu = PTHREAD_MUTEX_INITIALIZER;
static long want_effects = -1, torn = -1;
static char f_class[32];
static long f_occ = 0, f_errno = 5, f_short = -1;
static char f_suffix[PATH_MAX];
static char root[PATH_MAX];
static long effects = 0, seen = 0;
static int fail_next_write_fd = -1;
static int inited = 0;

#define MAXFD 4096
static char *fdpath[MAXFD];

static void init(void) {
    if (inited) return;
    inited = 1;
    const char *r = getenv("CACACHE_SHIM_ROOT");
    if (r) strncpy(root, r, sizeof(root) - 1);
    for (int which = 0; which < 2; which++) {
    const char *s = getenv(which ? "CACACHE_SHIM_SPEC2" : "CACACHE_SHIM_SPEC");
    if (!s) continue;
    if (!strncmp(s, "crash", 5)) {
        mode |= 1;
        sscanf(s, "crash %ld %ld", &want_effects, &torn);
    } else if (!strncmp(s, "fault", 5)) {
        mode |= 2;
        f_suffix[0] = 0;
        sscanf(s, "fault %31s %ld %ld %ld %4095s", f_class, &f_occ, &f_errno, &f_short, f_suffix);
    } else if (!strncmp(s, "gate", 4)) {
        char ctlpath[PATH_MAX];
        ctlpath[0] = 0;
        if (sscanf(s, "gate %d %4095s", &g_me, ctlpath) == 2) {
            static int (*ropen)(const char *, int, ...) = NULL;
            if (!ropen) ropen = dlsym(RTLD_NEXT, "open");
            static void *(*rmmap)(void *, size_t, int, int, int, off_t) = NULL;
            if (!rmmap) rmmap = dlsym(RTLD_NEXT, "mmap");
            int fd = ropen(ctlpath, O_RDWR);
            if (fd >= 0) {
                void *m = rmmap(NULL, 65536, PROT_READ | PROT_WRITE, MAP_SHARED, fd, 0);
                if (m != (void *)-1) { g_ctl = (volatile int *)m; mode = 4; }
            }
        }
    }
    }
}

/* ---- gate mode ---------------------------------------------------------------------------------- */
static void gate_wait(void) {
    long waited = 0;
    for (;;) {
        int pos = __atomic_load_n(&g_ctl[0], __ATOMIC_SEQ_CST);
        if (pos >= g_ctl[1]) { __atomic_or_fetch(&g_ctl[2], 1, __ATOMIC_SEQ_CST); return; }      /* schedule exhausted */
        int who = g_ctl[16 + pos];
        if (who == g_me) { __atomic_store_n(&g_ctl[3], g_me, __ATOMIC_SEQ_CST); return; }
        if (who >= 0 && who < 8 && __atomic_load_n(&g_ctl[4 + who], __ATOMIC_SEQ_CST)) {         /* that process is gone */
            __atomic_or_fetch(&g_ctl[2], 2, __ATOMIC_SEQ_CST);
            int expect = pos;
            __atomic_compare_exchange_n(&g_ctl[0], &expect, pos + 1, 0, __ATOMIC_SEQ_CST, __ATOMIC_SEQ_CST);
            continue;
        }
        usleep(200);
        waited += 200;
        if (waited > 10000000) { __atomic_or_fetch(&g_ctl[2], 4, __ATOMIC_SEQ_CST); return; }
    }
}

static void gate_release(void) {
    __atomic_store_n(&g_ctl[3], -1, __ATOMIC_SEQ_CST);
    __atomic_add_fetch(&g_ctl[0], 1, __ATOMIC_SEQ_CST);
}

static const char *g_what = "";
static void gate_arrive(void) {
    pthread_mutex_lock(&g_mu);
    if (g_holding && g_succeeded) { gate_release(); g_holding = 0; g_succeeded = 0; }
    if (!g_holding) { gate_wait(); g_holding = 1; g_succeeded = 0; }
    if (getenv("CACACHE_SHIM_DEBUG")) fprintf(stderr, "gate: proc %d passes at slot %d: %s\n", g_me, g_ctl[0], g_what);
    pthread_mutex_unlock(&g_mu);
}

static void gate_event(void) {
    pthread_mutex_lock(&g_mu);
    g_succeeded = 1;
    if (getenv("CACACHE_SHIM_DEBUG")) fprintf(stderr, "gate: proc %d event in slot %d: %s\n", g_me, g_ctl[0], g_what);
    pthread_mutex_unlock(&g_mu);
}

__attribute__((destructor)) static void gate_exit(void) {
    if ((mode & 4) && g_ctl) {
        pthread_mutex_lock(&g_mu);
        if (g_holding) { gate_release(); g_holding = 0; }
        __atomic_store_n(&g_ctl[4 + g_me], 1, __ATOMIC_SEQ_CST);
        pthread_mutex_unlock(&g_mu);
    }
}

void cacache_shim_arm(int on) {
    init();
    armed = on;
    effects = 0;
    seen = 0;
    fail_next_write_fd = -1;
    if (on && (mode & 4)) gate_arrive();      /* parked at the start of the operation */
    if (!on && (mode & 4) && g_ctl) {         /* the operation is over: give the turn back for good */
        pthread_mutex_lock(&g_mu);
        if (g_holding) { gate_release(); g_holding = 0; g_succeeded = 0; }
        __atomic_store_n(&g_ctl[4 + g_me], 1, __ATOMIC_SEQ_CST);
        pthread_mutex_unlock(&g_mu);
    }
}

static int in_root(const char *p) { return p && root[0] && !strncmp(p, root, strlen(root)); }

static void absolutize(int dirfd, const char *path, char *out) {
    if (!path) { out[0] = 0; return; }
    if (path[0] == '/') { strncpy(out, path, PATH_MAX - 1); out[PATH_MAX - 1] = 0; return; }
    char base[PATH_MAX];
    base[0] = 0;
    if (dirfd == AT_FDCWD) {
        if (!getcwd(base, sizeof(base))) base[0] = 0;
    } else if (dirfd >= 0 && dirfd < MAXFD && fdpath[dirfd]) {
        strncpy(base, fdpath[dirfd], sizeof(base) - 1);
    } else {
        char link[64];
        snprintf(link, sizeof(link), "/proc/self/fd/%d", dirfd);
        ssize_t n = readlink(link, base, sizeof(base) - 1);
        base[n > 0 ? n : 0] = 0;
    }
    snprintf(out, PATH_MAX, "%s/%s", base, path);
}

static int suffix_match(const char *p) {
    if (!f_suffix[0] || !strcmp(f_suffix, "*")) return 1;
    size_t lp = strlen(p), ls = strlen(f_suffix);
    return lp >= ls && !strcmp(p + lp - ls, f_suffix);
}

static void die(void) { _exit(137); }

/* called before a mutating syscall on path p (crash mode) */
static void pre_mutation(const char *p) {
    init();
    if (armed && (mode & 4) && in_root(p)) { g_what = p; gate_arrive(); return; }
    if (!armed || !(mode & 1) || !in_root(p)) return;
    if (effects == want_effects && torn < 0) die();
}

static void post_mutation(const char *p, int ok) {
    if (armed && (mode & 4) && in_root(p)) { if (ok) gate_event(); return; }
    if (!armed || !(mode & 1) || !in_root(p)) return;
    if (ok) effects++;
    if (getenv("CACACHE_SHIM_DEBUG")) fprintf(stderr, "shim: effect %ld ok=%d %s\n", effects, ok, p);
}

/* fault mode: should this call of class cls on path p fail?  returns errno or 0 */
static int fault_here(const char *cls, const char *p) {
    init();
    if (!armed || !(mode & 2) || !in_root(p)) return 0;
    if (strcmp(cls, f_class)) return 0;
    if (!suffix_match(p)) return 0;
    if (seen++ == f_occ) return (int)f_errno;
    return 0;
}

static const char *path_of_fd(int fd) { return (fd >= 0 && fd < MAXFD) ? fdpath[fd] : NULL; }

static void remember(int fd, const char *abs) {
    if (fd < 0 || fd >= MAXFD) return;
    free(fdpath[fd]);
    fdpath[fd] = abs ? strdup(abs) : NULL;
}

#define REAL(name) static __typeof__(name) *real = NULL; if (!real) real = dlsym(RTLD_NEXT, #name)

static int open_common(int dirfd, const char *path, int flags, mode_t m, int which) {
    char abs[PATH_MAX];
    absolutize(dirfd, path, abs);
    int e = fault_here("open", abs);
    if (e) { errno = e; return -1; }
    int creates = 0;
    int gated_plain = 0;
    int gate_mode = armed && (mode & 4) && in_root(abs) && !(flags & O_DIRECTORY);
    if (gate_mode) { g_what = abs; gate_arrive(); gated_plain = 1; }      /* decide "creates" while holding the turn */
    if ((flags & O_CREAT) && in_root(abs)) {
        struct stat st;
        static int (*real_lstat)(const char *, struct stat *) = NULL;
        if (!real_lstat) real_lstat = dlsym(RTLD_NEXT, "lstat");
        creates = real_lstat ? (real_lstat(abs, &st) != 0) : 1;
    }
    int truncs = (flags & O_TRUNC) && !creates;
    if ((creates || truncs) && !gate_mode) pre_mutation(abs);
    int fd;
    if (which == 0) { static int (*r)(const char *, int, ...) = NULL; if (!r) r = dlsym(RTLD_NEXT, "open"); fd = r(path, flags, m); }
    else if (which == 1) { static int (*r)(const char *, int, ...) = NULL; if (!r) r = dlsym(RTLD_NEXT, "open64"); fd = r(path, flags, m); }
    else if (which == 2) { static int (*r)(int, const char *, int, ...) = NULL; if (!r) r = dlsym(RTLD_NEXT, "openat"); fd = r(dirfd, path, flags, m); }
    else { static int (*r)(int, const char *, int, ...) = NULL; if (!r) r = dlsym(RTLD_NEXT, "openat64"); fd = r(dirfd, path, flags, m); }
    if (fd >= 0) remember(fd, abs);
    if (creates || truncs) post_mutation(abs, fd >= 0);
    else if (gated_plain && !(flags & (O_CREAT | O_TRUNC))) gate_event();     /* an open for reading is an event, found or not */
    return fd;
}

int open(const char *path, int flags, ...) { mode_t m = 0; if (flags & (O_CREAT | O_TMPFILE)) { va_list ap; va_start(ap, flags); m = va_arg(ap, mode_t); va_end(ap); } return open_common(AT_FDCWD, path, flags, m, 0); }
int open64(const char *path, int flags, ...) { mode_t m = 0; if (flags & (O_CREAT | O_TMPFILE)) { va_list ap; va_start(ap, flags); m = va_arg(ap, mode_t); va_end(ap); } return open_common(AT_FDCWD, path, flags, m, 1); }
int openat(int dirfd, const char *path, int flags, ...) { mode_t m = 0; if (flags & (O_CREAT | O_TMPFILE)) { va_list ap; va_start(ap, flags); m = va_arg(ap, mode_t); va_end(ap); } return open_common(dirfd, path, flags, m, 2); }
int openat64(int dirfd, const char *path, int flags, ...) { mode_t m = 0; if (flags & (O_CREAT | O_TMPFILE)) { va_list ap; va_start(ap, flags); m = va_arg(ap, mode_t); va_end(ap); } return open_common(dirfd, path, flags, m, 3); }

int close(int fd) {
    REAL(close);
    remember(fd, NULL);
    return real(fd);
}

ssize_t write(int fd, const void *buf, size_t n) {
    REAL(write);
    const char *p = path_of_fd(fd);
    init();
    if (p && in_root(p) && armed) {
        if (mode & 2) {
            if (fail_next_write_fd == fd) { fail_next_write_fd = -1; errno = (int)f_errno; return -1; }
            int e = fault_here("write", p);
            if (e) {
                if (f_short >= 0 && (size_t)f_short < n) { ssize_t r = real(fd, buf, (size_t)f_short); fail_next_write_fd = fd; return r; }
                errno = e; return -1;
            }
        }
        if ((mode & 1) && effects == want_effects) {
            if (torn >= 0) { if (torn > 0) real(fd, buf, (size_t)torn < n ? (size_t)torn : n); die(); }
            die();
        } else if ((mode & 4)) {
            g_what = "write";
            gate_arrive();
        }
    }
    ssize_t r = real(fd, buf, n);
    if (p) post_mutation(p, r >= 0);
    return r;
}

ssize_t pwrite64(int fd, const void *buf, size_t n, off64_t off) {
    REAL(pwrite64);
    const char *p = path_of_fd(fd);
    if (p) { int e = fault_here("write", p); if (e) { errno = e; return -1; } pre_mutation(p); }
    ssize_t r = real(fd, buf, n, off);
    if (p) post_mutation(p, r >= 0);
    return r;
}

ssize_t read(int fd, void *buf, size_t n) {
    REAL(read);
    const char *p = path_of_fd(fd);
    if (p) { int e = fault_here("read", p); if (e) { errno = e; return -1; } }
    return real(fd, buf, n);
}

ssize_t copy_file_range(int fdin, off64_t *offin, int fdout, off64_t *offout, size_t len, unsigned int flags) {
    REAL(copy_file_range);
    const char *p = path_of_fd(fdout);
    if (p) {
        int e = fault_here("write", p); if (e) { errno = e; return -1; }
        init();
        if (armed && (mode & 1) && in_root(p) && effects == want_effects && torn >= 0 && len > 0) {
            if (torn > 0) real(fdin, offin, fdout, offout, (size_t)torn < len ? (size_t)torn : len, flags);
            die();
        }
        if (len > 0) pre_mutation(p);
    }
    ssize_t r = real(fdin, offin, fdout, offout, len, flags);
    if (p && len > 0) post_mutation(p, r > 0);
    return r;
}

int rename(const char *a, const char *b) {
    REAL(rename);
    char pa[PATH_MAX], pb[PATH_MAX];
    absolutize(AT_FDCWD, a, pa); absolutize(AT_FDCWD, b, pb);
    int e = fault_here("rename", pa); if (e) { errno = e; return -1; }
    pre_mutation(pb);
    int r = real(a, b);
    post_mutation(pb, r == 0);
    return r;
}

int renameat(int da, const char *a, int db, const char *b) {
    REAL(renameat);
    char pa[PATH_MAX], pb[PATH_MAX];
    absolutize(da, a, pa); absolutize(db, b, pb);
    int e = fault_here("rename", pa); if (e) { errno = e; return -1; }
    pre_mutation(pb);
    int r = real(da, a, db, b);
    post_mutation(pb, r == 0);
    return r;
}

int renameat2(int da, const char *a, int db, const char *b, unsigned int fl) {
    REAL(renameat2);
    char pa[PATH_MAX], pb[PATH_MAX];
    absolutize(da, a, pa); absolutize(db, b, pb);
    int e = fault_here("rename", pa); if (e) { errno = e; return -1; }
    pre_mutation(pb);
    int r = real(da, a, db, b, fl);
    post_mutation(pb, r == 0);
    return r;
}

int unlink(const char *a) {
    REAL(unlink);
    char pa[PATH_MAX]; absolutize(AT_FDCWD, a, pa);
    int e = fault_here("unlink", pa); if (e) { errno = e; return -1; }
    pre_mutation(pa);
    int r = real(a);
    post_mutation(pa, r == 0);
    return r;
}

int unlinkat(int d, const char *a, int fl) {
    REAL(unlinkat);
    char pa[PATH_MAX]; absolutize(d, a, pa);
    int e = fault_here((fl & AT_REMOVEDIR) ? "rmdir" : "unlink", pa); if (e) { errno = e; return -1; }
    pre_mutation(pa);
    int r = real(d, a, fl);
    post_mutation(pa, r == 0);
    return r;
}

int rmdir(const char *a) {
    REAL(rmdir);
    char pa[PATH_MAX]; absolutize(AT_FDCWD, a, pa);
    int e = fault_here("rmdir", pa); if (e) { errno = e; return -1; }
    pre_mutation(pa);
    int r = real(a);
    post_mutation(pa, r == 0);
    return r;
}

int mkdir(const char *a, mode_t m) {
    REAL(mkdir);
    char pa[PATH_MAX]; absolutize(AT_FDCWD, a, pa);
    struct stat st; static int (*real_lstat)(const char *, struct stat *) = NULL;
    if (!real_lstat) real_lstat = dlsym(RTLD_NEXT, "lstat");
    int exists = real_lstat && real_lstat(pa, &st) == 0;
    if (!exists) { int e = fault_here("mkdir", pa); if (e) { errno = e; return -1; } pre_mutation(pa); }
    int r = real(a, m);
    if (!exists) post_mutation(pa, r == 0);
    return r;
}

int link(const char *a, const char *b) {
    REAL(link);
    char pa[PATH_MAX], pb[PATH_MAX]; absolutize(AT_FDCWD, a, pa); absolutize(AT_FDCWD, b, pb);
    int e = fault_here("link", pa); if (e) { errno = e; return -1; }
    pre_mutation(pb);
    int r = real(a, b);
    post_mutation(pb, r == 0);
    return r;
}

int linkat(int da, const char *a, int db, const char *b, int fl) {
    REAL(linkat);
    char pa[PATH_MAX], pb[PATH_MAX]; absolutize(da, a, pa); absolutize(db, b, pb);
    int e = fault_here("link", pa); if (e) { errno = e; return -1; }
    pre_mutation(pb);
    int r = real(da, a, db, b, fl);
    post_mutation(pb, r == 0);
    return r;
}

int symlink(const char *t, const char *b) {
    REAL(symlink);
    char pb[PATH_MAX]; absolutize(AT_FDCWD, b, pb);
    int e = fault_here("symlink", pb); if (e) { errno = e; return -1; }
    pre_mutation(pb);
    int r = real(t, b);
    post_mutation(pb, r == 0);
    return r;
}

int ftruncate64(int fd, off64_t len) {
    REAL(ftruncate64);
    const char *p = path_of_fd(fd);
    if (p) { int e = fault_here("ftruncate", p); if (e) { errno = e; return -1; } pre_mutation(p); }
    int r = real(fd, len);
    if (p) post_mutation(p, r == 0);
    return r;
}

int ftruncate(int fd, off_t len) { return ftruncate64(fd, len); }

int posix_fallocate64(int fd, off64_t off, off64_t len) {
    REAL(posix_fallocate64);
    const char *p = path_of_fd(fd);
    if (p) { int e = fault_here("fallocate", p); if (e) return e; if (len > 0) pre_mutation(p); }
    int r = real(fd, off, len);
    if (p && len > 0) post_mutation(p, r == 0);
    return r;
}

int posix_fallocate(int fd, off_t off, off_t len) { return posix_fallocate64(fd, off, len); }

int statx(int dirfd, const char *path, int flags, unsigned int mask, struct statx *buf) {
    REAL(statx);
    char pa[PATH_MAX];
    if (path && path[0]) absolutize(dirfd, path, pa); else { const char *p = path_of_fd(dirfd); strncpy(pa, p ? p : "", PATH_MAX - 1); pa[PATH_MAX - 1] = 0; }
    int e = fault_here((flags & AT_SYMLINK_NOFOLLOW) ? "lstat" : "stat", pa); if (e) { errno = e; return -1; }
    return real(dirfd, path, flags, mask, buf);
}

void *mmap(void *addr, size_t len, int prot, int flags, int fd, off_t off) {
    REAL(mmap);
    const char *p = path_of_fd(fd);
    if (p) { int e = fault_here("mmap", p); if (e) { errno = e; return (void *)-1; } }
    return real(addr, len, prot, flags, fd, off);
}

void *mmap64(void *addr, size_t len, int prot, int flags, int fd, off64_t off) {
    REAL(mmap64);
    const char *p = path_of_fd(fd);
    if (p) { int e = fault_here("mmap", p); if (e) { errno = e; return (void *)-1; } }
    return real(addr, len, prot, flags, fd, off);
}

DIR *opendir(const char *a) {
    REAL(opendir);
    char pa[PATH_MAX]; absolutize(AT_FDCWD, a, pa);
    int e = fault_here("readdir", pa); if (e) { errno = e; return NULL; }
    return real(a);
}

int fsync(int fd) {
    REAL(fsync);
    const char *p = path_of_fd(fd);
    if (p) { int e = fault_here("fsync", p); if (e) { errno = e; return -1; } }
    return real(fd);
}
