"""C10 -- listing yields exactly the live entries, once each, agreeing with lookup."""
import z3
from .common import *
from ..models.serde import JsonValue
from .. import refmodel
from .C05 import bucket_path_of, LONG_META
from ..replay import render_value

BOUNDS = {"histories": "all sequences of <= 3 operations (thorough 4) over {write k v, write k v' with metadata, remove k} x 2 keys; "
                       "HashSet iteration order nondeterministic (two orders explored)",
          "timestamps": "default wall-clock times (non-decreasing) or explicit symbolic times per record (any u128, any order)",
          "big_records": "one entry whose record carries up to 300 000 bytes of raw metadata (symbolic length) or a 70 000-byte key",
          "foreign_records": "records and tombstones of other keys pre-placed in the same bucket file",
          "outside": "longer histories; more than two keys + two foreign keys"}


def big_record(ctx, which, api):
    """An entry whose index record is large (tens of kilobytes of raw metadata / a long key): listed exactly as looked up."""
    scn = ctx.new_scn(api=api)
    I = scn.s.I
    D = scn.blob("D", max_len=64)
    R = scn.blob("R", max_len=300000, min_len=1)
    tag = "C10:%s:big-record:%s" % (scn.api, which)
    key = "k" if which == "raw" else "K" * 70000
    opts = {"time": 5, "raw_metadata": scn.whole(R)} if which == "raw" else {"time": 5}
    if scn.write("small", b"x").kind != "ok":
        return
    r = scn.open(key, opts)
    if r.kind != "ok" or scn.hwrite_all(r.handle, scn.whole(D)).kind != "ok" or scn.commit(r.handle).kind != "ok":
        return
    lk = scn.metadata(key)
    mstep = last(scn)
    lst = scn.list()
    lstep = last(scn)
    if not (expect_ok(ctx, lk, tag + ":lookup", "lookup") and expect_ok(ctx, lst, tag + ":list", "listing")):
        return
    found = lk.value.vname == "Some"
    keys = [it.fields[0].fields[0].sb for it in lst.value.items if it.vname == "Ok"]
    listed = any(k.is_concrete() and k.concrete() == key.encode() for k in keys)
    nat = {"kind": "list_agrees", "list_step": lstep, "lookups": {key: mstep}, "exact_keys": sorted([key, "small"])}
    ctx.expect(found, tag + ":not-found", "the entry with the large record is not found by lookup", native=nat)
    ctx.expect(listed, tag + ":missing", "the entry with the large record is found by lookup but missing from the listing", native=nat)


def listing(ctx, length, first, explicit_time, foreign, odd_keys=False):
    scn = ctx.new_scn()
    I = scn.s.I
    V = [scn.blob("V1"), scn.blob("V2")]
    scn.distinct(V[0], V[1])
    keys = ["a", "b"] if not odd_keys else ["say \"hi\"\ttab\\back", "b"]     # keys whose JSON form needs escapes
    live = {}
    tag0 = "C10:%s:len%d%s%s%s" % (scn.api, length, ":times" if explicit_time else "", ":foreign" if foreign else "", ":odd-keys" if odd_keys else "")
    extra_live = {}
    if foreign:
        bp = bucket_path_of(scn, "a")
        rec = refmodel.record_bytes("zz", "sha1-deadbeef", 5, 7) + refmodel.record_bytes("zz", None, 6, 0) + \
            refmodel.record_bytes("yy", "sha256-AAAA", 7, 1) + refmodel.record_bytes("yy", "sha256-BBBB", 3, 2)
        scn.fs_write(bp, rec)
        extra_live = {"yy": "sha256-BBBB"}
    for i in range(length):
        c = first if (i == 0 and first is not None) else ctx.w.choose(6, "op%d" % i)
        k = keys[c % 2]
        kind = c // 2
        tag = "%s:step%d" % (tag0, i)
        if kind == 2:
            if not expect_ok(ctx, scn.remove(k), tag + ":remove", "remove"):
                return
            live.pop(k, None)
        else:
            opts = {}
            if kind == 1:
                opts["metadata"] = JsonValue(LONG_META)
            if explicit_time:
                opts["time"] = scn.sym("t%d" % i, 128)
            r = scn.open(k, opts)
            if not expect_ok(ctx, r, tag + ":open", "open"):
                return
            if not expect_ok(ctx, scn.hwrite_all(r.handle, scn.whole(V[kind])), tag + ":write", "write"):
                return
            if not expect_ok(ctx, scn.commit(r.handle), tag + ":commit", "commit"):
                return
            live[k] = True
    out = scn.list()
    lstep = last(scn)
    if not expect_ok(ctx, out, tag0 + ":list", "listing"):
        return
    items = out.value.items
    errs = [x for x in items if x.vname != "Ok"]
    ctx.expect(not errs, tag0 + ":list-errors", "listing of a healthy cache yields an error item",
               native={"kind": "list_agrees", "list_step": lstep, "lookups": {}})
    listed = [x.fields[0] for x in items if x.vname == "Ok"]
    by_key = {}
    for m in listed:
        kb = m.fields[0].sb
        if not kb.is_concrete():
            raise Inconclusive("listed key is symbolic")
        ks = kb.concrete().decode("utf-8")
        by_key.setdefault(ks, []).append(m)
    lookups = {}
    results = {}
    for k in keys:
        lk = scn.metadata(k)
        lookups[k] = last(scn)
        if not expect_ok(ctx, lk, tag0 + ":lookup", "lookup"):
            return
        results[k] = lk
    expected_keys = set(k for k in keys if live.get(k)) | set(extra_live)
    nat = {"kind": "list_agrees", "list_step": lstep, "lookups": lookups, "exact_keys": sorted(expected_keys)}
    for k in keys:
        lk = results[k]
        found = lk.value.vname == "Some"
        n = len(by_key.get(k, []))
        if not found:
            ctx.expect(n == 0, tag0 + ":ghost", "key %r is listed although lookup does not find it" % k, native=nat)
            continue
        if n != 1:
            ctx.expect(False, tag0 + (":missing" if n == 0 else ":duplicate"),
                       "key %r is found by lookup but listed %d times" % (k, n), native=nat)
            continue
        same = values_eq(I, by_key[k][0], lk.value.fields[0])
        ctx.expect(same, tag0 + ":disagree", "the listed entry of %r differs from what lookup returns" % k, native=nat)
    ctx.expect(set(by_key) == expected_keys, tag0 + ":keyset", "listed keys %r differ from the live keys %r" % (sorted(by_key), sorted(expected_keys)), native=nat)


def tasks(tier, flavours):
    out = []
    length = 3 if tier == "quick" else 4
    for fl in flavours:
        if fl != "sync" and tier == "quick":
            firsts = [0, 3]
        else:
            firsts = range(6)
        for first in firsts:
            out.append(dict(module="C10", family="listing", flavour=fl, params=dict(length=length, first=first, explicit_time=False, foreign=False)))
        for first in ((0, 2) if tier == "quick" else range(6)):
            out.append(dict(module="C10", family="listing", flavour=fl, params=dict(length=3, first=first, explicit_time=True, foreign=False)))
        out.append(dict(module="C10", family="listing", flavour=fl, params=dict(length=2, first=None if tier != "quick" else 1, explicit_time=False, foreign=True)))
        for which in ("raw", "key"):
            out.append(dict(module="C10", family="big_record", flavour=fl, params=dict(which=which, api="sync" if fl == "sync" else "async")))
        for first in ((0, 3) if tier == "quick" else range(6)):
            out.append(dict(module="C10", family="listing", flavour=fl, params=dict(length=2 if tier == "quick" else 3, first=first, explicit_time=False, foreign=False, odd_keys=True)))
    return out
