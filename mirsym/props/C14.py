"""C14 -- abandoned or rejected writes leave no trace in the index or temp area."""
import z3
from .common import *
from ..models.serde import JsonValue
from ..replay import render_value

BOUNDS = {"abandon_points": "after creation, after 1 or 2 chunks, (async) after cancelling a write whose blocking job is still pending, after a rejected commit "
                            "(wrong size or wrong integrity)",
          "writers": "sync and async, keyed and by address, with and without a declared size (mmap path included), data of any length",
          "runtime": "the blocking-pool job runs eagerly, at first poll, or after the handle was dropped (all explored)",
          "interleaving": "one successful write of another key between creation and abandonment",
          "outside": "process exit while a detached job is still queued (that is the crash model of C03/C04)"}


def tmp_files(scn):
    try:
        d = scn.env.vfs.lookup(SBytes.of(CACHE + "/tmp"))
    except Exception:
        return []
    return [n for n, ch in d.children.values()]


def abandon(ctx, keyed, declared, how, interleave, api, spawn_mode="eager", same=False):
    scn = ctx.new_scn(api=api)
    scn.env.spawn_mode = spawn_mode
    I = scn.s.I
    tag = "C14:%s:%s:%s:%s%s:%s" % (api, "keyed" if keyed else "hash", "declared" if declared else "nosize", how, ":interleaved" if interleave else "", spawn_mode)
    O = scn.blob("O")
    if same:
        D = O          # the abandoned / rejected writer streams bytes that are already stored under another key
        tag += ":same-bytes"
    else:
        D = scn.blob("D")
        scn.distinct(O, D)
    data = scn.whole(D)
    if scn.write("old", scn.whole(O)).kind != "ok":
        return
    if keyed and scn.write("k", scn.whole(O)).kind != "ok":
        return
    before = {k: scn.metadata(k) for k in ("k", "old")}
    before_list = scn.list()
    n_index_writes = sum(1 for r in scn.env.trace if r["kind"] == "write" and r.get("append"))
    opts = {}
    if declared == "equal":
        opts["size"] = D.len
    elif declared == "wrong":
        S = scn.sym("declared", 64)
        scn.w.assume(S != sb._bv(D.len))
        opts["size"] = S
    if how == "reject-integrity":
        E = scn.blob("E")
        scn.distinct(E, D)
        opts["integrity"] = scn.sri_of(scn.whole(E))
    r = scn.open("k", opts) if keyed else scn.open_hash(opts)
    if not expect_ok(ctx, r, tag + ":open", "opening a writer"):
        return
    h = r.handle
    if interleave:
        if scn.write("other", scn.whole(O)).kind != "ok":
            return
        n_index_writes += 1
    nchunks = {"after-create": 0, "after-1": 1, "after-2": 2, "cancel": 1}.get(how, 1)
    chunks = chunks_of(scn, D, max(nchunks, 1))
    if how == "cancel":
        out = scn.hwrite_cancel(h, chunks[0])
        if not expect_no_panic(ctx, out, tag + ":cancel", "cancelling a write"):
            return
    else:
        for c in chunks[:nchunks] if how.startswith("after") else chunks:
            out = scn.hwrite_all(h, c)
            if not expect_no_panic(ctx, out, tag + ":write", "writing a chunk"):
                return
            if out.kind != "ok":
                break
    if how.startswith("reject"):
        out = scn.commit(h)
        cstep = last(scn)
        if not expect_no_panic(ctx, out, tag + ":commit", "commit"):
            return
        if declared == "wrong" or how == "reject-integrity":
            ctx.expect(out.kind == "err", tag + ":accepted", "a commit that violates its declaration was accepted",
                       native={"kind": "outcome_in", "step": cstep, "allowed": ["err"]})
            if out.kind != "err":
                return
        elif out.kind == "ok":
            return          # nothing was rejected on this path
    else:
        out = scn.hdrop(h)
        if not expect_no_panic(ctx, out, tag + ":drop", "dropping the writer"):
            return
    scn.quiesce()
    # 1. lookups and listing unchanged
    for k in ("k", "old"):
        lk = scn.metadata(k)
        step = last(scn)
        if expect_ok(ctx, lk, tag + ":lookup", "lookup after the abandoned write"):
            ctx.expect(values_eq(I, lk.value, before[k].value), tag + ":lookup-changed", "an abandoned/rejected write changed the lookup result of %r" % k,
                       native=lambda cz, step=step, k=k: {"kind": "value_is", "step": step, "value": render_value(before[k].value, cz)})
    # previously stored data is still retrievable
    expect_bytes(ctx, scn.read("old"), scn.whole(O), tag + ":old-data", "reading an older entry after the abandoned write")
    if keyed:
        expect_bytes(ctx, scn.read("k"), scn.whole(O), tag + ":k-data", "reading the key's previous data after the abandoned write")
    # 2. no temp file remains
    left = tmp_files(scn)
    ctx.expect(not left, tag + ":tmp-left", "a temporary file of the abandoned writer remains in tmp/ (%d files)" % len(left), native={"kind": "tree_no_tmp"})
    # 3. the index was appended to only by successful commits
    n_after = sum(1 for r in scn.env.trace if r["kind"] == "write" and r.get("append"))
    ctx.expect(n_after == n_index_writes, tag + ":index-append", "an abandoned/rejected write appended to the index",
               native={"kind": "unreplayable", "why": "trace-level expectation (evaluated on the model's action trace)"})


def tasks(tier, flavours):
    out = []
    for fl in flavours:
        api = "sync" if fl == "sync" else "async"
        modes = ["eager"] if fl == "sync" else ["eager", "lazy"]
        for keyed in (True, False):
            for declared in ("none", "equal"):
                for how in ("after-create", "after-1", "after-2"):
                    for sm in modes:
                        if tier == "quick" and sm == "lazy" and (declared == "equal" or not keyed):
                            continue
                        out.append(dict(module="C14", family="abandon", flavour=fl,
                                        params=dict(keyed=keyed, declared=declared, how=how, interleave=(how == "after-1"), api=api, spawn_mode=sm)))
            out.append(dict(module="C14", family="abandon", flavour=fl, params=dict(keyed=keyed, declared="wrong", how="reject-size", interleave=False, api=api)))
            out.append(dict(module="C14", family="abandon", flavour=fl, params=dict(keyed=keyed, declared="wrong", how="reject-size", interleave=False, api=api, same=True)))
            out.append(dict(module="C14", family="abandon", flavour=fl, params=dict(keyed=keyed, declared="none", how="reject-integrity", interleave=False, api=api, same=True)))
            out.append(dict(module="C14", family="abandon", flavour=fl, params=dict(keyed=keyed, declared="none", how="after-2", interleave=False, api=api, same=True)))
            out.append(dict(module="C14", family="abandon", flavour=fl, params=dict(keyed=keyed, declared="none", how="reject-integrity", interleave=True, api=api)))
            if fl != "sync":
                for sm in ("lazy", "lazy-pending"):
                    out.append(dict(module="C14", family="abandon", flavour=fl, params=dict(keyed=keyed, declared="none", how="cancel", interleave=False, api=api, spawn_mode=sm)))
    return out
