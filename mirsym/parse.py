"""Parser for rustc's textual MIR (-Zunpretty=mir) into a small IR.

Only the forms that occur in cacache's dumps are accepted; anything else is
recorded in Program.unknown so that a run on an unparsed construct ends
INCONCLUSIVE instead of guessing.
"""
import re
from dataclasses import dataclass, field
from typing import Any


class ParseError(Exception):
    pass


@dataclass(frozen=True)
class Place:
    local: int
    proj: tuple = ()

    def __repr__(self):
        return "_%d%s" % (self.local, "".join(map(_pp_proj, self.proj)))


def _pp_proj(p):
    k = p[0]
    if k == "deref":
        return ".*"
    if k == "field":
        return ".%d" % p[1]
    if k == "downcast":
        return "@%s" % (p[1],)
    if k == "index":
        return "[_%d]" % p[1]
    if k == "constindex":
        return "[%s%d of %d]" % ("-" if p[3] else "", p[1], p[2])
    if k == "subslice":
        return "[%d:%s%d]" % (p[1], "-" if p[3] else "", p[2])
    return "?"


@dataclass
class Func:
    name: str            # as printed (trimmed path)
    segs: tuple          # normalised segments
    params: list         # [(local, type)]
    ret_ty: str
    locals: dict         # local -> type string
    blocks: dict         # bb index -> Block
    is_const: bool = False
    line: int = 0
    src: str = ""        # raw header text
    nargs: int = 0
    impl_at: Any = None  # (file, line) if an impl method
    debug: dict = field(default_factory=dict)


@dataclass
class Block:
    stmts: list
    term: tuple
    cleanup: bool = False


@dataclass
class Program:
    funcs: dict = field(default_factory=dict)      # printed name -> Func
    consts: dict = field(default_factory=dict)     # printed name -> Func (const body) or ('value', const)
    allocs: dict = field(default_factory=dict)     # alloc name -> bytes
    unknown: list = field(default_factory=list)
    dups: dict = field(default_factory=dict)
    flavour: str = ""


# ---------------------------------------------------------------------------
# low-level text helpers

_OPEN = {"(": ")", "[": "]", "{": "}", "<": ">"}
_CLOSE = {v: k for k, v in _OPEN.items()}


def split_top(s, sep=","):
    """Split s at top-level occurrences of sep (respecting brackets/strings)."""
    out, depth, cur, i, n = [], 0, [], 0, len(s)
    while i < n:
        c = s[i]
        if c == '"' or (c == "b" and i + 1 < n and s[i + 1] == '"' and (i == 0 or not (s[i - 1].isalnum() or s[i - 1] == "_"))):
            j = i + (2 if c == "b" else 1)
            while j < n:
                if s[j] == "\\":
                    j += 2
                    continue
                if s[j] == '"':
                    break
                j += 1
            cur.append(s[i:j + 1])
            i = j + 1
            continue
        if c == "'" :
            # char literal or lifetime
            m = re.match(r"'(\\.[^']*|[^'\\])'", s[i:])
            if m:
                cur.append(m.group(0))
                i += len(m.group(0))
                continue
        if c in "([{":
            depth += 1
        elif c in ")]}":
            depth -= 1
        elif c == "<":
            # generic bracket only if it looks like one (not a comparison - MIR has none)
            depth += 1
        elif c == ">":
            if i > 0 and s[i - 1] == "-":
                pass  # '->'
            elif i > 0 and s[i - 1] == "=":
                pass  # '=>'
            else:
                depth -= 1
        if c == sep[0] and depth == 0 and s.startswith(sep, i):
            out.append("".join(cur).strip())
            cur = []
            i += len(sep)
            continue
        cur.append(c)
        i += 1
    tail = "".join(cur).strip()
    if tail or out:
        out.append(tail)
    return out


def match_bracket(s, i):
    """s[i] is an opening bracket; return index of its match."""
    op = s[i]
    n = len(s)
    depth = 0
    j = i
    while j < n:
        c = s[j]
        if c == '"':
            j += 1
            while j < n and s[j] != '"':
                if s[j] == "\\":
                    j += 1
                j += 1
        elif c == "'":
            m = re.match(r"'(\\.[^']*|[^'\\])'", s[j:])
            if m:
                j += len(m.group(0)) - 1
        elif c in "([{":
            depth += 1
        elif c in ")]}":
            depth -= 1
            if depth == 0 and op != "<":
                return j
        elif c == "<":
            depth += 1
        elif c == ">":
            if j > 0 and s[j - 1] in "-=":
                pass
            else:
                depth -= 1
                if depth == 0:
                    return j
        j += 1
    raise ParseError("unbalanced: " + s[i:i + 60])


def strip_generics(path):
    """Remove ::<...> and <...> generic argument lists from a path string
    (but keep a leading `<T as Trait>` qualified-self form)."""
    out = []
    i, n = 0, len(path)
    while i < n:
        c = path[i]
        if c == "<" and path.startswith("<impl at", i):
            j = match_bracket(path, i)
            out.append(path[i:j + 1])
            i = j + 1
            continue
        if c == "<" and path.startswith("<impl ", i):
            # `module::<impl some::Type>::method` -- an inherent impl written in another module: keep the type name
            j = match_bracket(path, i)
            inner = path[i + len("<impl "):j]
            if " for " in inner:
                inner = inner.split(" for ", 1)[1]
            tyname = strip_generics(inner.strip()).split("::")[-1] if re.match(r"^[A-Za-z_]", inner.strip()) else ""
            if re.fullmatch(r"[A-Z][A-Za-z0-9_]*", tyname):
                out.append(tyname)
            elif out[-2:] == [":", ":"]:
                out = out[:-2]       # primitive / slice impls: core::str::<impl str>::len -> core::str::len
            i = j + 1
            continue
        if c == "<" and i > 0:
            j = match_bracket(path, i)
            # drop the group and a preceding '::'
            if out[-2:] == [":", ":"]:
                out = out[:-2]
            i = j + 1
            continue
        if c in "{[(":
            j = match_bracket(path, i)
            out.append(path[i:j + 1])
            i = j + 1
            continue
        out.append(c)
        i += 1
    return "".join(out)


def path_segments(path):
    """Normalised segments of an unqualified path string."""
    p = strip_generics(path.strip())
    return tuple(x.strip() for x in split_top(p, "::") if x.strip())


def parse_callee_path(text):
    """Return a dict describing a callee / fn item path.
    kinds: 'qualified' (<T as Trait>::m), 'path' (a::b::c)."""
    text = text.strip()
    if text.startswith("<"):
        j = match_bracket(text, 0)
        inner = text[1:j]
        rest = text[j + 1:]
        parts = split_top(inner, " as ")
        if len(parts) == 2:
            selfty, trait = parts
        else:
            selfty, trait = inner, None
        rest = rest.lstrip(":")
        segs = path_segments(rest)
        return {"kind": "qualified", "self": selfty.strip(), "trait": trait.strip() if trait else None,
                "trait_name": path_segments(trait)[-1] if trait else None,
                "method": segs[0] if segs else "", "segs": segs, "raw": text}
    segs = path_segments(text)
    return {"kind": "path", "segs": segs, "raw": text}


# ---------------------------------------------------------------------------
# places / operands / rvalues

_INT_TYS = ("usize", "isize", "u8", "u16", "u32", "u64", "u128", "i8", "i16", "i32", "i64", "i128")
INT_WIDTH = {"usize": 64, "isize": 64, "u8": 8, "u16": 16, "u32": 32, "u64": 64, "u128": 128,
             "i8": 8, "i16": 16, "i32": 32, "i64": 64, "i128": 128, "char": 32, "bool": 1}


def parse_place(s):
    s = s.strip()
    # strip redundant outer parens handled recursively
    return _parse_place(s)


def _parse_place(s):
    s = s.strip()
    m = re.fullmatch(r"_(\d+)", s)
    if m:
        return Place(int(m.group(1)))
    # suffix forms: P[...]
    if s.endswith("]"):
        # find matching '[' for the last ']'
        depth = 0
        for i in range(len(s) - 1, -1, -1):
            if s[i] == "]":
                depth += 1
            elif s[i] == "[":
                depth -= 1
                if depth == 0:
                    break
        base, idx = s[:i], s[i + 1:-1].strip()
        if base:
            b = _parse_place(base)
            m = re.fullmatch(r"_(\d+)", idx)
            if m:
                return Place(b.local, b.proj + (("index", int(m.group(1))),))
            m = re.fullmatch(r"(-?)(\d+) of (\d+)", idx)
            if m:
                return Place(b.local, b.proj + (("constindex", int(m.group(2)), int(m.group(3)), bool(m.group(1))),))
            m = re.fullmatch(r"(\d+):(-?)(\d*)", idx)
            if m:
                return Place(b.local, b.proj + (("subslice", int(m.group(1)), int(m.group(3) or 0), bool(m.group(2))),))
            raise ParseError("index form: " + s)
    if s.startswith("(") and match_bracket(s, 0) == len(s) - 1:
        inner = s[1:-1].strip()
        if inner.startswith("*"):
            b = _parse_place(inner[1:])
            return Place(b.local, b.proj + (("deref",),))
        # (P as Variant)
        parts = split_top(inner, " as ")
        if len(parts) == 2 and ":" not in parts[1]:
            b = _parse_place(parts[0])
            v = parts[1].strip()
            return Place(b.local, b.proj + (("downcast", v),))
        # (P.N: Type)
        # find the top-level ': '
        k = _find_top(inner, ": ")
        if k >= 0:
            left, ty = inner[:k], inner[k + 2:].strip()
            m = re.fullmatch(r"(.*)\.(\d+)", left.strip(), re.S)
            if m:
                b = _parse_place(m.group(1))
                return Place(b.local, b.proj + (("field", int(m.group(2)), ty),))
        raise ParseError("paren place: " + s)
    if s.startswith("*"):
        b = _parse_place(s[1:])
        return Place(b.local, b.proj + (("deref",),))
    raise ParseError("place: " + s)


def _find_top(s, sep):
    depth = 0
    i, n = 0, len(s)
    while i < n:
        c = s[i]
        if c in "([{<":
            depth += 1
        elif c in ")]}":
            depth -= 1
        elif c == ">" and not (i > 0 and s[i - 1] in "-="):
            depth -= 1
        if depth == 0 and s.startswith(sep, i):
            return i
        i += 1
    return -1


def _unescape_rust(body, is_bytes):
    out = bytearray()
    i, n = 0, len(body)
    while i < n:
        c = body[i]
        if c == "\\":
            d = body[i + 1]
            if d == "n":
                out.append(10); i += 2
            elif d == "t":
                out.append(9); i += 2
            elif d == "r":
                out.append(13); i += 2
            elif d == "0":
                out.append(0); i += 2
            elif d == "\\":
                out.append(92); i += 2
            elif d == '"':
                out.append(34); i += 2
            elif d == "'":
                out.append(39); i += 2
            elif d == "x":
                out.append(int(body[i + 2:i + 4], 16)); i += 4
            elif d == "u":
                j = body.index("}", i)
                cp = int(body[i + 3:j], 16)
                out += chr(cp).encode("utf-8"); i = j + 1
            elif d == "\n":
                i += 2
                while i < n and body[i] in " \t\n":
                    i += 1
            else:
                raise ParseError("escape \\" + d)
        else:
            out += c.encode("utf-8")
            i += 1
    return bytes(out)


def parse_const(s):
    s = s.strip()
    if s in ("true", "false"):
        return ("bool", s == "true")
    if s == "()":
        return ("unit",)
    m = re.fullmatch(r"(-?[0-9_]+)_(usize|isize|u8|u16|u32|u64|u128|i8|i16|i32|i64|i128)", s)
    if m:
        return ("int", int(m.group(1).replace("_", "")), m.group(2))
    m = re.fullmatch(r"-?[0-9]+", s)
    if m:
        return ("int", int(s), None)
    if s.startswith('b"') and s.endswith('"'):
        return ("bytes", _unescape_rust(s[2:-1], True))
    if s.startswith('"') and s.endswith('"'):
        return ("str", _unescape_rust(s[1:-1], False))
    if s.startswith("'") and s.endswith("'"):
        b = _unescape_rust(s[1:-1], False)
        return ("char", ord(b.decode("utf-8")))
    if s.startswith("ZeroSized:"):
        return ("zst", s[len("ZeroSized:"):].strip())
    m = re.fullmatch(r"\{(alloc\d+)(?:\+[0-9a-fx]+)?(?:<imm>)?: ([^}]*)\}", s)
    if m:
        return ("alloc", m.group(1), m.group(2))
    if re.match(r"[-0-9.]+f(32|64)", s):
        return ("float", s)
    # named constant, unit struct/variant, promoted
    return ("named", s)


def parse_operand(s):
    s = s.strip()
    if s.startswith("move "):
        return ("move", parse_place(s[5:]))
    if s.startswith("copy "):
        return ("copy", parse_place(s[5:]))
    if s.startswith("no_retag copy "):
        return ("copy", parse_place(s[len("no_retag copy "):]))
    if s.startswith("no_retag move "):
        return ("move", parse_place(s[len("no_retag move "):]))
    if s.startswith("const "):
        return ("const", parse_const(s[6:]))
    # bare fn item
    return ("const", ("fn", s))


BINOPS = {"Add", "Sub", "Mul", "Div", "Rem", "BitXor", "BitAnd", "BitOr", "Shl", "Shr", "Eq", "Lt", "Le", "Ne", "Ge", "Gt",
          "Offset", "Cmp", "AddWithOverflow", "SubWithOverflow", "MulWithOverflow", "AddUnchecked", "SubUnchecked",
          "MulUnchecked", "ShlUnchecked", "ShrUnchecked"}
UNOPS = {"Not", "Neg", "PtrMetadata"}


def parse_rvalue(s):
    s = s.strip()
    for pre in ("move ", "copy ", "const ", "no_retag "):
        if s.startswith(pre):
            # could be a cast: "move _5 as T (Kind)"
            k = _find_top(s, " as ")
            if k >= 0 and s.endswith(")"):
                # cast: "<operand> as <type> (<Kind>)" -- find the '(' matching the final ')'
                depth = 0
                for j in range(len(s) - 1, -1, -1):
                    if s[j] == ")":
                        depth += 1
                    elif s[j] == "(":
                        depth -= 1
                        if depth == 0:
                            break
                kind = s[j + 1:-1]
                ty = s[k + 4:j].strip()
                return ("cast", parse_operand(s[:k]), ty, kind)
            return ("use", parse_operand(s))
    if s.startswith("&raw const "):
        return ("rawptr", False, parse_place(s[len("&raw const "):]))
    if s.startswith("&raw mut "):
        return ("rawptr", True, parse_place(s[len("&raw mut "):]))
    if s.startswith("&mut "):
        return ("ref", True, parse_place(s[5:]))
    if s.startswith("&fake shallow "):
        return ("ref", False, parse_place(s[len("&fake shallow "):]))
    if s.startswith("&"):
        return ("ref", False, parse_place(s[1:]))
    m = re.match(r"([A-Za-z]+)\(", s)
    if m and s.endswith(")"):
        name = m.group(1)
        inner = s[len(name) + 1:-1]
        if name == "discriminant":
            return ("discriminant", parse_place(inner))
        if name == "Len":
            return ("len", parse_place(inner))
        if name == "CopyForDeref":
            return ("use", ("copy", parse_place(inner)))
        if name in BINOPS:
            a, b = split_top(inner)
            return ("binop", name, parse_operand(a), parse_operand(b))
        if name in UNOPS:
            return ("unop", name, parse_operand(inner))
    # tuple aggregate
    if s.startswith("(") and match_bracket(s, 0) == len(s) - 1:
        inner = s[1:-1].strip()
        if inner == "":
            return ("aggregate", ("tuple",), [])
        parts = split_top(inner)
        if parts and parts[-1] == "":
            parts = parts[:-1]
        return ("aggregate", ("tuple",), [parse_operand(p) for p in parts])
    # array aggregate / repeat
    if s.startswith("[") and match_bracket(s, 0) == len(s) - 1:
        inner = s[1:-1]
        k = _find_top(inner, "; ")
        if k >= 0:
            return ("repeat", parse_operand(inner[:k]), inner[k + 2:].strip())
        parts = split_top(inner)
        return ("aggregate", ("array",), [parse_operand(p) for p in parts if p != ""])
    # closure / coroutine aggregate
    if s.startswith("{closure@") or s.startswith("{coroutine@") or s.startswith("{async"):
        j = match_bracket(s, 0)
        head = s[:j + 1]
        rest = s[j + 1:].strip()
        fields = []
        if rest.startswith("{"):
            body = rest[1:-1].strip()
            for part in split_top(body):
                if not part:
                    continue
                k = part.index(":")
                fields.append((part[:k].strip(), parse_operand(part[k + 1:])))
        kind = "closure" if head.startswith("{closure@") else "coroutine"
        return ("aggregate", (kind, head), fields)
    # ADT aggregates: Path { f: op, .. } | Path(op, ..) | Path
    if s.endswith("}"):
        i = _find_top(s, " {")
        if i >= 0:
            head = s[:i].strip()
            body = s[i + 2:-1].strip()
            fields = []
            for part in split_top(body):
                if not part:
                    continue
                k = part.index(":")
                fields.append((part[:k].strip(), parse_operand(part[k + 1:])))
            return ("aggregate", ("adt", head), fields)
    if s.endswith(")"):
        # find the '(' that opens the final group
        depth = 0
        for i in range(len(s) - 1, -1, -1):
            if s[i] == ")":
                depth += 1
            elif s[i] == "(":
                depth -= 1
                if depth == 0:
                    break
        head = s[:i].strip()
        inner = s[i + 1:-1]
        if head and re.match(r"[A-Za-z_<]", head):
            parts = [p for p in split_top(inner) if p != ""]
            return ("aggregate", ("adt_tuple", head), [parse_operand(p) for p in parts])
    if re.match(r"[A-Za-z_<][A-Za-z0-9_:<>, &'\[\]\(\)]*$", s):
        return ("aggregate", ("adt_unit", s), [])
    raise ParseError("rvalue: " + s)


def parse_targets(s):
    """'[return: bb1, unwind: bb2]' / '[return: bb1, unwind continue]' / 'unwind continue'."""
    s = s.strip()
    ret = None
    unwind = None
    if s.startswith("["):
        s = s[1:-1]
    for part in split_top(s):
        part = part.strip()
        m = re.fullmatch(r"(return|success): bb(\d+)", part)
        if m:
            ret = int(m.group(2))
            continue
        m = re.fullmatch(r"unwind: bb(\d+)", part)
        if m:
            unwind = ("goto", int(m.group(1)))
            continue
        if part == "unwind continue":
            unwind = ("continue",)
            continue
        if part.startswith("unwind terminate"):
            unwind = ("terminate",)
            continue
        if part == "unwind unreachable":
            unwind = ("unreachable",)
            continue
        raise ParseError("target: " + part)
    return ret, unwind


def parse_terminator(s):
    s = s.strip()
    if s == "return":
        return ("return",)
    if s == "resume":
        return ("resume",)
    if s == "unreachable":
        return ("unreachable",)
    if s.startswith("unwind terminate") or s == "terminate" or s.startswith("terminate("):
        return ("terminate",)
    m = re.fullmatch(r"goto -> bb(\d+)", s)
    if m:
        return ("goto", int(m.group(1)))
    if s.startswith("switchInt("):
        j = match_bracket(s, len("switchInt"))
        op = parse_operand(s[len("switchInt("):j])
        rest = s[j + 1:].strip()
        assert rest.startswith("->")
        tg = rest[2:].strip()[1:-1]
        arms, otherwise = [], None
        for part in split_top(tg):
            k, v = part.split(":")
            k = k.strip()
            bb = int(v.strip()[2:])
            if k == "otherwise":
                otherwise = bb
            else:
                arms.append((int(k), bb))
        return ("switch", op, arms, otherwise)
    if s.startswith("drop("):
        j = match_bracket(s, 4)
        pl = parse_place(s[5:j])
        rest = s[j + 1:].strip()
        assert rest.startswith("->")
        ret, unwind = parse_targets(rest[2:])
        return ("drop", pl, ret, unwind)
    if s.startswith("assert("):
        j = match_bracket(s, 6)
        inner = s[7:j]
        parts = split_top(inner)
        cond = parts[0].strip()
        expected = True
        if cond.startswith("!"):
            expected = False
            cond = cond[1:]
        msg = parts[1] if len(parts) > 1 else ""
        rest = s[j + 1:].strip()
        ret, unwind = parse_targets(rest[2:])
        return ("assert", parse_operand(cond), expected, msg, ret, unwind, [parse_operand(p) for p in parts[2:]] if len(parts) > 2 else [])
    # call: [PLACE = ] CALLEE(args) -> targets
    k = _find_top(s, " -> ")
    if k < 0:
        raise ParseError("terminator: " + s)
    lhs_call, tg = s[:k], s[k + 4:]
    dest = None
    e = _find_top(lhs_call, " = ")
    if e >= 0:
        dest = parse_place(lhs_call[:e])
        call = lhs_call[e + 3:].strip()
    else:
        call = lhs_call.strip()
    assert call.endswith(")"), call
    depth = 0
    for i in range(len(call) - 1, -1, -1):
        if call[i] == ")":
            depth += 1
        elif call[i] == "(":
            depth -= 1
            if depth == 0:
                break
    callee_s = call[:i].strip()
    args_s = call[i + 1:-1]
    args = [parse_operand(a) for a in split_top(args_s) if a != ""]
    if callee_s.startswith("move ") or callee_s.startswith("copy "):
        callee = ("operand", parse_operand(callee_s))
    else:
        callee = ("path", parse_callee_path(callee_s))
    if tg.strip().startswith("["):
        ret, unwind = parse_targets(tg)
    else:
        ret, unwind = parse_targets("[" + tg + "]")
    return ("call", dest, callee, args, ret, unwind)


def parse_statement(s):
    s = s.strip()
    if s.startswith("StorageLive(") or s.startswith("StorageDead(") or s == "nop" or s.startswith("Retag(") \
            or s.startswith("PlaceMention(") or s.startswith("FakeRead(") or s.startswith("AscribeUserType(") \
            or s.startswith("Coverage::") or s.startswith("ConstEvalCounter") or s.startswith("BackwardIncompatibleDropHint"):
        return ("nop",)
    if s.startswith("Deinit("):
        return ("nop",)
    m = re.fullmatch(r"discriminant\((.*)\) = (\d+)", s, re.S)
    if m:
        return ("setdiscr", parse_place(m.group(1)), int(m.group(2)))
    if s.startswith("assume("):
        return ("nop",)
    k = _find_top(s, " = ")
    if k < 0:
        raise ParseError("statement: " + s)
    return ("assign", parse_place(s[:k]), parse_rvalue(s[k + 3:]))


# ---------------------------------------------------------------------------
# whole file

_FN_RE = re.compile(r"^(fn|const|static(?: mut)?) (.*)$")
_ANON_CONST_RE = re.compile(r"^[A-Za-z_<].*\{constant#\d+\}: .* = \{$")


def _logical_lines(block_lines):
    """Join statements that span several physical lines (long strings)."""
    out = []
    cur = ""
    for ln in block_lines:
        t = ln.strip()
        if not t:
            continue
        cur = (cur + " " + t) if cur else t
        if cur.endswith(";") or cur.endswith("{") or cur == "}":
            out.append(cur)
            cur = ""
    if cur:
        out.append(cur)
    return out


def parse_program(text, flavour=""):
    prog = Program(flavour=flavour)
    lines = text.split("\n")
    i, n = 0, len(lines)
    while i < n:
        ln = lines[i]
        if ln.startswith("//") or not ln.strip():
            i += 1
            continue
        m = re.match(r"^(alloc\d+) \(.*size: (\d+), align: \d+\) \{", ln)
        if m:
            name, size = m.group(1), int(m.group(2))
            ms = re.match(r"^alloc\d+ \(static: ([^,]+),", ln)
            if ms:
                if not hasattr(prog, "alloc_static"):
                    prog.alloc_static = {}
                prog.alloc_static[name] = ms.group(1).strip()
            data = bytearray()
            i += 1
            while i < n and not lines[i].startswith("}"):
                row = lines[i]
                # "    0x00 │ 09 63 ... │ text" or "    09 63 │ text"
                body = row.split("│")[0] if "│" in row else row
                if "│" in row and row.count("│") >= 2:
                    body = row.split("│")[1]
                for tok in body.split():
                    if re.fullmatch(r"[0-9a-f]{2}", tok):
                        data.append(int(tok, 16))
                    elif tok == "__":
                        data.append(0)
                i += 1
            prog.allocs[name] = bytes(data[:size]) if len(data) >= size else None
            i += 1
            continue
        if _ANON_CONST_RE.match(ln):
            ln = "const " + ln
        m = _FN_RE.match(ln)
        if m and (ln.rstrip().endswith("{") or " = const " in ln or ln.rstrip().endswith(";")):
            kind = m.group(1)
            if not ln.rstrip().endswith("{"):
                # one-line const: const NAME: T = const V;
                mm = re.match(r"^(?:const|static(?: mut)?) (.*) = const (.*);$", ln)
                k = _find_top(mm.group(1), ": ") if mm else -1
                if mm and k >= 0:
                    prog.consts[mm.group(1)[:k]] = ("value", parse_const(mm.group(2)), mm.group(1)[k + 2:])
                else:
                    prog.unknown.append((i + 1, ln))
                i += 1
                continue
            # collect body to the closing "}" at column 0
            j = i + 1
            while j < n and lines[j] != "}":
                j += 1
            body = lines[i + 1:j]
            try:
                f = _parse_fn(kind, ln, body, i + 1, prog)
                if f.is_const:
                    prog.consts[f.name] = f
                else:
                    if f.name in prog.funcs:
                        prog.dups.setdefault(f.name, [prog.funcs[f.name]]).append(f)
                    prog.funcs[f.name] = f
            except (ParseError, AssertionError, ValueError, IndexError) as e:
                prog.unknown.append((i + 1, "%s: %s" % (ln[:80], e)))
            i = j + 1
            continue
        prog.unknown.append((i + 1, ln))
        i += 1
    return prog


def _parse_fn(kind, header, body, lineno, prog):
    hdr = header.rstrip()
    assert hdr.endswith("{")
    hdr = hdr[:-1].rstrip()
    is_const = kind != "fn"
    params = []
    if kind == "fn":
        rest = hdr[3:]
        # name up to the '(' that starts the parameter list: parameters start with "(_1:" or "()"
        m = re.search(r"\((_1: |\) ->|\)$)", rest)
        if not m:
            raise ParseError("fn header")
        name = rest[:m.start()].strip()
        pstart = m.start()
        pend = match_bracket(rest, pstart)
        ptxt = rest[pstart + 1:pend]
        for part in split_top(ptxt):
            if not part:
                continue
            k = part.index(":")
            params.append((int(part[:k].strip()[1:]), part[k + 1:].strip()))
        tail = rest[pend + 1:].strip()
        ret_ty = tail[2:].strip() if tail.startswith("->") else "()"
    else:
        rest = hdr[len(kind) + 1:]
        if not rest.endswith(" ="):
            raise ParseError("const header: " + rest)
        rest = rest[:-2]
        k = _find_top(rest, ": ")
        if k < 0:
            raise ParseError("const header: " + rest)
        name, ret_ty = rest[:k].strip(), rest[k + 2:].strip()
    f = Func(name=name, segs=path_segments(name), params=params, ret_ty=ret_ty, locals={}, blocks={},
             is_const=is_const, line=lineno, src=header, nargs=len(params))
    mi = re.search(r"<impl at ([^:>]+):(\d+):(\d+): \d+:\d+>", name)
    if mi:
        f.impl_at = (mi.group(1), int(mi.group(2)), int(mi.group(3)))
    for lcl, ty in params:
        f.locals[lcl] = ty
    f.locals[0] = ret_ty
    # body
    cur_bb = None
    cur_lines = []
    blocks_raw = {}
    for ln in body:
        t = ln.strip()
        m = re.fullmatch(r"bb(\d+)( \(cleanup\))?: \{", t)
        if m:
            cur_bb = (int(m.group(1)), bool(m.group(2)))
            cur_lines = []
            continue
        if cur_bb is not None:
            if t == "}":
                blocks_raw[cur_bb] = cur_lines
                cur_bb = None
            else:
                cur_lines.append(ln)
            continue
        m = re.match(r"let (mut )?_(\d+): (.*);$", t)
        if m:
            f.locals[int(m.group(2))] = m.group(3)
            continue
        m = re.match(r"debug (.*) => (.*);$", t)
        if m:
            f.debug[m.group(1)] = m.group(2)
            continue
    for (bb, cleanup), raw in blocks_raw.items():
        ll = _logical_lines(raw)
        stmts = []
        term = None
        for k, s in enumerate(ll):
            assert s.endswith(";"), s
            s = s[:-1]
            if k == len(ll) - 1:
                term = parse_terminator(s)
            else:
                stmts.append(parse_statement(s))
        f.blocks[bb] = Block(stmts, term, cleanup)
    return f


if __name__ == "__main__":
    import sys, collections
    p = parse_program(open(sys.argv[1]).read())
    print("funcs", len(p.funcs), "consts", len(p.consts), "allocs", len(p.allocs), "unknown", len(p.unknown))
    for u in p.unknown[:40]:
        print("UNKNOWN", u)
    callees = collections.Counter()
    for f in list(p.funcs.values()) + [c for c in p.consts.values() if isinstance(c, Func)]:
        for b in f.blocks.values():
            if b.term[0] == "call" and b.term[2][0] == "path":
                d = b.term[2][1]
                if d["kind"] == "qualified":
                    callees["<%s as %s>::%s" % (strip_generics(d["self"]), d["trait_name"], d["method"])] += 1
                else:
                    callees["::".join(d["segs"])] += 1
    if len(sys.argv) > 2:
        for k, v in sorted(callees.items()):
            print(v, k)
