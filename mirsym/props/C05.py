"""C05 -- a key lookup returns the most recent committed entry, or absent after removal."""
import z3
from .common import *
from ..models.serde import JsonValue
from .. import refmodel

BOUNDS = {"histories": "all sequences of <= 3 operations (thorough: 4 in the sync flavour) over {write k v1, write k v1 with metadata, write k v2, remove k} x 2 keys, "
                       "each step through the sync or the async entry point (chosen exhaustively)",
          "values": "two distinct blobs of any length", "timestamps": "wall clock (non-decreasing) or explicit symbolic u128 per write, in any order", "foreign_records": "a foreign key's record and a tombstone pre-placed in the bucket file",
          "outside": "longer histories; more than two keys"}

LONG_META = {"note": "x" * 40, "list": [1, 2, 3]}


def bucket_path_of(scn, key):
    f = scn.s.find_fn("bucket_path")
    from ..engine import str_arg
    v = scn.s.I.run_fn(f, [scn.cache(), str_arg(key)])
    return v.sb


def check_lookup(ctx, scn, ref, key, tag, I, api=None):
    out = scn.metadata(key, api=api)
    step = last(scn)
    if not expect_ok(ctx, out, tag + ":lookup", "lookup of %r" % key):
        return False
    want = ref.get(key)
    got = out.value
    if want is None:
        return ctx.expect(got.vname == "None", tag + ":resurrected", "lookup of %r finds an entry although the key was never written or was removed" % key,
                          native={"kind": "value_is", "step": step, "value": {"meta": None}})
    if got.vname != "Some":
        ctx.expect(False, tag + ":lost", "lookup of %r finds nothing although a write to it was the last operation on it" % key,
                   native={"kind": "not", "of": {"kind": "value_is", "step": step, "value": {"meta": None}}})
        return False
    m = got.fields[0]
    sri_ok = values_eq(I, m.fields[1], want["sri"])
    if not ctx.expect(sri_ok, tag + ":stale", "lookup of %r returns an entry that is not the most recent write" % key,
                      native=lambda cz: {"kind": "meta_field", "step": step, "field": "integrity", "value": cz.bytes_of(want["sri"].display(I)).decode()}):
        return False
    md = m.fields[4]
    md_ok = isinstance(md, JsonValue) and md.opaque is None and md.py == want.get("meta")
    return ctx.expect(md_ok, tag + ":stale-meta", "lookup of %r returns the metadata of an earlier write" % key,
                      native={"kind": "meta_field", "step": step, "field": "metadata", "value": want.get("meta")})


def history(ctx, length, first, mix_api, foreign, explicit_time=False, odd_keys=False):
    scn = ctx.new_scn()
    I = scn.s.I
    V = [scn.blob("V1"), scn.blob("V2")]
    scn.distinct(V[0], V[1])
    keys = ["a", "b"] if not odd_keys else ["C:\\dir\\f \"x\"\n", "b"]     # keys whose JSON form needs escapes
    ref = {}
    tag0 = "C05:%s:len%d%s%s%s" % (scn.api, length, ":foreign" if foreign else "", ":times" if explicit_time else "", ":odd-keys" if odd_keys else "")
    if foreign:
        # another key's record and a tombstone for it sit in key a's bucket file (hash-bucket sharing)
        bp = bucket_path_of(scn, "a")
        rec = refmodel.record_bytes("zz", "sha1-deadbeef", 5, 7) + refmodel.record_bytes("zz", None, 6, 0) + refmodel.record_bytes("yy", "sha256-AAAA", 7, 1)
        scn.fs_write(bp, rec)
    apis = ["sync", "async"] if (mix_api and scn.flavour != "sync") else [scn.api]
    nops = 8
    for i in range(length):
        if i == 0 and first is not None:
            c = first
        else:
            c = ctx.w.choose(nops, "op%d" % i)
        api = apis[ctx.w.choose(len(apis), "api%d" % i)] if len(apis) > 1 else apis[0]
        k = keys[c % 2]
        kind = c // 2            # 0: write V1, 1: write V1 again with long metadata, 2: write V2, 3: remove
        tag = "%s:step%d" % (tag0, i)
        if kind == 3:
            out = scn.remove(k, api=api)
            if not expect_ok(ctx, out, tag + ":remove", "remove"):
                return
            ref[k] = None
        else:
            v = V[0 if kind < 2 else 1]
            if kind == 1 or explicit_time:
                o = {"metadata": JsonValue(LONG_META)} if kind == 1 else {}
                if explicit_time:
                    o["time"] = scn.sym("t%d" % i, 128)
                r = scn.open(k, o, api=api)
                if not expect_ok(ctx, r, tag + ":open", "open"):
                    return
                if not expect_ok(ctx, scn.hwrite_all(r.handle, scn.whole(v), api=api), tag + ":write", "write"):
                    return
                out = scn.commit(r.handle, api=api)
            else:
                out = scn.write(k, scn.whole(v), api=api)
            if not expect_ok(ctx, out, tag + ":write", "write"):
                return
            ref[k] = {"sri": out.value, "data": scn.whole(v), "meta": LONG_META if kind == 1 else None}
        for kk in keys:
            la = apis[ctx.w.choose(len(apis), "lapi%d%s" % (i, kk))] if (len(apis) > 1 and i == length - 1) else api
            if not check_lookup(ctx, scn, ref, kk, tag + ":" + kk, I, api=la):
                return
    for kk in keys:
        want = ref.get(kk)
        out = scn.read(kk)
        step = last(scn)
        if want is None:
            good = out.kind == "err" and err_class(out.value) == "EntryNotFound"
            ctx.expect(good, tag0 + ":read-absent", "read of an absent key does not report EntryNotFound",
                       native={"kind": "err_variant", "step": step, "variants": ["EntryNotFound"]})
        else:
            expect_bytes(ctx, out, want["data"], tag0 + ":read", "read of key %r after the history" % kk)
    if foreign:
        for fk in ("zz",):
            out = scn.metadata(fk)
            step = last(scn)
            if expect_ok(ctx, out, tag0 + ":foreign-lookup", "lookup of a foreign key"):
                ctx.expect(out.value.vname == "None", tag0 + ":foreign-leak", "a record placed in another key's bucket is returned for its own key's bucket lookup",
                           native={"kind": "value_is", "step": step, "value": {"meta": None}})


def tasks(tier, flavours):
    out = []
    length = 3
    for fl in flavours:
        for first in range(8):
            out.append(dict(module="C05", family="history", flavour=fl,
                            params=dict(length=length, first=first, mix_api=(fl != "sync" and tier != "quick"), foreign=False)))
        if tier != "quick" and fl == "sync":
            # histories of four operations (sync flavour; the async code paths share the index format and are covered at length 3)
            for first in range(8):
                out.append(dict(module="C05", family="history", flavour=fl, params=dict(length=4, first=first, mix_api=False, foreign=False), time_budget=3000))
        if fl != "sync" and tier == "quick":
            for first in (0, 3):
                out.append(dict(module="C05", family="history", flavour=fl, params=dict(length=2, first=first, mix_api=True, foreign=False)))
        for first in ((0, 4) if tier == "quick" else range(8)):
            out.append(dict(module="C05", family="history", flavour=fl, params=dict(length=2 if tier == "quick" else 3, first=first, mix_api=False, foreign=False, explicit_time=True)))
        for first in ((0, 5) if tier == "quick" else range(8)):
            out.append(dict(module="C05", family="history", flavour=fl, params=dict(length=2 if tier == "quick" else 3, first=first, mix_api=(fl != "sync"), foreign=False, odd_keys=True)))
        for first in ((0, 6) if tier == "quick" else range(8)):
            out.append(dict(module="C05", family="history", flavour=fl, params=dict(length=2 if tier == "quick" else 3, first=first, mix_api=False, foreign=True)))
    return out
