#!/bin/bash
# Build everything the checks need from files on disk only (offline).
set -e
cd "$(dirname "$0")"
export CARGO_NET_OFFLINE=true
mkdir -p build evidence
python3-vt -m mirsym.dump sync async-std tokio >/dev/null
echo "setup ok"
