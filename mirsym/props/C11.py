"""C11 -- index metadata is returned exactly as supplied, with truthful defaults."""
import z3
from .common import *
from ..models.serde import JsonValue
from ..replay import render_value

BOUNDS = {"time": "any u128 (symbolic) or absent", "size": "declared size equal to the data length (symbolic) or absent",
          "metadata": "opaque JSON value (any structure: the round trip may not depend on it) plus concrete nested samples; or absent",
          "raw_metadata": "opaque byte string of any length / concrete samples / absent",
          "integrity": "computed by the writer, or attached by the caller: a single hash or two hashes of different algorithms (both correct)",
          "keys": "hostile key set", "data": "any length",
          "outside": "binary64 values that JSON text does not carry exactly (excluded by the property)"}

METAS = [None, {"a": [1, 2, {"b": None}], "s": "q\"\\\n\té", "n": -5, "t": True, "big": 18446744073709551615}, "plain", [1.5, 0.25]]


def field(meta, name):
    names = meta.names
    return meta.fields[names.index(name)]


def roundtrip(ctx, key, with_time, with_meta, with_raw, declared, entry, api, with_integrity=None):
    scn = ctx.new_scn(api=api)
    I = scn.s.I
    D = scn.blob("D")
    data = scn.whole(D)
    opts = {}
    tag = "C11:%s:%s:%s%s%s%s" % (api, entry, "T" if with_time else "t", "M" if with_meta else "m", "R" if with_raw else "r", "S" if declared else "s")
    T = None
    if with_time:
        T = scn.sym("time", 128)
        opts["time"] = T
    mv = None
    if with_meta == "opaque":
        mv = JsonValue(opaque="meta0")
        opts["metadata"] = mv
    elif with_meta:
        mv = JsonValue(METAS[with_meta])
        opts["metadata"] = mv
    raw = None
    if with_raw == "blob":
        R = scn.blob("R")
        raw = scn.whole(R)
        opts["raw_metadata"] = raw
    elif with_raw:
        raw = SBytes.of(b"\x00\x01\xff\n\"")
        opts["raw_metadata"] = raw
    if declared:
        opts["size"] = D.len
    supplied = None
    if with_integrity == "single":
        supplied = scn.sri_of(data, "Sha512")
    elif with_integrity == "multi":
        supplied = scn.sri_multi(scn.sri_of(data, "Sha512"), scn.sri_of(data, "Sha256"))
    elif with_integrity == "multi-sha1":
        supplied = scn.sri_multi(scn.sri_of(data, "Sha256"), scn.sri_of(data, "Sha1"))
    if supplied is not None:
        opts["integrity"] = supplied
        tag += ":I-" + with_integrity
    if entry == "oneshot":
        r = scn.write(key, data)
        if not expect_ok(ctx, r, tag + ":write", "one-shot write"):
            return
        sri = r.value
    else:
        r = scn.open(key, opts)
        if not expect_ok(ctx, r, tag + ":open", "opening a writer"):
            return
        h = r.handle
        if not expect_ok(ctx, scn.hwrite_all(h, data), tag + ":write", "writing"):
            return
        r = scn.commit(h)
        if not expect_ok(ctx, r, tag + ":commit", "commit"):
            return
        sri = r.value
        if supplied is not None:
            sri = supplied       # the integrity value the writer attached is what lookups must return
    n_clock = len(scn.env.clock_terms)
    for how in ("metadata", "list"):
        if how == "metadata":
            out = scn.metadata(key)
            step = last(scn)
            if not expect_ok(ctx, out, tag + ":lookup", "metadata lookup"):
                return
            if not (isinstance(out.value, Adt) and out.value.vname == "Some"):
                ctx.expect(False, tag + ":lookup:none", "metadata lookup returns None after a successful write",
                           native={"kind": "not", "of": {"kind": "value_is", "step": step, "value": {"meta": None}}})
                return
            m = out.value.fields[0]
        else:
            out = scn.list()
            step = last(scn)
            if not expect_ok(ctx, out, tag + ":list", "listing"):
                return
            items = out.value.items
            oks = [x.fields[0] for x in items if x.vname == "Ok"]
            if len(oks) != 1 or len(items) != 1:
                ctx.expect(False, tag + ":list:count", "listing does not yield exactly the one written entry (%d items)" % len(items),
                           native=None)
                return
            m = oks[0]

        def nat_field(fname, conv):
            def f(cz):
                if how == "metadata":
                    return {"kind": "meta_field", "step": step, "field": fname, "value": conv(cz)}
                return {"kind": "unreplayable", "why": "list field"}
            return f
        what = "%s via %s" % (tag, how)
        # key
        ctx.expect(sb.content_eq(field(m, "key").sb, SBytes.of(key), ctx.w), tag + ":%s:key" % how, what + ": key differs", native=nat_field("key", lambda cz: key))
        # integrity
        ctx.expect(values_eq(I, field(m, "integrity"), sri), tag + ":%s:integrity" % how, what + ": integrity differs from the one " + ("the writer attached" if supplied is not None else "returned by the write"),
                   native=nat_field("integrity", lambda cz: cz.bytes_of(sri.display(I)).decode()))
        # time
        t = field(m, "time")
        if T is not None and entry != "oneshot":
            ctx.expect(sb._zext(t, 128, 128) == T if is_sym(t) else (T == z3.BitVecVal(t, 128)), tag + ":%s:time" % how, what + ": explicit time not returned exactly",
                       native=nat_field("time", lambda cz: str(cz.ev(T))))
        else:
            # default: Unix milliseconds of an instant sampled during the commit
            clocks = scn.env.clock_terms[:n_clock]
            if not clocks:
                ctx.expect(False, tag + ":%s:time-default" % how, what + ": no clock was read for the default time", native={"kind": "unreplayable", "why": "clock"})
            else:
                tt = t if is_sym(t) else z3.BitVecVal(t, 128)
                cond = z3.Or(*[tt == z3.ZeroExt(64, c) for c in clocks])
                ctx.expect(cond, tag + ":%s:time-default" % how, what + ": default time is not the wall clock in Unix milliseconds",
                           native={"kind": "unreplayable", "why": "wall-clock value"})
        # size
        sz = field(m, "size")
        want_sz = D.len
        ctx.expect(sb._bv(sz) == sb._bv(want_sz), tag + ":%s:size" % how, what + ": size is not the number of bytes written" if not declared or entry == "oneshot" else what + ": declared size not returned",
                   native=nat_field("size", lambda cz: cz.ev(D.len)))
        # metadata
        md = field(m, "metadata")
        if entry != "oneshot" and mv is not None:
            ctx.expect(values_eq(I, md, mv), tag + ":%s:metadata" % how, what + ": JSON metadata differs",
                       native=nat_field("metadata", lambda cz: mv.py) if mv.opaque is None else {"kind": "unreplayable", "why": "opaque json"})
        else:
            isnull = isinstance(md, JsonValue) and md.opaque is None and md.py is None
            ctx.expect(isnull, tag + ":%s:metadata-default" % how, what + ": default metadata is not null", native=nat_field("metadata", lambda cz: None))
        # raw metadata
        rm = field(m, "raw_metadata")
        if entry != "oneshot" and raw is not None:
            good = isinstance(rm, Adt) and rm.vname == "Some"
            e = sb.content_eq(rm.fields[0].sb, raw, ctx.w) if good else False
            ctx.expect(e, tag + ":%s:raw" % how, what + ": raw metadata differs", native=nat_field("raw_metadata", lambda cz: cz.bytes_of(raw).hex()))
        else:
            ctx.expect(isinstance(rm, Adt) and rm.vname == "None", tag + ":%s:raw-default" % how, what + ": default raw metadata is not None",
                       native=nat_field("raw_metadata", lambda cz: None))


def rewrite(ctx, same_data, api):
    """A key written twice: lookups and listings return what the SECOND writer attached."""
    scn = ctx.new_scn(api=api)
    I = scn.s.I
    D = scn.blob("D")
    E = D if same_data else scn.blob("E")
    T1, T2 = scn.sym("time1", 128), scn.sym("time2", 128)
    tag = "C11:%s:rewrite:%s" % (api, "same" if same_data else "other")
    sris = []
    for (blob, T, meta, raw) in ((D, T1, METAS[1], b"one"), (E, T2, METAS[3], b"two!")):
        r = scn.open("k", {"time": T, "metadata": JsonValue(meta), "raw_metadata": SBytes.of(raw)})
        if not expect_ok(ctx, r, tag + ":open", "open"):
            return
        if not expect_ok(ctx, scn.hwrite_all(r.handle, scn.whole(blob)), tag + ":write", "write"):
            return
        r = scn.commit(r.handle)
        if not expect_ok(ctx, r, tag + ":commit", "commit"):
            return
        sris.append(r.value)
    out = scn.metadata("k")
    step = last(scn)
    if not expect_ok(ctx, out, tag + ":lookup", "lookup"):
        return
    lst = scn.list()
    if not expect_ok(ctx, lst, tag + ":list", "list"):
        return
    cands = []
    if out.value.vname == "Some":
        cands.append(("metadata", out.value.fields[0]))
    oks = [x.fields[0] for x in lst.value.items if x.vname == "Ok"]
    if len(oks) == 1:
        cands.append(("list", oks[0]))
    ctx.expect(len(cands) == 2, tag + ":count", "after two writes to one key, lookup/listing do not each yield one entry",
               native={"kind": "not", "of": {"kind": "value_is", "step": step, "value": {"meta": None}}})
    for how, m in cands:
        t = field(m, "time")
        nat_t = (lambda cz: {"kind": "meta_field", "step": step, "field": "time", "value": str(cz.ev(T2))}) if how == "metadata" else None
        ctx.expect((t if is_sym(t) else z3.BitVecVal(t, 128)) == T2, tag + ":%s:time" % how, "%s returns the time of the first write" % how, native=nat_t)
        md = field(m, "metadata")
        ctx.expect(isinstance(md, JsonValue) and md.py == METAS[3], tag + ":%s:metadata" % how, "%s returns the metadata of the first write" % how,
                   native={"kind": "meta_field", "step": step, "field": "metadata", "value": METAS[3]} if how == "metadata" else None)
        rm = field(m, "raw_metadata")
        good = isinstance(rm, Adt) and rm.vname == "Some" and sb.content_eq(rm.fields[0].sb, SBytes.of(b"two!"), ctx.w) is True
        ctx.expect(good, tag + ":%s:raw" % how, "%s returns the raw metadata of the first write" % how,
                   native={"kind": "meta_field", "step": step, "field": "raw_metadata", "value": b"two!".hex()} if how == "metadata" else None)
        ctx.expect(values_eq(I, field(m, "integrity"), sris[1]), tag + ":%s:integrity" % how, "%s returns the integrity of the first write" % how,
                   native=(lambda cz: {"kind": "meta_field", "step": step, "field": "integrity", "value": cz.bytes_of(sris[1].display(I)).decode()}) if how == "metadata" else None)


def tasks(tier, flavours):
    out = []
    keys = HOSTILE_KEYS[:4] if tier == "quick" else HOSTILE_KEYS
    for fl in flavours:
        api = "sync" if fl == "sync" else "async"
        combos = [(True, "opaque", "blob", True), (False, False, False, False), (True, 1, "bytes", False), (False, "opaque", False, True)]
        if tier != "quick":
            combos += [(True, 2, False, True), (True, 3, "blob", False), (False, 1, "bytes", True), (True, False, False, False)]
        for k, key in enumerate(keys):
            wt, wm, wr, dec = combos[k % len(combos)]
            out.append(dict(module="C11", family="roundtrip", flavour=fl, params=dict(key=key, with_time=wt, with_meta=wm, with_raw=wr, declared=dec, entry="streamed", api=api)))
        for wt, wm, wr, dec in combos:
            out.append(dict(module="C11", family="roundtrip", flavour=fl, params=dict(key="a", with_time=wt, with_meta=wm, with_raw=wr, declared=dec, entry="streamed", api=api)))
        out.append(dict(module="C11", family="roundtrip", flavour=fl, params=dict(key="a", with_time=False, with_meta=False, with_raw=False, declared=False, entry="oneshot", api=api)))
        for wi in ("single", "multi", "multi-sha1"):
            out.append(dict(module="C11", family="roundtrip", flavour=fl, params=dict(key="a", with_time=True, with_meta=1, with_raw=False, declared=(wi == "multi"), entry="streamed", api=api, with_integrity=wi)))
        for same in (True, False):
            out.append(dict(module="C11", family="rewrite", flavour=fl, params=dict(same_data=same, api=api)))
    return out
