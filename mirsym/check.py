"""Property-check framework: families of symbolic scenarios, expectations decided by the solver,
counterexamples concretised and replayed natively, evidence and known-findings handling."""
import hashlib
import json
import multiprocessing
import os
import re
import sys
import time
import traceback
import z3

from .world import World, explore, Stats
from .values import *
from .scn import Scn, Concretiser, Unreplayable, gen_bytes, ROOT, CACHE
from .replay import run_native, render_outcome, render_value, obs_equal, build_runner
from .engine import load
from . import sbytes as sb
from .sbytes import SBytes

VERIF = os.path.dirname(os.path.dirname(os.path.abspath(__file__)))
KNOWN_FILE = os.path.join(VERIF, "known_findings.jsonl")


class Candidate:
    """A solver counterexample to one expectation."""

    def __init__(self, family, sig, desc, scenario, native_spec, decisions, model_values, pred_kinds=None):
        self.pred_kinds = pred_kinds
        self.family = family
        self.sig = sig
        self.desc = desc
        self.scenario = scenario
        self.native_spec = native_spec
        self.decisions = decisions
        self.model_values = model_values
        self.status = None      # confirmed | mismatch | unreplayable
        self.native = None

    def to_json(self):
        return {"family": self.family, "signature": self.sig, "what": self.desc, "scenario": self.scenario,
                "expectation": self.native_spec, "decisions": self.decisions, "model_values": self.model_values,
                "status": self.status, "native": self.native}


class PathCtx:
    """Handed to a family function for one symbolic path."""

    def __init__(self, world, task):
        self.w = world
        self.task = task
        self.scn = None
        self.candidates = []
        self.obligations = 0
        self.discharged = 0
        self.samples = []

    def new_scn(self, flavour=None, api=None, env=None, cache_dir=None):
        self.scn = Scn(self.w, flavour or self.task["flavour"], api=api or self.task.get("api"), env=env, cache_dir=cache_dir)
        if self.task.get("reflink_supported") is not None:
            self.scn.env.reflink_supported = self.task["reflink_supported"]
        return self.scn

    def note(self, text):
        self.samples.append(text)

    def expect(self, cond, sig, desc, native=None, upto=None, fatal=False, shim=None):
        """The property demands `cond` here.  Decided by the solver under the path condition."""
        self.obligations += 1
        w = self.w
        if cond is True:
            self.discharged += 1
            return True
        if cond is not False and w.known(cond):
            self.discharged += 1
            return True
        # counterexample: a model of pc /\ not cond
        neg = [] if cond is False else [z3.Not(cond)]
        m = self._small_model(neg)
        if m is None:
            raise Inconclusive("no model for a failed expectation (%s)" % sig)
        scenario, mv = None, {}
        try:
            cz = Concretiser(self.scn, m)
            scenario = cz.scenario(upto)
            if shim is not None:
                scenario["shim"] = shim
                scenario["steps"] = scenario["steps"][:shim["step"] + 1]
            for k, t in list(w.sym_inputs.items())[:40]:
                try:
                    mv[k] = str(m.eval(t, model_completion=True))
                except Exception:
                    pass
            spec = native(cz) if callable(native) else native
        except Unreplayable as e:
            spec = {"kind": "unreplayable", "why": str(e)}
        kinds = [(st.outcome.kind if st.op != "par" else [[x.outcome.kind for x in lg] for lg in st.params["procs"]])
                 for st in self.scn.log[:upto]] if self.scn is not None else None
        if shim is not None and kinds is not None:
            kinds = kinds[:shim["step"]] + ["crash"]
        c = Candidate(self.task["family"], sig, desc, scenario, spec, [d[2] + "=" + str(d[0]) for d in w.decisions][-40:], mv, kinds)
        self.candidates.append(c)
        # continue the path on the side where the expectation holds, if there is one
        if cond is False or fatal:
            raise PathEnd()
        w.assume(cond)
        if not w.feasible():
            raise PathEnd()
        return False

    def _small_model(self, extra):
        """Prefer counterexamples with small data so that they can be replayed."""
        w = self.w
        lens = [t for k, t in w.sym_inputs.items() if k.startswith("len_")]
        for bound in (64, 4096, 3 << 20, None):
            cons = list(extra)
            if bound is not None:
                cons += [z3.ULE(t, z3.BitVecVal(bound, 64)) for t in lens]
            m = w.model(cons)
            if m is not None:
                return m
        return None


class PathEnd(Exception):
    pass


# ---------------------------------------------------------------------------
# native evaluation of expectations

def native_holds(spec, obs, tree, scenario):
    """Does the expectation hold in the native run?  True / False / None (cannot tell)."""
    k = spec.get("kind")
    if k == "unreplayable":
        return None
    if k == "all":
        rs = [native_holds(s, obs, tree, scenario) for s in spec["of"]]
        if any(r is False for r in rs):
            return False
        if any(r is None for r in rs):
            return None
        return True
    if k == "any":
        rs = [native_holds(s, obs, tree, scenario) for s in spec["of"]]
        if any(r is True for r in rs):
            return True
        if any(r is None for r in rs):
            return None
        return False
    if k == "not":
        r = native_holds(spec["of"], obs, tree, scenario)
        return None if r is None else (not r)
    if k in ("outcome_in", "obs_eq", "bytes_eq", "value_is", "err_variant", "meta_field", "u64_eq"):
        i = spec["step"]
        if i >= len(obs):
            return None
        o = obs[i]
        if o.get("outcome") == "unsupported":
            return None
        if k == "outcome_in":
            return o.get("outcome") in spec["allowed"]
        if k == "obs_eq":
            return obs_equal(spec["pred"], o)
        if k == "err_variant":
            return o.get("outcome") == "err" and o.get("err", {}).get("variant") in spec["variants"]
        if k == "bytes_eq":
            if o.get("outcome") != "ok" or "bytes" not in o.get("value", {}):
                return False
            b = o["value"]["bytes"]
            return b["len"] == spec["len"] and b["sha256"] == spec["sha256"]
        if k == "u64_eq":
            return o.get("outcome") == "ok" and o.get("value", {}).get("u64") == spec["value"]
        if k == "value_is":
            return o.get("outcome") == "ok" and obs_equal({"outcome": "ok", "value": spec["value"]}, o)
        if k == "meta_field":
            if o.get("outcome") != "ok":
                return False
            m = o.get("value", {}).get("meta")
            if m is None:
                return False
            return m.get(spec["field"]) == spec["value"]
    if k in ("cross_flavour", "cross_flavour_tree"):
        other = spec["other"]
        obs2, tree2 = run_native(other, other.get("flavour", "sync"))
        if k == "cross_flavour_tree":
            if tree is None or tree2 is None:
                return None
            def norm(t):
                return {p: (e.get("type"),) + ((e.get("len"), e.get("sha256")) if "index-v5" not in p else ())
                        for p, e in t.items() if not p.startswith("cache/tmp/")}
            return norm(tree) == norm(tree2)
        i = spec["step"]
        if i >= len(obs) or i >= len(obs2):
            return None
        def normo(o):
            o = json.loads(json.dumps(o))
            o.pop("step", None)
            o.pop("message", None)
            if o.get("outcome") == "err":
                e = o.get("err", {})
                o["err"] = {"variant": e.get("variant")}
            v = o.get("value")
            if isinstance(v, dict):
                v.pop("handle", None)
                if isinstance(v.get("meta"), dict) and not str(v["meta"].get("time", "")).isdigit():
                    v["meta"].pop("time", None)
            return o
        a, b = normo(obs[i]), normo(obs2[i])
        for o in (a, b):
            v = o.get("value")
            if isinstance(v, dict) and isinstance(v.get("meta"), dict):
                t = v["meta"].get("time")
                if t and len(str(t)) == 13:
                    v["meta"].pop("time")       # wall-clock defaults differ between two runs
            if isinstance(v, dict) and isinstance(v.get("list"), list):
                for it in v["list"]:
                    if "ok" in it and len(str(it["ok"].get("time", ""))) == 13:
                        it["ok"].pop("time")
        return a == b
    if k == "list_agrees":
        # native: the listing holds exactly one entry per key that lookup finds, equal to the lookup's
        lo = obs[spec["list_step"]] if spec["list_step"] < len(obs) else None
        if not lo or lo.get("outcome") != "ok" or "list" not in lo.get("value", {}):
            return False
        items = lo["value"]["list"]
        if any("err" in it for it in items):
            return False
        listed = {}
        for it in items:
            listed.setdefault(it["ok"]["key"], []).append(it["ok"])
        for key, st in spec["lookups"].items():
            o = obs[st] if st < len(obs) else None
            if not o or o.get("outcome") != "ok":
                return None
            m = o["value"].get("meta")
            got = listed.get(key, [])
            if m is None:
                if got:
                    return False
            else:
                if len(got) != 1 or got[0] != m:
                    return False
        if spec.get("exact_keys") is not None and set(listed) != set(spec["exact_keys"]):
            return False
        return True
    if k == "concat_eq":
        total = b""
        for i in spec["steps"]:
            o = obs[i] if i < len(obs) else None
            if not o or o.get("outcome") != "ok":
                return None
            b = o["value"].get("bytes")
            if b is None or "hex" not in b:
                return None
            total += bytes.fromhex(b["hex"])
        return len(total) == spec["len"] and hashlib.sha256(total).hexdigest() == spec["sha256"]
    if k == "sri_eq_steps":
        a, b = obs[spec["a"]], obs[spec["b"]]
        try:
            return a["value"]["sri"] == b["value"]["sri"]
        except Exception:
            return False
    if k == "tree_file":
        # file at relative path has given content (len + sha256) / is absent / is symlink
        if tree is None:
            return None
        ent = tree.get(spec["path"])
        if spec.get("absent"):
            return ent is None
        if ent is None:
            return False
        if spec.get("type") == "dir":
            return ent.get("type") == "dir"
        if "type" in spec and ent.get("type") != spec["type"]:
            return False
        if "len" in spec and ent.get("len") != spec["len"]:
            return False
        if "sha256" in spec and ent.get("sha256") != spec["sha256"]:
            return False
        return True
    if k == "tree_content_valid":
        # every regular file under cache/content-v2/<algo>/aa/bb/rest hashes to its address
        if tree is None:
            return None
        for path, ent in tree.items():
            m = re.fullmatch(r"cache/content-v2/(sha1|sha256|sha384|sha512)/([0-9a-f]{2})/([0-9a-f]{2})/([0-9a-f]+)", path)
            if not m or ent.get("type") != "file":
                continue
            if "hex" not in ent and m.group(1) != "sha256":
                return None
            data = bytes.fromhex(ent["hex"]) if "hex" in ent else None
            want = m.group(2) + m.group(3) + m.group(4)
            got = hashlib.new(m.group(1), data).hexdigest() if data is not None else ent["sha256"]
            if got != want:
                return False
        return True
    if k == "tree_no_tmp":
        if tree is None:
            return None
        return not any(p.startswith("cache/tmp/") for p in tree)
    if k == "tree_eq_outside_untouched":
        # natively only the scenario root is observable: everything outside cache/ must be what the scenario put there
        return None
    if k == "par_outcome_in":
        ob = obs[spec["step"]] if spec["step"] < len(obs) else None
        if ob is None or ob.get("diverged"):
            return None
        try:
            o = ob["value"]["par"][spec["proc"]][-1]
        except (KeyError, IndexError):
            return None
        return o.get("outcome") in spec["allowed"]
    if k == "serial_equiv":
        # the concurrent run (obs) against native runs of the same operations one after the other
        ps = spec["par_step"]
        if ps >= len(obs) or obs[ps].get("diverged") or obs[ps].get("outcome") != "ok":
            return None
        try:
            conc_ops = [_norm_obs(lg[-1]) for lg in obs[ps]["value"]["par"]]
        except (KeyError, IndexError):
            return None
        conc_after = [_norm_obs(o) for o in obs[ps + 1:]]
        n_ops, first = spec["n_ops"], spec["first_op_step"]
        for od in spec["orders"]:
            sobs, _ = run_native(od["scenario"], od["scenario"].get("flavour", scenario.get("flavour", "sync")))
            if len(sobs) < first + n_ops:
                return None
            seq_ops = [None] * n_ops
            for pos, i in enumerate(od["order"]):
                seq_ops[i] = _norm_obs(sobs[first + pos])
            seq_after = [_norm_obs(o) for o in sobs[first + n_ops:]]
            if seq_ops == conc_ops and seq_after == conc_after:
                return True
        return False
    if k == "outside_only":
        # everything under the scenario root that is not the cache must be one of the allowed paths, unchanged
        if tree is None:
            return None
        allowed = spec["allowed"]
        for path, ent in tree.items():
            if path == "cache" or path.startswith("cache/") or path == "systmp":
                continue
            if path in allowed:
                want = allowed[path]
                if want is None:
                    continue
                if ent.get("type") != "file":
                    return False
                if "len" in want and ent.get("len") != want["len"]:
                    return False
                if "sha256" in want and ent.get("sha256") != want["sha256"]:
                    return False
                continue
            if ent.get("type") == "dir" and any(a.startswith(path + "/") for a in allowed):
                continue
            return False
        for path, want in allowed.items():
            if want is not None and path not in tree:
                return False
        return True
    if k == "step_leaves_tree_unchanged":
        # a read-only call: the directory tree after step k equals the tree right before it (two native runs of
        # prefixes of the scenario; temp names are random, so anything under cache/tmp/ is compared by count)
        kk = spec["step"]
        sc_a = dict(scenario, steps=scenario["steps"][:kk])
        sc_b = dict(scenario, steps=scenario["steps"][:kk + 1])
        sc_a.pop("shim", None)
        sc_b.pop("shim", None)
        _, ta = run_native(sc_a, scenario.get("flavour", "sync"))
        _, tb = run_native(sc_b, scenario.get("flavour", "sync"))
        if ta is None or tb is None:
            return None

        def norm(t):
            return {("cache/tmp/*" if p_.startswith("cache/tmp/") else p_): v for p_, v in _tree_norm(t).items()}
        return norm(ta) == norm(tb)
    if k == "tree_no_systmp":
        # nothing may sit in the process's system temporary directory ($ROOT/systmp natively)
        if tree is None:
            return None
        return not any(p.startswith("systmp/") for p in tree)
    if k == "tree_eq_cache_empty":
        if tree is None:
            return None
        return not any(p.startswith("cache/") for p in tree)
    if k == "tree_eq":
        if tree is None:
            return None
        return _tree_norm(tree) == spec["tree"]
    raise ValueError("unknown native spec %r" % (spec,))


def _norm_obs(o):
    """An observation without step numbers and wall-clock times, listings in a canonical order."""
    if isinstance(o, dict):
        d = {k: _norm_obs(v) for k, v in o.items() if k not in ("step", "time", "message", "stderr")}
        if "list" in d and isinstance(d["list"], list):
            d["list"] = sorted(d["list"], key=lambda j: json.dumps(j, sort_keys=True))
        if "err" in d and isinstance(d["err"], dict):
            d["err"] = {k: v for k, v in d["err"].items() if k in ("variant", "io_kind", "wanted", "actual")}
        return d
    if isinstance(o, list):
        return [_norm_obs(x) for x in o]
    return o


def _tree_norm(tree):
    out = {}
    for p, e in tree.items():
        if e.get("type") == "file":
            out[p] = ["file", e["len"], e["sha256"]]
        elif e.get("type") == "symlink":
            out[p] = ["symlink", e.get("target")]
        else:
            out[p] = ["dir"]
    return out


def nat_bytes(cz, step, data):
    b = cz.bytes_of(data)
    return {"kind": "bytes_eq", "step": step, "len": len(b), "sha256": hashlib.sha256(b).hexdigest()}


# ---------------------------------------------------------------------------
# running tasks

def _run_task(task):
    """Explore one family instance (in a worker process).  Returns a result dict."""
    t0 = time.time()
    mod = __import__("mirsym.props." + task["module"], fromlist=["x"])
    fn = getattr(mod, task["family"])
    stats = Stats()
    out = {"task": task, "paths": 0, "obligations": 0, "discharged": 0, "candidates": [], "inconclusive": [],
           "samples": [], "functions": set(), "models": set(), "outcomes": {}, "witnesses_ok": 0, "witness_mismatch": [], "witness_skipped": 0}
    budget = task.get("time_budget", 600)

    witness_every = task.get("witness_every", 40)
    counter = {"n": 0}

    def run_one(w):
        ctx = PathCtx(w, task)
        completed = False
        try:
            fn(ctx, **task.get("params", {}))
            completed = True
        except PathEnd:
            pass
        except Inconclusive as e:
            out["inconclusive"].append(str(e))
        finally:
            # anti-vacuity / model validation: replay a sample of the explored paths natively and compare
            # every step's outcome with what the symbolic execution predicted on that path
            if completed and not ctx.candidates and ctx.scn is not None and ctx.scn.log and counter["n"] % witness_every == 0:
                try:
                    verdict = witness_replay(ctx)
                    if verdict is True:
                        out["witnesses_ok"] += 1
                    elif verdict is not None:
                        out["witness_mismatch"].append(verdict)
                except Exception as e:
                    out["witness_skipped"] += 1
            counter["n"] += 1
            out["obligations"] += ctx.obligations
            out["discharged"] += ctx.discharged
            out["candidates"].extend(ctx.candidates)
            if ctx.scn is not None:
                out["functions"].update(ctx.scn.s.I.functions_entered)
                out["models"].update(ctx.scn.s.I.models_used)
                if len(out["samples"]) < 3 and ctx.scn.log:
                    try:
                        out["samples"].append({"ops": [st.op + ":" + st.outcome.kind for st in ctx.scn.log][:16],
                                               "decisions": [d[2] + "=" + str(d[0]) for d in w.decisions][:24],
                                               "notes": ctx.samples[:4]})
                    except Exception:
                        pass
        return None

    try:
        explore(run_one, max_paths=task.get("max_paths", 20000), stats=stats, seed=task.get("seed", 0), time_budget=budget)
    except Inconclusive as e:
        out["inconclusive"].append(str(e))
    except Exception:
        out["inconclusive"].append("engine error: " + traceback.format_exc()[-1500:])
    out["paths"] = stats.paths
    out["queries"] = stats.queries
    out["solver_s"] = stats.solver_s
    out["steps"] = stats.steps
    out["branches"] = stats.branches
    # replay candidates (dedupe by signature: replay up to 2 per signature)
    by_sig = {}
    for c in out["candidates"]:
        by_sig.setdefault(c.sig, []).append(c)
    kept = []
    for sig, cs in by_sig.items():
        tried = 0
        for c in cs:
            if tried >= 2:
                break
            tried += 1
            replay_candidate(c, task)
            if c.status == "confirmed":
                break
        best = next((c for c in cs if c.status == "confirmed"), cs[0])
        best.count = len(cs)
        kept.append(best)
    out["candidates"] = [dict(c.to_json(), count=getattr(c, "count", 1)) for c in kept]
    out["functions"] = sorted(out["functions"])
    out["models"] = sorted(out["models"])
    out["wall_s"] = time.time() - t0
    return out


def witness_replay(ctx):
    """Concretise this (passing) path with a model of its path condition, run it natively and compare
    outcome by outcome.  True = agrees; dict = disagreement; None = not replayable."""
    w = ctx.w
    m = ctx._small_model([])
    if m is None:
        return None
    try:
        cz = Concretiser(ctx.scn, m)
        scenario = cz.scenario()
        preds = [render_outcome(st.outcome, cz) for st in ctx.scn.log]
    except Unreplayable:
        return None
    for st in ctx.scn.log:
        if st.op == "hwrite_cancel" or (st.op == "quiesce" and getattr(ctx.scn.env, "spawn_mode", "eager") != "eager"):
            return None      # timing-dependent natively
        if "reflink" in st.op and ctx.scn.env.reflink_supported:
            return None      # this sandbox's filesystem cannot reflink
    if any(k.startswith("rd") for k in w.sym_inputs):
        return None          # the path contains short reads, which a healthy local filesystem does not produce
    obs, tree = run_native(scenario, scenario.get("flavour", ctx.task["flavour"]))
    if scenario.get("shim") and _shared_hash_dirs(tree):
        return None          # crash/fault positions count directory creations; see _shared_hash_dirs
    for i, (p, o) in enumerate(zip(preds, obs)):
        if o.get("outcome") == "unsupported":
            return None
        if o.get("diverged"):
            # the gate shim could not enforce the schedule on the native processes (timing under load): this run says
            # nothing about the model either way -- counted as not replayable, never as agreement
            raise RuntimeError("schedule replay diverged")
        if p["outcome"] == "crash" or o.get("outcome") == "crash":
            if p["outcome"] != o.get("outcome"):
                return _wm({"step": i, "op": scenario["steps"][i], "model": p, "native": o, "shim": scenario.get("shim")}, scenario)
            continue
        if not obs_equal(p, o, loose_io_kind=True):
            return _wm({"step": i, "op": scenario["steps"][i], "model": p, "native": o, "shim": scenario.get("shim")}, scenario)
    if len(obs) < len(preds):
        return _wm({"step": len(obs), "model": "more steps", "native": "ended early"}, scenario)
    return True


def _shared_hash_dirs(tree):
    """The model assumes distinct digests fall into distinct first-level directories (a stated
    assumption: the layout only affects how many mkdir calls a store makes).  A concrete replay whose
    hashes happen to share one is outside it; positions counted in filesystem effects do not transfer."""
    seen = {}
    for p in (tree or {}):
        m = re.match(r"cache/(content-v2/[^/]+|index-v5)/([^/]+)/([^/]+)", p)
        if m:
            seen.setdefault((m.group(1), m.group(2)), set()).add(m.group(3))
    return any(len(v) > 1 for v in seen.values())


def _wm(d, scenario):
    """Keep the scenario of a disagreeing witness path for diagnosis (build/ is scratch, not evidence)."""
    try:
        dd = os.path.join(VERIF, "build", "witness_mismatch")
        os.makedirs(dd, exist_ok=True)
        h = hashlib.sha256(json.dumps(scenario, sort_keys=True, default=str).encode()).hexdigest()[:12]
        with open(os.path.join(dd, h + ".json"), "w") as fh:
            json.dump({"scenario": scenario, "verdict": d}, fh, indent=1, default=str)
        d["file"] = os.path.join(dd, h + ".json")
    except Exception:
        pass
    return d


def replay_candidate(c, task):
    if c.scenario is None or c.native_spec is None or c.native_spec.get("kind") == "unreplayable":
        c.status = "unreplayable"
        c.native = (c.native_spec or {}).get("why")
        return
    try:
        obs, tree = run_native(c.scenario, c.scenario.get("flavour", task["flavour"]))
    except Exception as e:
        c.status = "unreplayable"
        c.native = "runner failed: %s" % e
        return
    holds = native_holds(c.native_spec, obs, tree, c.scenario)
    c.native = {"observations": obs[-6:], "expectation_holds": holds}
    # the native run must have followed the model's trajectory (same outcome class at every step);
    # otherwise a failed expectation says nothing about the model's counterexample
    diverged = None
    if c.pred_kinds:
        for i, k in enumerate(c.pred_kinds):
            if i >= len(obs):
                diverged = (i, k, "missing")
                break
            ok_ = obs[i].get("outcome")
            if ok_ == "unsupported":
                continue
            if obs[i].get("diverged"):
                diverged = (i, "schedule", obs[i]["diverged"])
                break
            if isinstance(k, list):
                # a concurrent section: the outcome class of every member operation
                try:
                    got = [[o.get("outcome") for o in lg] for lg in obs[i]["value"]["par"]]
                except (KeyError, TypeError):
                    got = None
                if got != k:
                    diverged = (i, k, got)
                    break
                continue
            if ok_ != k and not (k in ("panic", "abort", "hang") and ok_ in ("panic", "abort", "hang")):
                diverged = (i, k, ok_)
                break
    c.native["diverged_at"] = diverged
    if diverged is not None and holds is False:
        # it may still be the very step the expectation is about (e.g. model says panic, native too) -- that is equal kinds;
        # a different kind means model and implementation disagree: a model mismatch, never a violation
        c.status = "mismatch"
    elif holds is False:
        c.status = "confirmed"
    elif holds is True:
        c.status = "mismatch"
    else:
        c.status = "unreplayable"


def load_known():
    out = []
    if os.path.exists(KNOWN_FILE):
        for line in open(KNOWN_FILE):
            line = line.strip()
            if line and not line.startswith("#"):
                out.append(json.loads(line))
    return out


def _sweep_stale_scratch(max_age_s=3 * 3600):
    """Replay roots are removed by the run that made them; a run that was killed leaves its own behind.
    Remove such leftovers (our prefix only, older than a few hours) so that scratch space does not fill up."""
    import shutil
    import tempfile
    base = tempfile.gettempdir()
    now = time.time()
    try:
        names = os.listdir(base)
    except OSError:
        return
    for n in names:
        if n.startswith("cacache-replay-"):
            p = os.path.join(base, n)
            try:
                if now - os.path.getmtime(p) > max_age_s:
                    shutil.rmtree(p, ignore_errors=True)
            except OSError:
                pass


def run_check(prop_id, tasks, tier, seed, level_note, assumptions, bounds, t_start=None, extra_coverage=None):
    """Run all tasks of a property check; write evidence; print verdict lines; return exit code."""
    t_start = t_start or time.time()
    os.makedirs(os.path.join(VERIF, "evidence"), exist_ok=True)
    _sweep_stale_scratch()
    # make sure dumps and runners are built once, before forking workers
    flavours = sorted({t["flavour"] for t in tasks})
    for fl in flavours:
        load(fl)
        build_runner(fl)
    for t in tasks:
        t["seed"] = seed
    nproc = int(os.environ.get("VERIF_JOBS", "14"))
    if len(tasks) == 1 or nproc <= 1:
        results = [_run_task(t) for t in tasks]
    else:
        with multiprocessing.Pool(min(nproc, len(tasks))) as pool:
            results = pool.map(_run_task, tasks, chunksize=1)
    known = [k for k in load_known() if k.get("property") == prop_id]
    violations, known_hits, mismatches, unreplayable, inconclusive = [], [], [], [], []
    for r in results:
        inconclusive.extend((r["task"]["family"], x) for x in r["inconclusive"])
        for c in r["candidates"]:
            if c["status"] == "confirmed":
                k = match_known(c, known)
                if k:
                    known_hits.append((k, c))
                else:
                    violations.append(c)
            elif c["status"] == "mismatch":
                mismatches.append(c)
            else:
                unreplayable.append(c)
    paths = sum(r["paths"] for r in results)
    obligations = sum(r["obligations"] for r in results)
    discharged = sum(r["discharged"] for r in results)
    functions = sorted(set().union(*[set(r["functions"]) for r in results])) if results else []
    models = sorted(set().union(*[set(r["models"]) for r in results])) if results else []
    samples = []
    for r in results:
        for s in r["samples"][:1]:
            samples.append({"family": r["task"]["family"], "flavour": r["task"]["flavour"], "params": r["task"].get("params", {}), **s})
    replay_paths = []
    for c in violations:
        d = os.path.join(VERIF, "replays", prop_id)
        os.makedirs(d, exist_ok=True)
        h = hashlib.sha256(json.dumps(c, sort_keys=True, default=str).encode()).hexdigest()[:16]
        p = os.path.join(d, h + ".json")
        with open(p, "w") as fh:
            json.dump(c, fh, indent=1, default=str)
        replay_paths.append(p)
    ev = {
        "property_id": prop_id,
        "tier": tier,
        "seed": seed,
        "level": "model_checking",
        "coverage": {
            "states": max(1, sum(r["steps"] for r in results)),
            "transitions": max(1, sum(r["branches"] for r in results) + paths),
            "traces_validated_against_impl": sum(r.get("witnesses_ok", 0) for r in results) + sum(1 for r in results for c in r["candidates"] if c["status"] == "confirmed"),
            "witness_paths_replayed_natively": sum(r.get("witnesses_ok", 0) for r in results),
            "witness_paths_not_replayable": sum(r.get("witness_skipped", 0) for r in results),
            "samples": samples[:12] or [{"note": "no paths"}],
            "paths": paths,
            "obligations": obligations,
            "discharged": discharged,
            "queries": sum(r.get("queries", 0) for r in results),
            "solver_s": round(sum(r.get("solver_s", 0) for r in results), 2),
            "families": [{"family": r["task"]["family"], "flavour": r["task"]["flavour"], "params": r["task"].get("params", {}),
                          "paths": r["paths"], "obligations": r["obligations"], "discharged": r["discharged"],
                          "wall_s": round(r["wall_s"], 1)} for r in results],
            "functions_encoded": functions,
            "models_used": models,
            "bounds": bounds,
            "mir_digest": load(flavours[0])[0].digest if flavours else None,
            "known_findings_reported": [k["id"] for k, _ in known_hits],
            "model_mismatches": len(mismatches),
            "unreplayable_counterexamples": len(unreplayable),
            "inconclusive": [list(x) for x in inconclusive[:10]],
            "exhaustive": False,
            "rule": "every feasible MIR path of each scenario family within the stated bounds; states = MIR blocks "
                    "executed symbolically, transitions = solver-decided branch points + completed paths",
        },
        "assumptions": assumptions,
        "wall_s": round(time.time() - t_start, 2),
        "violations": len(violations),
    }
    if extra_coverage:
        ev["coverage"].update(extra_coverage)
    with open(os.path.join(VERIF, "evidence", prop_id + ".json"), "w") as fh:
        json.dump(ev, fh, indent=1, default=str)
    seen = set()
    for k, c in known_hits:
        if k["id"] not in seen:
            seen.add(k["id"])
            print("KNOWN-FINDING: property=%s %s [%s]" % (prop_id, k.get("what", ""), k["id"]))
    print("%s tier=%s paths=%d obligations=%d discharged=%d queries=%d solver=%.1fs wall=%.1fs" % (
        prop_id, tier, paths, obligations, discharged, ev["coverage"]["queries"], ev["coverage"]["solver_s"], ev["wall_s"]))
    if violations:
        for c, p in zip(violations, replay_paths):
            print("VIOLATION property=%s replay=%s" % (prop_id, p))
            print("  what: %s [%s]" % (c["what"], c["signature"]))
        return 1
    wm = [(r["task"]["family"], x) for r in results for x in r.get("witness_mismatch", [])]
    if wm and not violations:
        for f, x in wm[:5]:
            print("MODEL-MISMATCH on a witness path (not a violation) %s: %s" % (f, json.dumps(x, default=str)[:600]))
    if mismatches or inconclusive or unreplayable or wm:
        for c in mismatches[:5]:
            print("MODEL-MISMATCH (not a violation): %s [%s]" % (c["what"], c["signature"]))
        for c in unreplayable[:5]:
            print("UNREPLAYABLE counterexample (not reported as violation): %s [%s] %s" % (c["what"], c["signature"], c.get("native")))
        for f, x in inconclusive[:5]:
            print("INCONCLUSIVE %s: %s" % (f, x[:400]))
        return 2
    return 0


def match_known(c, known):
    for k in known:
        if k.get("status") != "known":
            continue
        if re.search(k["signature"], c["signature"]):
            return k
    return None
