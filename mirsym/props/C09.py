"""C09 -- removals remove exactly what they name and nothing else."""
import z3
from .common import *
from ..models.fs import comp_key

BOUNDS = {"histories": "keys a and b sharing one content, c with distinct content, d never written; then one removal operation "
                       "(remove / remove_hash / remove_fully / clear) aimed at any of them; optionally a second write of the key before removal "
                       "(several records in the bucket) and explicit symbolic timestamps",
          "shards": "the two contents in different shard directories, and (remove_hash / remove_fully) in the same first-level shard directory",
          "frame": "the difference between the filesystem before and after the operation is compared path by path",
          "sequences": "two or three removals / re-writes in a row on keys sharing one content (family seq)",
          "outside": "longer histories; concurrent use during clear/remove_fully (excluded by the property)"}


def snapshot(scn):
    """{path repr: (kind, content key)} of the whole VFS under the scenario root."""
    out = {}
    for p, ino in scn.tree().items():
        path = b"/".join(sb.concretise_atoms(SBytes.of(x)).key().__repr__().encode() if not isinstance(x, bytes) else x for x in p)
        if ino.kind == "file":
            out[path] = ("file", sb.concretise_atoms(ino.sb).key(), ino)
        elif ino.kind == "symlink":
            out[path] = ("symlink", ino.target.key(), ino)
        else:
            out[path] = ("dir", None, ino)
    return out


def removal(ctx, op, target, rewrite, explicit_time, api, shard=False):
    scn = ctx.new_scn(api=api)
    I = scn.s.I
    D, E = scn.blob("D"), scn.blob("E")
    scn.distinct(D, E)
    if shard:
        # the two contents live in the same first-level shard directory (content-v2/sha256/xx/)
        scn.share_shard(D, E)
    tag = "C09:%s:%s:%s%s%s%s" % (api, op, target, ":rewritten" if rewrite else "", ":times" if explicit_time else "", ":same-shard" if shard else "")
    content = {"a": D, "b": D, "c": E}
    sris = {}

    def put(k, blob, i):
        if explicit_time:
            r = scn.open(k, {"time": scn.sym("t_%s%d" % (k, i), 128)})
            if r.kind != "ok":
                return None
            if scn.hwrite_all(r.handle, scn.whole(blob)).kind != "ok":
                return None
            r = scn.commit(r.handle)
        else:
            r = scn.write(k, scn.whole(blob))
        return r.value if r.kind == "ok" else None
    for k in ("a", "b", "c"):
        s_ = put(k, content[k], 0)
        if s_ is None:
            return
        sris[k] = s_
    if rewrite and target in content:
        # a second record for the target key (other data first, then back): the bucket holds several records
        if put(target, E if content[target] is D else D, 1) is None:
            return
        s_ = put(target, content[target], 2)
        if s_ is None:
            return
        sris[target] = s_
    before = snapshot(scn)
    if op == "remove":
        out = scn.remove(target)
    elif op == "remove_hash":
        if target == "d":
            Z = scn.blob("Z")
            scn.distinct(Z, D)
            scn.distinct(Z, E)
            out = scn.remove_hash(scn.sri_of(scn.whole(Z)))
        else:
            out = scn.remove_hash(sris[target])
    elif op == "remove_fully":
        out = scn.remove_fully(target)
    else:
        out = scn.clear()
    ostep = last(scn)
    if not expect_no_panic(ctx, out, tag, op):
        return
    after = snapshot(scn)
    removed = sorted(set(before) - set(after))
    added = sorted(set(after) - set(before))
    changed = sorted(p for p in set(before) & set(after) if before[p][:2] != after[p][:2])
    what = "%s(%s)" % (op, target)
    # expected effects
    exists_target = target in content
    if op in ("remove", "remove_fully") or (op == "remove_hash" and exists_target) or op == "clear":
        if op != "remove_fully" or exists_target:
            expect_ok(ctx, out, tag + ":ok", what)
    lookups = {}
    for k in ("a", "b", "c", "d"):
        lk = scn.metadata(k)
        lookups[k] = (lk, last(scn))
        if not expect_ok(ctx, lk, tag + ":lookup", "lookup of %s after %s" % (k, what)):
            return
    reads = {}
    for k in ("a", "b", "c"):
        rr = scn.read_hash(sris[k])
        reads[k] = (rr, last(scn))
    # which keys / contents must be gone
    gone_keys, gone_content = set(), set()
    if op == "remove":
        gone_keys = {target} & set(content)
    elif op == "remove_hash" and exists_target:
        gone_content = {k for k in content if content[k] is content[target]}
    elif op == "remove_fully" and exists_target:
        gone_keys = {target}
        gone_content = {k for k in content if content[k] is content[target]}
    elif op == "clear":
        gone_keys = set(content)
        gone_content = set(content)
    for k in ("a", "b", "c", "d"):
        lk, st = lookups[k]
        present = lk.value.vname == "Some"
        if k in gone_keys or k == "d":
            ctx.expect(not present, tag + ":still-found:" + ("target" if k == target else "other"), "%s: key %s is still found" % (what, k),
                       native={"kind": "value_is", "step": st, "value": {"meta": None}})
        else:
            ctx.expect(present, tag + ":lost-key:" + ("target" if k == target else "other"), "%s: key %s is no longer found although it was not removed" % (what, k),
                       native={"kind": "not", "of": {"kind": "value_is", "step": st, "value": {"meta": None}}})
    for k in ("a", "b", "c"):
        rr, st = reads[k]
        if k in gone_content:
            ctx.expect(rr.kind == "err", tag + ":content-still-there", "%s: the content of %s is still retrievable by address" % (what, k),
                       native={"kind": "outcome_in", "step": st, "allowed": ["err"]})
        else:
            if rr.kind != "ok":
                ctx.expect(False, tag + ":content-lost:" + k, "%s: the content of %s is no longer retrievable by address" % (what, k), native=ok_spec(st))
            else:
                e = sb.content_eq(as_sbytes(rr.value), scn.whole(content[k]), ctx.w)
                ctx.expect(e, tag + ":content-changed", "%s: content of %s changed" % (what, k), native=lambda cz, k=k, st=st: nat_bytes(cz, st, scn.whole(content[k])))
    # frame condition on the filesystem itself
    if op == "remove" or (op == "remove_fully" and False):
        added_files = [p for p in added if after[p][0] != "dir"]
        ok = not removed and len(changed) + len(added_files) <= 1 and all(b"index-v5" in p for p in changed + added)
        ctx.expect(ok, tag + ":frame", "%s touched more than one index bucket: removed=%r added=%r changed=%r" % (what, removed[:3], added[:3], changed[:3]),
                   native={"kind": "unreplayable", "why": "frame condition is evaluated on the model filesystem"})
    if op == "remove_hash":
        ok = not added and not changed and len(removed) <= 1 and all(b"content-v2" in p for p in removed)
        ctx.expect(ok, tag + ":frame", "%s touched more than the one content file: removed=%r added=%r changed=%r" % (what, removed[:3], added[:3], changed[:3]),
                   native={"kind": "unreplayable", "why": "frame condition is evaluated on the model filesystem"})
    if op == "remove_fully":
        ok = not added and not changed and len(removed) <= 2
        ctx.expect(ok, tag + ":frame", "%s touched more than the key's bucket and content: removed=%r added=%r changed=%r" % (what, removed[:3], added[:3], changed[:3]),
                   native={"kind": "unreplayable", "why": "frame condition is evaluated on the model filesystem"})
    if op == "clear":
        left = [p for p in after if p.startswith(b"cache/")]
        ctx.expect(not left, tag + ":not-empty", "clear left files behind: %r" % left[:3], native={"kind": "tree_eq_cache_empty"})
        # still usable
        r = scn.write("a", scn.whole(D))
        if expect_ok(ctx, r, tag + ":reuse", "write after clear"):
            expect_bytes(ctx, scn.read("a"), scn.whole(D), tag + ":reuse-read", "read after clear and re-write")


def removal_seq(ctx, seq, api):
    """Two removals in a row (keys a and b share one content D; c holds E): a removal that reports success has
    removed what it names, whatever was removed before; nothing else is affected."""
    scn = ctx.new_scn(api=api)
    D, E = scn.blob("D"), scn.blob("E")
    scn.distinct(D, E)
    tag = "C09:%s:seq:%s" % (api, "+".join(seq))
    sris = {}
    for k, blob in (("a", D), ("b", D), ("c", E)):
        r = scn.write(k, scn.whole(blob))
        if r.kind != "ok":
            return
        sris[k] = r.value
    live = {"a", "b", "c"}
    for op in seq:
        kind, k = op.split(":")
        if kind == "remove":
            out = scn.remove(k)
        elif kind == "remove_fully":
            out = scn.remove_fully(k)
        elif kind == "remove_hash":
            out = scn.remove_hash(sris[k])
        elif kind == "write":
            out = scn.write(k, scn.whole(D if k in ("a", "b") else E))
        if not expect_no_panic(ctx, out, tag + ":" + op, op):
            return
        if kind == "write" and out.kind == "ok":
            live.add(k)
        if kind in ("remove", "remove_fully"):
            if out.kind == "ok":
                live.discard(k)
                lk = scn.metadata(k)
                if expect_ok(ctx, lk, tag + ":lookup", "lookup after " + op):
                    ctx.expect(lk.value.vname == "None", tag + ":" + kind + ":still-found", "%s reported success but key %s is still found" % (op, k),
                               native={"kind": "value_is", "step": last(scn), "value": {"meta": None}})
    # keys that no successful removal named are still there
    for k in sorted(live):
        lk = scn.metadata(k)
        if expect_ok(ctx, lk, tag + ":lookup-live", "lookup of " + k):
            ctx.expect(lk.value.vname == "Some", tag + ":lost-key", "after %s key %s is no longer found although no successful removal named it" % ("+".join(seq), k),
                       native={"kind": "not", "of": {"kind": "value_is", "step": last(scn), "value": {"meta": None}}})
    expect_bytes(ctx, scn.read("c"), scn.whole(E), tag + ":c-data", "reading the unrelated entry c")


SEQS = [("remove_fully:a", "remove_fully:b"), ("remove_hash:a", "remove_fully:a"), ("remove_hash:a", "remove_fully:b"),
        ("remove:a", "write:a", "remove:a"), ("remove:a", "remove:a"), ("remove:a", "write:a", "remove_fully:a"), ("remove_fully:a", "write:a", "remove:a")]


def tasks(tier, flavours):
    out = []
    for fl in flavours:
        api = "sync" if fl == "sync" else "async"
        for op in ("remove", "remove_hash", "remove_fully", "clear"):
            targets = ["a", "c", "d"] if op != "clear" else ["-"]
            for t in targets:
                for rewrite in (False, True):
                    if rewrite and (t in ("d", "-") or op == "clear"):
                        continue
                    for et in (False, True):
                        if et and (tier == "quick" and (fl != "sync" and op not in ("remove", "remove_fully"))):
                            continue
                        out.append(dict(module="C09", family="removal", flavour=fl, params=dict(op=op, target=t, rewrite=rewrite, explicit_time=et, api=api)))
            if op == "remove":
                for seq in SEQS:
                    out.append(dict(module="C09", family="removal_seq", flavour=fl, params=dict(seq=list(seq), api=api)))
            if op in ("remove_hash", "remove_fully"):
                for t in ("a", "c"):
                    out.append(dict(module="C09", family="removal", flavour=fl, params=dict(op=op, target=t, rewrite=False, explicit_time=False, api=api, shard=True)))
    return out
