"""Small-step symbolic interpreter for cacache's MIR."""
import re
import z3

from .parse import (Place, Func, INT_WIDTH, parse_callee_path, path_segments, strip_generics,
                    split_top, match_bracket)
from .values import *
from .values import _Moved
from . import sbytes as sb
from .sbytes import SBytes


# ---------------------------------------------------------------------------
# byte containers

class BufObj:
    """Vec<u8> / String / PathBuf / OsString / [u8; N] -- an owned, mutable byte container."""
    __slots__ = ("kind", "sb")

    def __init__(self, kind, content):
        self.kind = kind
        self.sb = SBytes.of(content)

    def __repr__(self):
        return "%s(%r)" % (self.kind, self.sb)


class BytesRef:
    """&[u8] / &str / &Path / &OsStr: immutable snapshot of bytes."""
    __slots__ = ("sb", "kind")

    def __init__(self, content, kind="bytes"):
        self.sb = SBytes.of(content)
        self.kind = kind

    def __repr__(self):
        return "&%r" % (self.sb,)


class ByteLoc:
    """Place of one byte inside a byte container (`bytes[i]`)."""

    def __init__(self, obj, i):
        self.obj, self.i = obj, i

    def get(self):
        pos = 0
        for seg in self.obj.sb.segs:
            if isinstance(seg, bytes):
                if self.i < pos + len(seg):
                    return seg[self.i - pos]
                pos += len(seg)
            elif type(seg).__name__ == "SymByte":
                if self.i == pos:
                    return seg.bv
                pos += 1
            else:
                break
        raise Inconclusive("byte %d of symbolic bytes" % self.i)

    def set(self, val):
        from .sbytes import SBytes as _S, slice_ as _slice, SymByte as _SB
        s = self.obj.sb
        one = bytes([val]) if isinstance(val, int) else _S((_SB(val),))
        self.obj.sb = _slice(s, 0, self.i, None) + one + _slice(s, self.i + 1, s.length(), None)


class MutBytesRef:
    """&mut [u8] into a BufObj (window [start, end))."""
    __slots__ = ("buf", "start", "end")

    def __init__(self, buf, start, end):
        self.buf, self.start, self.end = buf, start, end


class FatLoc(Loc):
    """The pointee of a fat pointer value (BytesRef / SliceRef / MutBytesRef)."""
    __slots__ = ("v",)

    def __init__(self, v):
        self.v = v

    def get(self):
        return self.v

    def set(self, v):
        raise Inconclusive("store through fat pointer")


EXTERNAL_ROOTS = {"std", "core", "alloc", "tokio", "async_std", "futures", "futures_util", "futures_core",
                  "serde_json", "serde", "ssri", "tempfile", "memmap2", "walkdir", "reflink_copy", "hex",
                  "libc", "either", "digest", "sha1", "sha2", "miette", "thiserror", "tokio_stream",
                  "futures_channel", "futures_io", "async_attributes"}

STD_ENUMS = {
    "Option": ["None", "Some"],
    "Result": ["Ok", "Err"],
    "ControlFlow": ["Continue", "Break"],
    "Poll": ["Ready", "Pending"],
    "Either": ["Left", "Right"],
    "Algorithm": ["Sha512", "Sha384", "Sha256", "Sha1", "Xxh3"],
    "Ordering": ["Less", "Equal", "Greater"],
    "Cow": ["Borrowed", "Owned"],
}
# Ordering has discriminants -1,0,1
ORDERING_DISCR = {"Less": -1, "Equal": 0, "Greater": 1}

STD_STRUCTS = {
    "Range": ["start", "end"],
    "RangeFrom": ["start"],
    "RangeTo": ["end"],
    "RangeInclusive": ["start", "end", "exhausted"],
    "RangeToInclusive": ["end"],
    "Pin": ["pointer"],
}


def mk_option(v=None, none=False):
    if none:
        return Adt("Option", 0, "None")
    return Adt("Option", 1, "Some", [v])


def NONE():
    return Adt("Option", 0, "None")


def SOME(v):
    return Adt("Option", 1, "Some", [v])


def OK(v):
    return Adt("Result", 0, "Ok", [v])


def ERR(e):
    return Adt("Result", 1, "Err", [e])


def READY(v):
    return Adt("Poll", 0, "Ready", [v])


def PENDING():
    return Adt("Poll", 1, "Pending")


def is_variant(v, name):
    return isinstance(v, Adt) and v.vname == name


class LocalIndex:
    """Resolution of callee paths to functions of the dump."""

    def __init__(self, prog, srcinfo):
        self.prog = prog
        self.src = srcinfo
        self.free = []        # [(segs, Func)]
        self.methods = {}     # (type_name, trait_name or None, method_segs) -> [(module, Func)]
        self.closures = {}    # closure span head '{closure@...}' -> Func
        self.local_types = set()
        self.trait_impls = {}  # type_name -> set(trait names)
        for k in list(srcinfo.structs) + list(srcinfo.enums):
            self.local_types.add(k[-1])
        for f in prog.funcs.values():
            self._index_fn(f)
        self.cache = {}

    def _index_fn(self, f):
        # closures: first param type names the closure span
        m = re.search(r"::\{closure#\d+\}$", f.name)
        if m and f.params:
            ty = f.params[0][1]
            mm = re.search(r"\{closure@[^}]*\}", ty)
            if mm:
                self.closures[mm.group(0)] = f
        if f.impl_at:
            file, line, col = f.impl_at
            info = self.src.impls.get((file, line, col)) or self.src.impls.get((file, line))
            if info is None:
                # try any impl on that line
                for k, v in self.src.impls.items():
                    if k[0] == file and k[1] == line:
                        info = v
                        break
            if info is None:
                return
            trait, tyname, mod, impl_ty = info
            if trait in ("Error", "Diagnostic"):
                # thiserror / miette derives generate several impls at one span
                last = f.segs[-1] if not f.segs[-1].startswith("{") else f.segs[-2]
                trait = {"from": "From", "fmt": "Display", "source": "Error"}.get(last, trait)
            # method path after the LAST impl segment
            raw_segs = list(f.segs)
            idx = max(i for i, s in enumerate(raw_segs) if s.startswith("<impl at"))
            # nested impl (derive(Deserialize) visitor impls): only index the outermost-simple ones
            n_impl = sum(1 for s in raw_segs if s.startswith("<impl at"))
            rest = tuple(raw_segs[idx + 1:])
            if n_impl == 1:
                self.methods.setdefault((tyname, trait, rest), []).append((mod, f, impl_ty))
                self.trait_impls.setdefault(tyname, set()).add(trait)
            return
        self.free.append((f.segs, f))

    def find_method(self, tyname_segs, trait, rest, full_ty=None):
        """tyname_segs: segments of the type path as printed (e.g. ('put','Writer'))."""
        tyname = tyname_segs[-1]
        cands = self.methods.get((tyname, trait, tuple(rest)), [])
        if len(cands) > 1 and full_ty is not None:
            c2 = [c for c in cands if type_match(c[2], full_ty)]
            if c2:
                cands = c2
        if len(cands) > 1 and len(tyname_segs) > 1:
            pre = tuple(tyname_segs[:-1])
            c2 = [c for c in cands if c[0][-len(pre):] == pre]
            if c2:
                cands = c2
            if len(cands) > 1:
                c3 = [c for c in cands if tuple(c[0]) == pre]
                if c3:
                    cands = c3
        if len(cands) == 1:
            return cands[0][1]
        if len(cands) > 1:
            raise Inconclusive("ambiguous method %s::%s" % ("::".join(tyname_segs), "::".join(rest)))
        return None

    def find_free(self, segs):
        if segs[0] in EXTERNAL_ROOTS:
            return None
        hits = []
        for fs, f in self.free:
            n = min(len(fs), len(segs))
            if fs[-n:] == segs[-n:]:
                hits.append((fs, f))
        if not hits:
            return None
        exact = [h for h in hits if h[0] == segs]
        if exact:
            return exact[0][1]
        if len(hits) == 1:
            return hits[0][1]
        # prefer the candidate with the longest common suffix
        raise Inconclusive("ambiguous free function %s -> %s" % ("::".join(segs), [h[1].name for h in hits]))


def closure_upvar_count(f):
    """Number of captured places a closure body reads (max field index of _1 / *_1, plus one)."""
    n = getattr(f, "_upvars", None)
    if n is not None:
        return n
    n = 0

    def visit_place(pl):
        nonlocal n
        if pl.local != 1:
            return
        proj = pl.proj
        if proj and proj[0][0] == "deref":
            proj = proj[1:]
        if proj and proj[0][0] == "field":
            n = max(n, proj[0][1] + 1)

    def visit_operand(op):
        if op[0] in ("copy", "move"):
            visit_place(op[1])

    def visit_rvalue(rv):
        k = rv[0]
        if k == "use":
            visit_operand(rv[1])
        elif k in ("ref", "rawptr"):
            visit_place(rv[2])
        elif k in ("discriminant", "len"):
            visit_place(rv[1])
        elif k == "binop":
            visit_operand(rv[2]); visit_operand(rv[3])
        elif k == "unop":
            visit_operand(rv[2])
        elif k == "cast":
            visit_operand(rv[1])
        elif k == "aggregate":
            for x in rv[2]:
                visit_operand(x[1] if isinstance(x, tuple) and len(x) == 2 and isinstance(x[0], str) and x[0] not in ("copy", "move", "const") else x)
        elif k == "repeat":
            visit_operand(rv[1])
    for b in f.blocks.values():
        for st in b.stmts:
            if st[0] == "assign":
                visit_place(st[1])
                visit_rvalue(st[2])
        t = b.term
        if t[0] == "call":
            for a in t[3]:
                visit_operand(a)
        elif t[0] == "drop":
            visit_place(t[1])
        elif t[0] == "switch":
            visit_operand(t[1])
    f._upvars = n
    return n


def type_match(impl_ty, call_ty):
    """Does the impl's self type (source text, may mention generic params) match the concrete type
    printed at the call site?  Compared on last path segments, recursively over generic args."""
    from .parse import split_top as _st
    def norm(t):
        t = t.strip()
        while t.startswith("&"):
            t = t[1:].strip()
            if t.startswith("mut "):
                t = t[4:].strip()
        return t
    a, b = norm(impl_ty), norm(call_ty)
    if re.fullmatch(r"[A-Z][A-Za-z0-9]?", a):
        return True      # generic parameter
    def split(t):
        i = t.find("<")
        if i < 0 or t.startswith("("):
            return t, []
        j = match_bracket(t, i)
        return t[:i], [x.strip() for x in _st(t[i + 1:j])]
    ha, ga = split(a)
    hb, gb = split(b)
    sa, sb_ = ha.split("::"), hb.split("::")
    n = min(len(sa), len(sb_))
    if sa[-n:] != sb_[-n:]:
        return False
    if len(ga) != len(gb):
        return not ga or not gb
    return all(type_match(x, y) for x, y in zip(ga, gb))


class Frame:
    __slots__ = ("func", "locals")

    def __init__(self, func):
        self.func = func
        self.locals = {}


def base_type_name(ty):
    """'&mut std::path::PathBuf' -> ('std','path','PathBuf')"""
    t = ty.strip()
    while True:
        if t.startswith("&mut "):
            t = t[5:].strip()
        elif t.startswith("&"):
            t = t[1:].strip()
            if t.startswith("'"):
                t = t.split(" ", 1)[1] if " " in t else t
        elif t.startswith("*const ") or t.startswith("*mut "):
            t = t.split(" ", 1)[1]
        else:
            break
    if t.startswith("dyn "):
        t = t[4:]
    return path_segments(t) if t and t[0] not in "[({" else (t,)


class Interp:
    def __init__(self, prog, srcinfo, world, models, env):
        self.prog = prog
        self.src = srcinfo
        self.w = world
        self.models = models          # ModelTable
        self.env = env                # environment (VFS, clock, ...)
        if not hasattr(prog, "_index"):
            prog._index = LocalIndex(prog, srcinfo)
        self.idx = prog._index
        self.depth = 0
        self.functions_entered = set()
        self.models_used = set()
        self.const_cache = {}

    # ------------------------------------------------------------------ types
    def place_type(self, f, place):
        ty = f.locals.get(place.local)
        for p in place.proj:
            if ty is None:
                return None
            k = p[0]
            if k == "field":
                ty = p[2]
            elif k == "deref":
                t = ty.strip()
                if t.startswith("&mut "):
                    ty = t[5:]
                elif t.startswith("&"):
                    ty = re.sub(r"^&('[a-z_]+ )?", "", t)
                elif t.startswith("Box<") or t.startswith("std::boxed::Box<"):
                    ty = t[t.index("<") + 1:-1]
                elif t.startswith("*const ") or t.startswith("*mut "):
                    ty = t.split(" ", 1)[1]
                else:
                    ty = None
            elif k in ("index", "constindex"):
                t = ty.strip()
                if t.startswith("["):
                    inner = t[1:-1]
                    k2 = inner.rfind(";")
                    ty = inner[:k2].strip() if k2 >= 0 else inner.strip()
                else:
                    ty = None
            elif k == "downcast":
                pass
            elif k == "subslice":
                pass
        return ty

    def operand_type(self, f, op):
        if op[0] == "const":
            c = op[1]
            if c[0] == "int":
                return c[2]
            if c[0] == "bool":
                return "bool"
            if c[0] == "char":
                return "char"
            return None
        return self.place_type(f, op[1])

    # ------------------------------------------------------------------ places
    def resolve(self, frame, place):
        loc = CellLoc(frame.locals[place.local])
        variant = None
        for p in place.proj:
            k = p[0]
            if k == "deref":
                v = loc.get()
                if isinstance(v, Ref):
                    loc = v.loc
                elif isinstance(v, (BytesRef, SliceRef, MutBytesRef)):
                    loc = FatLoc(v)
                elif isinstance(v, BoxV):
                    loc = CellLoc(v.cell)
                elif isinstance(v, _Moved):
                    raise Inconclusive("deref of moved value in %s at %r" % (frame.func.name, place))
                else:
                    # model objects handed out by reference (e.g. &File from NamedTempFile::as_file)
                    loc = ValLoc(v)
                variant = None
            elif k == "field":
                v = loc.get()
                if isinstance(v, Coroutine):
                    view = CoroVariantView(v, variant) if variant is not None else CoroUpvarView(v)
                    loc = FieldLoc(view, p[1])
                elif isinstance(v, (Agg, Adt)):
                    loc = FieldLoc(v, p[1])
                elif hasattr(v, "getf"):
                    loc = FieldLoc(v, p[1])
                else:
                    raise Inconclusive("field %d of %r in %s" % (p[1], type(v).__name__, frame.func.name))
                variant = None
            elif k == "downcast":
                v = loc.get()
                if isinstance(v, Coroutine):
                    m = re.fullmatch(r"variant#(\d+)", p[1])
                    variant = int(m.group(1))
                else:
                    variant = None
            elif k == "index":
                v = loc.get()
                i = frame.locals[p[1]].v
                loc = self._index_loc(v, i, frame)
            elif k == "constindex":
                v = loc.get()
                n = self._seq_len(v)
                i = (n - p[1]) if p[3] else p[1]
                loc = self._index_loc(v, i, frame)
            else:
                raise Inconclusive("projection %r" % (p,))
        return loc

    def _seq_len(self, v):
        if isinstance(v, (BufObj, BytesRef)):
            ln = v.sb.length()
            if is_sym(ln):
                raise Inconclusive("length of symbolic bytes in a constant index")
            return ln
        if isinstance(v, SliceRef):
            return len(v)
        if isinstance(v, VecObj):
            return len(v.items)
        if isinstance(v, Agg):
            return len(v.fields)
        raise Inconclusive("length of %r" % type(v).__name__)

    def _index_loc(self, v, i, frame):
        if is_sym(i):
            raise Inconclusive("symbolic index into list in %s" % frame.func.name)
        if isinstance(v, SliceRef):
            if not (0 <= i < len(v)):
                raise RustPanic("index out of bounds: the len is %d but the index is %d" % (len(v), i))
            return ElemLoc(v.items, v.start + i)
        if isinstance(v, VecObj):
            if not (0 <= i < len(v.items)):
                raise RustPanic("index out of bounds: the len is %d but the index is %d" % (len(v.items), i))
            return ElemLoc(v.items, i)
        if isinstance(v, Agg) and v.kind == "array":
            if not (0 <= i < len(v.fields)):
                raise RustPanic("index out of bounds")
            return ElemLoc(v.fields, i)
        if isinstance(v, (BufObj, BytesRef)):
            ln = v.sb.length()
            if is_sym(ln):
                raise Inconclusive("index into bytes of symbolic length in %s" % frame.func.name)
            if not (0 <= i < ln):
                raise RustPanic("index out of bounds: the len is %d but the index is %d" % (ln, i))
            return ByteLoc(v, i)
        raise Inconclusive("index into %r" % type(v).__name__)

    # ------------------------------------------------------------------ operands
    def copy_value(self, v):
        if isinstance(v, Agg):
            return Agg(v.kind, v.ty, [self.copy_value(x) for x in v.fields], v.names)
        if isinstance(v, Adt):
            return Adt(v.ty, v.variant, v.vname, [self.copy_value(x) for x in v.fields])
        return v

    def eval_operand(self, frame, op):
        k = op[0]
        if k == "const":
            return self.eval_const(frame, op[1])
        loc = self.resolve(frame, op[1])
        v = loc.get()
        if isinstance(v, _Moved):
            # reading a moved-from / uninitialised place: only legal for ZST-like dead reads
            return v
        if k == "copy":
            return self.copy_value(v)
        # move
        if not isinstance(loc, FatLoc):
            try:
                loc.set(MOVED)
            except Inconclusive:
                pass
        return v

    def eval_const(self, frame, c):
        k = c[0]
        if k == "int":
            return c[1]
        if k == "bool":
            return c[1]
        if k == "unit":
            return UNIT
        if k == "str":
            return BytesRef(c[1], "str")
        if k == "bytes":
            return Ref(ValLoc(BufObj("array", c[1])))
        if k == "char":
            return c[1]
        if k == "zst":
            ty = c[1]
            if ty.startswith("{closure@"):
                return Agg("closure", ty, [])
            if ty.startswith("fn(") or "{" in ty:
                # fn item type: 'fn(..) -> .. {path}'
                m = re.search(r"\{(.*)\}$", ty)
                if m:
                    return FnItem(parse_callee_path(m.group(1)))
            return Agg("struct", ty, [])
        if k == "fn":
            return FnItem(parse_callee_path(c[1]))
        if k == "alloc" and c[1] in getattr(self.prog, "alloc_static", {}):
            # a `static` item: one value per process, initialised by its body on first use
            sname = self.prog.alloc_static[c[1]]
            if not hasattr(self, "statics"):
                self.statics = {}
            if sname not in self.statics:
                body = None
                for cname, b in self.prog.consts.items():
                    if path_segments(cname)[-1] == sname.split("::")[-1]:
                        body = b
                        break
                if body is None:
                    raise Inconclusive("static %s has no body in the dump" % sname)
                v = self.eval_const(frame, body[1]) if isinstance(body, tuple) else self.run_fn(body, [])
                self.statics[sname] = Cell(v)
            return Ref(CellLoc(self.statics[sname]), True)
        if k == "alloc":
            data = self.prog.allocs.get(c[1])
            if data is None:
                raise Inconclusive("alloc %s" % c[1])
            if c[2].strip().startswith("&str"):
                return BytesRef(data, "str")
            return Ref(ValLoc(BufObj("array", data)))
        if k == "named":
            return self.eval_named_const(frame, c[1])
        raise Inconclusive("const %r" % (c,))

    def eval_named_const(self, frame, name):
        name = name.strip()
        segs = path_segments(name) if not name.startswith("<") else None
        # promoted / named const bodies in the dump
        if segs:
            for cname, body in self.prog.consts.items():
                cs = path_segments(cname)
                n = min(len(cs), len(segs))
                if cs[-n:] == segs[-n:] and (len(cs) == len(segs) or cs[-1] == segs[-1]):
                    # require full suffix relation
                    if cs[-n:] != segs[-n:]:
                        continue
                    if cname in self.const_cache:
                        return self.const_cache[cname]
                    if isinstance(body, tuple):
                        v = self.eval_const(frame, body[1])
                    else:
                        v = self.run_fn(body, [])
                    # promoted constants are 'static: hand out stable references
                    self.const_cache[cname] = v
                    return v
        # promoted bodies of methods: the reference names the impl by its type (`Writer::close::promoted[0]`,
        # `<T as Trait>::m::promoted[0]`), the body is printed under `<impl at file:line>`
        plain = re.sub(r"::<[^<>]*(?:<[^<>]*>[^<>]*)*>", "", name)      # drop generic argument lists (`f::<P, K>::promoted[0]`)
        m_ = re.search(r"([A-Za-z_][A-Za-z0-9_]*|\{closure#\d+\})::(promoted\[\d+\])\s*$", plain)
        if m_:
            meth, prom = m_.group(1), m_.group(2)
            outer = None
            if meth.startswith("{closure"):
                mo = re.search(r"([A-Za-z_][A-Za-z0-9_]*)::\{closure#\d+\}::promoted", plain)
                outer = mo.group(1) if mo else None
            cands = []
            for cname, body in self.prog.consts.items():
                cplain = re.sub(r"::<[^<>]*(?:<[^<>]*>[^<>]*)*>", "", cname)
                cs = path_segments(cplain)
                if len(cs) >= 2 and cs[-1] == prom and cs[-2] == meth and (outer is None or (len(cs) >= 3 and cs[-3] == outer)):
                    cands.append((cname, body, cs))
            if segs is None or len(cands) <= 1:
                pass
            segs = path_segments(plain) if not plain.startswith("<") else segs
            if segs and len(cands) > 1:
                # same module prefix (segments before the type / impl segment)
                pre = [x for x in segs[:-3]]
                cands = [c for c in cands if [x for x in c[2][:-3]][:len(pre)] == pre] or cands
            if len(cands) > 1:
                # the impl's self type, via the source scan
                want = segs[-3] if segs and len(segs) >= 3 else None
                if want is None:
                    mm = re.match(r"<\s*([^>]*?)\s+as\s", name)
                    want = path_segments(mm.group(1))[-1] if mm else None
                narrowed = []
                for c in cands:
                    impl = next((x for x in c[2] if isinstance(x, str) and x.startswith("<impl at")), None)
                    ty = self.src.impl_self_type(impl) if (impl and hasattr(self.src, "impl_self_type")) else None
                    if ty is not None and want is not None and ty.split("::")[-1].split("<")[0] == want:
                        narrowed.append(c)
                cands = narrowed or cands
            if len(cands) == 1:
                cname, body, _cs = cands[0]
                if cname in self.const_cache:
                    return self.const_cache[cname]
                v = self.eval_const(frame, body[1]) if isinstance(body, tuple) else self.run_fn(body, [])
                self.const_cache[cname] = v
                return v
        # unit structs / enum unit variants of known enums
        if segs:
            last = segs[-1]
            if len(segs) >= 2:
                en = segs[-2]
                vs = self.enum_variants((en,))
                if vs and last in vs:
                    return Adt(en, vs.index(last), last)
            for en, vs in STD_ENUMS.items():
                if last in vs and en in ("Option",) and last == "None":
                    return NONE()
            if last == "RangeFull":
                return Agg("struct", "RangeFull", [])
            if last in ("UNIX_EPOCH",):
                return self.models.named_const(self, "UNIX_EPOCH")
            v = self.models.named_const(self, "::".join(segs))
            if v is not None:
                return v
        raise Inconclusive("named constant %s" % name)

    def enum_variants(self, tysegs):
        name = tysegs[-1]
        if name == "ssri::Error" or (name == "Error" and len(tysegs) >= 2 and tysegs[-2] == "ssri"):
            return STD_ENUMS["ssri::Error"]
        if name in STD_ENUMS and (len(tysegs) == 1 or tysegs[0] in EXTERNAL_ROOTS or True):
            # local enums shadowing std names would be listed in srcinfo; prefer local
            try:
                hit = self.src.enum_variants(tysegs)
            except KeyError:
                hit = None
            if hit:
                return hit[1]
            return STD_ENUMS[name]
        try:
            hit = self.src.enum_variants(tysegs)
        except KeyError as e:
            raise Inconclusive(str(e))
        return hit[1] if hit else None

    # ------------------------------------------------------------------ running
    def run_fn(self, f, args):
        w = self.w
        self.depth += 1
        if self.depth > 200:
            raise Hang("call depth")
        self.functions_entered.add(f.name)
        frame = Frame(f)
        for l in f.locals:
            frame.locals[l] = Cell()
        if len(args) != len(f.params):
            raise Inconclusive("arity mismatch calling %s: %d vs %d" % (f.name, len(args), len(f.params)))
        for (l, _), a in zip(f.params, args):
            frame.locals[l].v = a
        bb = 0
        pending = None
        try:
            while True:
                blk = f.blocks[bb]
                w.tick(len(blk.stmts) + 1)
                for st in blk.stmts:
                    self.exec_stmt(frame, st)
                t = blk.term
                k = t[0]
                if k == "goto":
                    bb = t[1]
                elif k == "return":
                    return frame.locals[0].v if not isinstance(frame.locals[0].v, _Moved) else UNIT
                elif k == "switch":
                    bb = self.exec_switch(frame, t)
                elif k == "call":
                    try:
                        bb = self.exec_call(frame, t)
                    except RustPanic as e:
                        pending, bb = self._unwind(t[5], e, blk)
                elif k == "drop":
                    try:
                        loc = self.resolve(frame, t[1])
                        v = loc.get()
                        if not isinstance(v, _Moved):
                            self.drop_value(v)
                            if not isinstance(loc, FatLoc):
                                loc.set(MOVED)
                        bb = t[2]
                    except RustPanic as e:
                        pending, bb = self._unwind(t[3], e, blk)
                elif k == "assert":
                    c = self.eval_operand(frame, t[1])
                    ok = self.w.branch(c if t[2] else self._not(c), "assert")
                    if ok:
                        bb = t[4]
                    else:
                        try:
                            raise RustPanic("assertion failed: %s" % t[3].strip('"'), site=f.name)
                        except RustPanic as e:
                            pending, bb = self._unwind(t[5], e, blk)
                elif k == "resume":
                    raise pending if pending is not None else RustPanic("resume without panic")
                elif k == "unreachable":
                    raise Inconclusive("reached `unreachable` in %s bb%d" % (f.name, bb))
                elif k == "terminate":
                    raise RustAbort("terminate in %s" % f.name)
                else:
                    raise Inconclusive("terminator %r" % (k,))
        finally:
            self.depth -= 1

    def _unwind(self, unwind, exc, blk):
        if exc.site is None:
            exc.site = "?"
        if unwind is None or unwind[0] == "continue":
            raise exc
        if unwind[0] == "goto":
            return exc, unwind[1]
        if unwind[0] == "terminate":
            raise RustAbort("panic in a no-unwind context: %s" % exc.msg)
        raise exc

    def _not(self, c):
        if is_sym(c):
            return z3.Not(c)
        return not c

    # ------------------------------------------------------------------ statements
    def exec_stmt(self, frame, st):
        k = st[0]
        if k == "nop":
            return
        if k == "assign":
            v = self.eval_rvalue(frame, st[2], st[1])
            self.resolve(frame, st[1]).set(v)
            return
        if k == "setdiscr":
            loc = self.resolve(frame, st[1])
            v = loc.get()
            if isinstance(v, Coroutine):
                v.state = st[2]
            elif isinstance(v, Adt):
                vs = self.enum_variants(path_segments(v.ty))
                v.variant = st[2]
                if vs:
                    v.vname = vs[st[2]]
            else:
                # enum being built in place: create a shell from the declared type
                ty = self.place_type(frame.func, st[1])
                segs = base_type_name(ty) if ty else None
                vs = self.enum_variants(segs) if segs else None
                if not vs:
                    raise Inconclusive("SetDiscriminant on %r" % ty)
                loc.set(Adt(segs[-1], st[2], vs[st[2]]))
            return
        raise Inconclusive("statement %r" % (k,))

    def eval_rvalue(self, frame, rv, dest):
        k = rv[0]
        f = frame.func
        if k == "use":
            return self.eval_operand(frame, rv[1])
        if k == "ref" or k == "rawptr":
            loc = self.resolve(frame, rv[2])
            if isinstance(loc, FatLoc):
                return loc.v
            return Ref(loc, rv[1])
        if k == "discriminant":
            v = self.resolve(frame, rv[1]).get()
            if isinstance(v, Adt):
                if v.ty == "Ordering":
                    return ORDERING_DISCR[v.vname]
                return v.variant
            if isinstance(v, Coroutine):
                return v.state
            if hasattr(v, "discriminant"):
                return v.discriminant()
            raise Inconclusive("discriminant of %r in %s" % (v, f.name))
        if k == "len":
            v = self.resolve(frame, rv[1]).get()
            return self.seq_length(v)
        if k == "unop":
            a = self.eval_operand(frame, rv[2])
            if rv[1] == "Not":
                if isinstance(a, bool):
                    return not a
                if is_sym(a):
                    return z3.Not(a) if z3.is_bool(a) else ~a
                ty = self.operand_type(f, rv[2])
                return (~a) & mask(INT_WIDTH[ty])
            if rv[1] == "Neg":
                ty = self.operand_type(f, rv[2])
                if is_sym(a):
                    return -a
                return (-a)
            if rv[1] == "PtrMetadata":
                return self.seq_length(a)
            raise Inconclusive("unop " + rv[1])
        if k == "binop":
            return self.eval_binop(frame, rv)
        if k == "cast":
            return self.eval_cast(frame, rv, dest)
        if k == "aggregate":
            return self.eval_aggregate(frame, rv, dest)
        if k == "repeat":
            ty = self.place_type(f, dest) or ""
            n = rv[2]
            nval = self.eval_count(frame, n)
            v = self.eval_operand(frame, rv[1])
            if ty.startswith("[u8;"):
                if is_sym(v):
                    raise Inconclusive("symbolic repeat")
                return BufObj("array", SBytes((sb.Fill(v, nval),)) if nval > 64 else bytes([v]) * nval)
            return Agg("array", ty, [self.copy_value(v) for _ in range(nval)])
        raise Inconclusive("rvalue %r" % (k,))

    def eval_count(self, frame, n):
        n = n.strip()
        m = re.fullmatch(r"(\d+)(_usize)?", n)
        if m:
            return int(m.group(1))
        if n.startswith("const "):
            n = n[6:]
        v = self.eval_named_const(frame, n)
        return v

    def seq_length(self, v):
        if isinstance(v, Ref):
            v = v.get()
        if isinstance(v, (BytesRef, BufObj)):
            return v.sb.length()
        if isinstance(v, MutBytesRef):
            return self._sub(v.end, v.start)
        if isinstance(v, SliceRef):
            return len(v)
        if isinstance(v, VecObj):
            return len(v.items)
        if isinstance(v, Agg):
            return len(v.fields)
        raise Inconclusive("length of %r" % (type(v).__name__,))

    def _sub(self, a, b):
        if is_sym(a) or is_sym(b):
            return z3.simplify(bv(a, 64) - bv(b, 64))
        return a - b

    # -- arithmetic
    def eval_binop(self, frame, rv):
        f = frame.func
        op = rv[1]
        a = self.eval_operand(frame, rv[2])
        b = self.eval_operand(frame, rv[3])
        ty = self.operand_type(f, rv[2]) or self.operand_type(f, rv[3])
        return self.binop(op, a, b, ty)

    def binop(self, op, a, b, ty):
        if isinstance(a, Adt) and isinstance(b, Adt):
            # fieldless enum compared by discriminant
            a, b = a.variant, b.variant
            ty = ty if ty in INT_WIDTH else "isize"
        if ty == "bool" or isinstance(a, bool) or isinstance(b, bool) or (is_sym(a) and z3.is_bool(a)):
            if op == "Eq":
                return self._beq(a, b)
            if op == "Ne":
                return self._bnot(self._beq(a, b))
            if op == "BitAnd":
                return self._band(a, b)
            if op == "BitOr":
                return self._bnot(self._band(self._bnot(a), self._bnot(b)))
            if op == "BitXor":
                return self._bnot(self._beq(a, b))
            raise Inconclusive("bool binop " + op)
        if ty not in INT_WIDTH:
            if is_sym(a):
                width = a.size()
                signed = False
            elif is_sym(b):
                width = b.size()
                signed = False
            else:
                raise Inconclusive("binop %s on unknown type %r (%r, %r)" % (op, ty, a, b))
        else:
            width = INT_WIDTH[ty]
            signed = ty.startswith("i")
        sym = is_sym(a) or is_sym(b)
        if op in ("Eq", "Ne", "Lt", "Le", "Gt", "Ge"):
            if not sym:
                if signed:
                    a, b = to_signed(a, width), to_signed(b, width)
                return {"Eq": a == b, "Ne": a != b, "Lt": a < b, "Le": a <= b, "Gt": a > b, "Ge": a >= b}[op]
            A, B = bv(a, width), bv(b, width)
            if op == "Eq":
                return A == B
            if op == "Ne":
                return A != B
            if signed:
                return {"Lt": A < B, "Le": A <= B, "Gt": A > B, "Ge": A >= B}[op]
            return {"Lt": z3.ULT(A, B), "Le": z3.ULE(A, B), "Gt": z3.UGT(A, B), "Ge": z3.UGE(A, B)}[op]
        base = op.replace("WithOverflow", "").replace("Unchecked", "")
        checked = op.endswith("WithOverflow")
        if not sym:
            if signed:
                a, b = to_signed(a, width), to_signed(b, width)
            if base == "Add":
                r = a + b
            elif base == "Sub":
                r = a - b
            elif base == "Mul":
                r = a * b
            elif base == "Div":
                if b == 0:
                    raise RustPanic("attempt to divide by zero")
                r = abs(a) // abs(b) * (1 if (a >= 0) == (b >= 0) else -1)
            elif base == "Rem":
                if b == 0:
                    raise RustPanic("attempt to calculate the remainder with a divisor of zero")
                r = abs(a) % abs(b) * (1 if a >= 0 else -1)
            elif base == "BitAnd":
                r = a & b
            elif base == "BitOr":
                r = a | b
            elif base == "BitXor":
                r = a ^ b
            elif base == "Shl":
                r = a << (b % width)
            elif base == "Shr":
                r = a >> (b % width)
            else:
                raise Inconclusive("binop " + op)
            lo, hi = (-(1 << (width - 1)), (1 << (width - 1)) - 1) if signed else (0, mask(width))
            ovf = not (lo <= r <= hi)
            r &= mask(width)
            return Agg("tuple", None, [r, ovf]) if checked else r
        A, B = bv(a, width), bv(b, width)
        if base == "Add":
            r = A + B
            ovf = z3.Not(z3.BVAddNoOverflow(A, B, signed)) if not signed else z3.Not(z3.And(z3.BVAddNoOverflow(A, B, True), z3.BVAddNoUnderflow(A, B)))
        elif base == "Sub":
            r = A - B
            ovf = z3.Not(z3.BVSubNoUnderflow(A, B, signed)) if not signed else z3.Not(z3.And(z3.BVSubNoOverflow(A, B), z3.BVSubNoUnderflow(A, B, True)))
        elif base == "Mul":
            r = A * B
            ovf = z3.Not(z3.BVMulNoOverflow(A, B, signed))
        elif base == "BitAnd":
            r, ovf = A & B, False
        elif base == "BitOr":
            r, ovf = A | B, False
        elif base == "BitXor":
            r, ovf = A ^ B, False
        elif base == "Div":
            if self.w.branch(B == 0, "div0"):
                raise RustPanic("attempt to divide by zero")
            r, ovf = (A / B if signed else z3.UDiv(A, B)), False
        elif base == "Rem":
            if self.w.branch(B == 0, "rem0"):
                raise RustPanic("attempt to calculate the remainder with a divisor of zero")
            r, ovf = (z3.SRem(A, B) if signed else z3.URem(A, B)), False
        elif base == "Shl":
            r, ovf = A << B, False
        elif base == "Shr":
            r, ovf = (A >> B if signed else z3.LShR(A, B)), False
        else:
            raise Inconclusive("binop " + op)
        r = z3.simplify(r)
        if checked:
            return Agg("tuple", None, [r, z3.simplify(ovf) if is_sym(ovf) else ovf])
        return r

    def _beq(self, a, b):
        if is_sym(a) or is_sym(b):
            return a == b
        return a == b

    def _bnot(self, a):
        return z3.Not(a) if is_sym(a) else (not a)

    def _band(self, a, b):
        if is_sym(a) or is_sym(b):
            if a is False or b is False:
                return False
            if a is True:
                return b
            if b is True:
                return a
            return z3.And(a, b)
        return a and b

    def eval_cast(self, frame, rv, dest):
        f = frame.func
        v = self.eval_operand(frame, rv[1])
        ty = rv[2].strip()
        kind = rv[3]
        if kind.startswith("IntToInt"):
            src_ty = self.operand_type(f, rv[1])
            if isinstance(v, bool):
                return int(v)
            if isinstance(v, Adt):
                v = v.variant
            dw = INT_WIDTH.get(ty)
            if dw is None:
                raise Inconclusive("cast to " + ty)
            if is_sym(v):
                if z3.is_bool(v):
                    return z3.If(v, z3.BitVecVal(1, dw), z3.BitVecVal(0, dw))
                sw = v.size()
                if dw == sw:
                    return v
                if dw < sw:
                    return z3.simplify(z3.Extract(dw - 1, 0, v))
                if src_ty and src_ty.startswith("i"):
                    return z3.simplify(z3.SignExt(dw - sw, v))
                return z3.simplify(z3.ZeroExt(dw - sw, v))
            if src_ty and src_ty.startswith("i") and src_ty in INT_WIDTH:
                v = to_signed(v, INT_WIDTH[src_ty])
            return v & mask(dw)
        if kind.startswith("PointerCoercion(Unsize"):
            return self.unsize(v, ty)
        if kind.startswith("PointerCoercion(ReifyFnPointer") or kind.startswith("PointerCoercion(ClosureFnPointer"):
            return v
        if kind in ("PtrToPtr", "Transmute", "PointerCoercion(MutToConstPointer, Implicit)", "FnPtrToPtr") or kind.startswith("PointerCoercion(MutToConstPointer"):
            return v
        raise Inconclusive("cast kind %s to %s" % (kind, ty))

    def unsize(self, v, ty):
        inner = v
        if isinstance(inner, Ref):
            tgt = inner.loc.get()
            if isinstance(tgt, BufObj):
                if ty.startswith("&mut"):
                    return MutBytesRef(tgt, 0, tgt.sb.length())
                return BytesRef(tgt.sb, "bytes")
            if isinstance(tgt, Agg) and tgt.kind == "array":
                return SliceRef(tgt.fields)
            if isinstance(tgt, VecObj):
                return SliceRef(tgt.items)
            return v     # &T -> &dyn Trait
        return v         # Box<T> -> Box<dyn Trait>, etc.

    def eval_aggregate(self, frame, rv, dest):
        kind = rv[1]
        f = frame.func
        if kind[0] == "tuple":
            vals = [self.eval_operand(frame, o) for o in rv[2]]
            if not vals:
                return UNIT
            return Agg("tuple", None, vals)
        if kind[0] == "array":
            vals = [self.eval_operand(frame, o) for o in rv[2]]
            ty = self.place_type(f, dest) or ""
            if ty.startswith("[u8;"):
                if all(isinstance(x, int) for x in vals):
                    return BufObj("array", bytes(vals))
                return BufObj("array", SBytes([bytes([x]) if isinstance(x, int) else sb.SymByte(x) for x in vals]))
            return Agg("array", ty, vals)
        if kind[0] == "closure":
            ops = [o for _, o in rv[2]]
            body = self.idx.closures.get(kind[1])
            if body is not None and closure_upvar_count(body) > len(ops):
                ops = self.reconstruct_captures(frame, kind[1], body, ops)
            vals = [self.eval_operand(frame, o) for o in ops]
            return Agg("closure", kind[1], vals, None)
        if kind[0] == "coroutine":
            vals = [self.eval_operand(frame, o) for _, o in rv[2]]
            body = self.prog.funcs.get(f.name + "::{closure#0}")
            if body is None:
                raise Inconclusive("coroutine body of %s" % f.name)
            return Coroutine(kind[1], body, vals, [n for n, _ in rv[2]])
        head = kind[1]
        segs = path_segments(head)
        if kind[0] == "adt":
            names = [n for n, _ in rv[2]]
            vals = [self.eval_operand(frame, o) for _, o in rv[2]]
            # struct or struct-like enum variant
            order = self.struct_field_order(segs)
            if order is None:
                # a type that is not declared in the source (macro-generated, e.g. serde's __SerializeWith):
                # rustc prints aggregate operands in field-declaration order
                order = list(names)
            fields = [MOVED] * len(order)
            for n, v in zip(names, vals):
                if n not in order:
                    raise Inconclusive("field %s of %s" % (n, head))
                fields[order.index(n)] = v
            return Agg("struct", "::".join(segs), fields, order)
        if kind[0] in ("adt_tuple", "adt_unit"):
            vals = [self.eval_operand(frame, o) for o in rv[2]]
            # enum variant: last seg is the variant, previous is the enum
            if len(segs) >= 2:
                vs = self.enum_variants(segs[:-1])
                if vs and segs[-1] in vs:
                    en = "ssri::Error" if (segs[-2] == "Error" and len(segs) >= 3 and segs[-3] == "ssri") else segs[-2]
                    return Adt(en, vs.index(segs[-1]), segs[-1], vals)
            # bare variant name: the enum is the destination's declared type
            dty = self.place_type(f, dest)
            if dty:
                dsegs = base_type_name(dty)
                try:
                    vs = self.enum_variants(dsegs)
                except Inconclusive:
                    vs = None
                if vs and segs[-1] in vs:
                    return Adt(dsegs[-1] if dsegs[-1] != "Error" or len(dsegs) < 2 or dsegs[-2] != "ssri" else "ssri::Error",
                               vs.index(segs[-1]), segs[-1], vals)
            # tuple struct / unit struct
            return Agg("struct", "::".join(segs), vals)
        raise Inconclusive("aggregate %r" % (kind,))

    def reconstruct_captures(self, frame, cty, body, ops):
        """rustc prints a closure aggregate by zipping the captured *places* with the *variables*
        mentioned, so a closure capturing several disjoint fields of one variable loses operands in the
        dump.  Recover them from (a) the capture types the closure body declares, (b) the reference
        temporaries rustc materialises right before the aggregate and (c) the field types of the
        captured struct.  Anything ambiguous is INCONCLUSIVE."""
        f = frame.func
        need = closure_upvar_count(body)
        # capture types from the body: (_1.k: T) or ((*_1).k: T)
        tys = {}
        def scan_place(pl):
            if pl.local != 1:
                return
            proj = pl.proj
            if proj and proj[0][0] == "deref":
                proj = proj[1:]
            if proj and proj[0][0] == "field":
                tys.setdefault(proj[0][1], proj[0][2])
        for b in body.blocks.values():
            for st in b.stmts:
                if st[0] == "assign":
                    scan_place(st[1])
                    rv = st[2]
                    if rv[0] == "use" and rv[1][0] in ("copy", "move"):
                        scan_place(rv[1][1])
                    elif rv[0] in ("ref", "rawptr"):
                        scan_place(rv[2])
            if b.term[0] == "call":
                for a in b.term[3]:
                    if a[0] in ("copy", "move"):
                        scan_place(a[1])
            elif b.term[0] == "drop":
                scan_place(b.term[1])
        # locate the aggregate statement and the ref temporaries assigned just before it
        where = None
        for bb, blk in f.blocks.items():
            for i, st in enumerate(blk.stmts):
                if st[0] == "assign" and st[2][0] == "aggregate" and st[2][1][0] == "closure" and st[2][1][1] == cty:
                    where = (blk, i)
        if where is None:
            raise Inconclusive("closure aggregate %s not found for capture reconstruction" % cty)
        blk, idx = where
        ref_temps = []      # (local, place)
        for st in blk.stmts[:idx]:
            if st[0] == "assign" and not st[1].proj and st[2][0] == "ref":
                ref_temps.append((st[1].local, st[2][2], st[2][1]))
        used = set()
        for o in ops:
            if o[0] in ("copy", "move") and not o[1].proj:
                used.add(o[1].local)
        # base local of the by-value captures
        base = None
        for o in ops:
            if o[0] in ("copy", "move") and o[1].proj and o[1].proj[-1][0] == "field":
                base = Place(o[1].local, o[1].proj[:-1])
        taken = {o[1].proj[-1][1] for o in ops if o[0] in ("copy", "move") and o[1].proj and o[1].proj[-1][0] == "field"}
        out = list(ops)
        for k in range(len(ops), need):
            ty = (tys.get(k) or "").strip()
            if not ty:
                raise Inconclusive("capture %d of %s has no declared type" % (k, cty))
            if ty.startswith("&"):
                cand = [(l, pl) for (l, pl, mut) in ref_temps if l not in used and f.locals.get(l, "").replace("'_ ", "").strip() == ty.replace("'_ ", "").strip()]
                if not cand:
                    raise Inconclusive("no reference temporary for capture %d (%s) of %s" % (k, ty, cty))
                l, pl = cand[0]
                used.add(l)
                out.append(("copy", Place(l)))
                if base is None and pl.proj and pl.proj[-1][0] == "field":
                    base = Place(pl.local, pl.proj[:-1])
                if pl.proj and pl.proj[-1][0] == "field":
                    taken.add(pl.proj[-1][1])
                continue
            if base is None:
                raise Inconclusive("cannot locate the captured variable of %s" % cty)
            bty = self.place_type(f, base)
            from .models.serde import struct_decl
            decl = struct_decl(self, base_type_name(bty)[-1]) if bty else None
            if not decl:
                raise Inconclusive("captured variable of %s is not a known struct (%s)" % (cty, bty))
            pick = None
            for j, (fname, fty) in enumerate(decl):
                if j in taken or (taken and j < max(taken) and False):
                    continue
                if type_match(fty, ty) and type_match(ty, fty):
                    pick = j
                    break
            if pick is None:
                raise Inconclusive("no field of %s matches capture %d (%s) of %s" % (bty, k, ty, cty))
            taken.add(pick)
            out.append(("move", Place(base.local, base.proj + (("field", pick, ty),))))
        self.w.notes.append("reconstructed %d captures of %s" % (need - len(ops), cty))
        return out

    def struct_field_order(self, segs):
        name = segs[-1]
        try:
            hit = self.src.struct_fields(segs)
        except KeyError as e:
            raise Inconclusive(str(e))
        if hit:
            return hit[1]
        if name in STD_STRUCTS:
            return STD_STRUCTS[name]
        return self.models.struct_fields(name)

    # ------------------------------------------------------------------ control
    def exec_switch(self, frame, t):
        v = self.eval_operand(frame, t[1])
        if isinstance(v, bool):
            v = int(v)
        if isinstance(v, Adt):
            v = v.variant
        arms, otherwise = t[2], t[3]
        if not is_sym(v):
            for k, bb in arms:
                if k == v:
                    return bb
            if otherwise is None:
                raise Inconclusive("switch without matching arm")
            return otherwise
        if z3.is_bool(v):
            # arms over 0/1
            for k, bb in arms:
                cond = v if k == 1 else z3.Not(v)
                if self.w.branch(cond, "switch"):
                    return bb
            return otherwise
        for k, bb in arms:
            if self.w.branch(v == z3.BitVecVal(k, v.size()), "switch"):
                return bb
        return otherwise

    def exec_call(self, frame, t):
        _, dest, callee, argops, ret, unwind = t
        args = [self.eval_operand(frame, o) for o in argops]
        if callee[0] == "operand":
            fv = self.eval_operand(frame, callee[1])
            res = self.call_value(fv, args)
        else:
            res = self.call_path(callee[1], args, frame)
        if ret is None:
            raise Inconclusive("diverging call returned: %s" % callee[1].get("raw"))
        if dest is not None:
            self.resolve(frame, dest).set(res)
        return ret

    # ------------------------------------------------------------------ calls
    def call_value(self, fv, args):
        """Call a closure / fn item value with already-unpacked args."""
        if isinstance(fv, Ref):
            fv = fv.get()
        if isinstance(fv, FnItem):
            return self.call_path(fv.desc, args, None)
        if isinstance(fv, Agg) and fv.kind == "closure":
            f = self.idx.closures.get(fv.ty)
            if f is None:
                raise Inconclusive("closure body for %s" % fv.ty)
            need = closure_upvar_count(f)
            if need > len(fv.fields):
                # rustc's MIR printer zips the captured places with the *variables* mentioned, so a closure
                # capturing several disjoint fields of one variable is printed with too few operands
                raise Inconclusive("closure %s captures %d places but the MIR dump prints %d (disjoint field captures)"
                                   % (fv.ty, need, len(fv.fields)))
            pty = f.params[0][1].strip()
            if pty.startswith("&"):
                recv = Ref(ValLoc(fv), pty.startswith("&mut"))
            else:
                recv = fv
            return self.run_fn(f, [recv] + list(args))
        if hasattr(fv, "call"):
            return fv.call(self, args)
        raise Inconclusive("call of %r" % (fv,))

    def call_path(self, desc, args, frame):
        """Resolve and call."""
        key = desc["raw"]
        target = self.idx.cache.get(key)
        if target is None:
            target = self.resolve_callee(desc)
            if target[0] != "dynamic":
                self.idx.cache[key] = target
        if target[0] == "local":
            return self.run_fn(target[1], args)
        if target[0] == "local_deref":
            # blanket impls for references (PartialEq for &A etc.) forward to the pointee's impl
            n = target[2]
            peeled = []
            for a in args:
                for _ in range(n):
                    if isinstance(a, Ref) and isinstance(a.get(), Ref):
                        a = a.get()
                peeled.append(a)
            return self.run_fn(target[1], peeled)
        if target[0] == "model":
            self.models_used.add(target[2])
            self.w.tick(5)
            return target[1](self, args, desc)
        if target[0] == "dynamic":
            return self.call_trait_method(desc["trait_name"], desc["method"], args, desc)
        raise Inconclusive("unresolved callee %s" % key)

    def resolve_callee(self, desc):
        if desc["kind"] == "qualified":
            selfty = desc["self"].strip()
            tsegs = base_type_name(selfty)
            trait = desc["trait_name"]
            if trait is None:
                # <T>::method  (inherent via qualified path)
                f = self.idx.find_method(tsegs, None, desc["segs"])
                if f:
                    return ("local", f)
            else:
                f = self.idx.find_method(tsegs, trait, desc["segs"], selfty)
                if f:
                    nref = len(re.findall(r"&", selfty.split("<")[0]))
                    if nref and trait in ("PartialEq", "PartialOrd", "Ord", "Eq", "Hash", "Display", "Debug"):
                        return ("local_deref", f, nref)
                    return ("local", f)
            # generic parameter / dynamic dispatch on the receiver
            if re.fullmatch(r"_*[A-Z][A-Za-z0-9]?", tsegs[-1]) and tsegs[-1] not in self.idx.local_types and len(tsegs) == 1 \
                    and tsegs[-1] not in ("Vec", "Box", "Rc", "Arc"):
                return ("dynamic",)
            m = self.models.lookup_trait(trait, desc["method"], selfty)
            if m:
                return ("model", m[0], m[1])
            raise Inconclusive("unmodelled callee <%s as %s>::%s" % (selfty, trait, desc["method"]))
        segs = desc["segs"]
        # Type::method[::inner]
        for i in range(len(segs) - 1, -1, -1):
            s = segs[i]
            if s[:1].isupper() and i < len(segs) - 1 and s in self.idx.trait_impls:
                f = self.idx.find_method(segs[:i + 1], None, segs[i + 1:])
                if f:
                    return ("local", f)
        if not any(s[:1].isupper() for s in segs[:-1]) or True:
            f = self.idx.find_free(segs) if not _has_type_seg(segs, self.idx) else None
            if f:
                return ("local", f)
        m = self.models.lookup_path(segs)
        if m:
            return ("model", m[0], m[1])
        # tuple-struct / enum-variant constructor used as a function
        if len(segs) >= 2:
            vs = None
            try:
                vs = self.enum_variants(segs[:-1])
            except Inconclusive:
                vs = None
            if vs and segs[-1] in vs:
                en, vn, idx_ = segs[-2], segs[-1], vs.index(segs[-1])
                return ("model", lambda I, a, d: Adt(en, idx_, vn, a), "ctor:" + "::".join(segs))
        raise Inconclusive("unmodelled callee %s" % "::".join(segs))

    def type_name_of(self, v):
        """Runtime type name segments of a value, for trait dispatch."""
        while True:
            if isinstance(v, Ref):
                v = v.get()
            elif isinstance(v, Agg) and v.kind == "struct" and v.ty == "Pin":
                v = v.fields[0]
            else:
                break
        if isinstance(v, Agg) and v.kind == "struct":
            return path_segments(v.ty)
        if isinstance(v, Adt):
            return (v.ty,)
        if hasattr(v, "rust_type"):
            return (v.rust_type,)
        return None

    def _method_by_receiver_type(self, tyname, method, nargs):
        cache = getattr(self, "_recv_cache", None)
        if cache is None:
            cache = self._recv_cache = {}
        k = (tyname, method, nargs)
        if k not in cache:
            hits = []
            for f in list(self.prog.funcs.values()) + [x for fs in self.prog.dups.values() for x in fs]:
                if not f.params or len(f.params) != nargs or not f.name.endswith("::" + method):
                    continue
                t0 = f.params[0][1].strip().lstrip("&").replace("mut ", "").strip()
                t0 = re.sub(r"<.*", "", t0).split("::")[-1]
                if t0 == tyname and f not in hits:
                    hits.append(f)
            cache[k] = hits[0] if len(hits) == 1 else None
        return cache[k]

    def call_trait_method(self, trait, method, args, desc=None):
        """Dynamic dispatch on the runtime value of the receiver (args[0])."""
        recv = args[0] if args else None
        tn = self.type_name_of(recv)
        if tn is not None:
            f = self.idx.find_method(tn, trait, (method,))
            if f:
                return self.run_fn(f, args)
            # types that are not declared in the source (macro-generated helper structs): dispatch on the printed
            # type of the method's first parameter
            f = self._method_by_receiver_type(tn[-1], method, len(args))
            if f:
                return self.run_fn(f, args)
        if trait in ("FnOnce", "FnMut", "Fn"):
            # args = (callable, tuple-of-args)
            tup = args[1]
            unpacked = list(tup.fields) if isinstance(tup, Agg) else []
            return self.call_value(args[0], unpacked)
        m = self.models.lookup_trait(trait, method, None, recv)
        if m:
            self.models_used.add(m[1])
            return m[0](self, args, desc or {"trait_name": trait, "method": method, "self": "?", "raw": "%s::%s" % (trait, method)})
        raise Inconclusive("no impl of %s::%s for runtime value %r" % (trait, method, recv))

    # ------------------------------------------------------------------ drops
    def drop_value(self, v):
        if isinstance(v, (_Moved, int, bool, Ref, BytesRef, MutBytesRef, SliceRef, FnItem)) or v is UNIT or is_sym(v) or v is None:
            return
        if isinstance(v, (Agg, Adt)):
            tn = path_segments(v.ty) if isinstance(v.ty, str) and v.ty and not v.ty.startswith("{") else None
            for x in v.fields:
                self.drop_value(x)
            return
        if isinstance(v, BufObj):
            return
        if isinstance(v, VecObj):
            for x in v.items:
                self.drop_value(x)
            return
        if isinstance(v, BoxV):
            self.drop_value(v.cell.v)
            return
        if isinstance(v, Coroutine):
            self.drop_coroutine(v)
            return
        if hasattr(v, "rust_drop"):
            v.rust_drop(self)
            return
        # opaque model values without drop significance
        return

    def drop_coroutine(self, co):
        """Drop of a coroutine == running the cleanup path of its current suspension point
        (this is how rustc builds the coroutine drop shim)."""
        f = co.body
        if co.state == 0:
            for x in co.upvars:
                self.drop_value(x)
            co.state = 1
            return
        if co.state in (1, 2):
            return
        # find the resume block of this state
        blk0 = f.blocks[0]
        if blk0.term[0] != "switch":
            raise Inconclusive("coroutine entry of %s" % f.name)
        target = None
        for k, bb in blk0.term[2]:
            if k == co.state:
                target = bb
        if target is None:
            raise Inconclusive("coroutine state %d of %s" % (co.state, f.name))
        # follow straight-line code to the poll call and take its unwind edge
        seen = set()
        bb = target
        unwind_bb = None
        while bb not in seen:
            seen.add(bb)
            t = f.blocks[bb].term
            if t[0] == "goto":
                bb = t[1]
                continue
            if t[0] == "call":
                d = t[2][1] if t[2][0] == "path" else None
                if d and d.get("method") == "poll" or (d and d["segs"][-1:] == ("poll",)):
                    if t[5] and t[5][0] == "goto":
                        unwind_bb = t[5][1]
                    break
                bb = t[4]
                continue
            break
        if unwind_bb is None:
            raise Inconclusive("cannot derive drop path of coroutine %s state %d" % (f.name, co.state))
        # run the cleanup chain with a synthetic frame whose _1 is a pinned pointer to the coroutine
        frame = Frame(f)
        for l in f.locals:
            frame.locals[l] = Cell()
        cell = Cell(co)
        frame.locals[1].v = Agg("struct", "Pin", [Ref(CellLoc(cell), True)])
        # locals derived from _1 in bb0 (e.g. _29 = copy (_1.0))
        for st in blk0.stmts:
            self.exec_stmt(frame, st)
        bb = unwind_bb
        while True:
            blk = f.blocks[bb]
            for st in blk.stmts:
                self.exec_stmt(frame, st)
            t = blk.term
            if t[0] == "drop":
                loc = self.resolve(frame, t[1])
                v = loc.get()
                if not isinstance(v, _Moved):
                    self.drop_value(v)
                    loc.set(MOVED)
                bb = t[2]
            elif t[0] == "goto":
                bb = t[1]
            elif t[0] == "switch":
                bb = self.exec_switch(frame, t)
            elif t[0] == "resume":
                break
            else:
                raise Inconclusive("coroutine drop path: terminator %s" % t[0])
        co.state = 1


def _has_type_seg(segs, idx):
    """A path like HashSet::insert must not be mistaken for the local fn `insert`."""
    for s in segs[:-1]:
        if s[:1].isupper() and s not in idx.local_types:
            return True
    return False
