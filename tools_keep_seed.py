#!/usr/bin/env python3
"""tools_keep_seed.py <prop> <worktree> [--as NAME] : copy a confirmed seeded defect into /verif/seeded/<NAME>/"""
import json, os, shutil, sys
pid, src = sys.argv[1], sys.argv[2]
name = sys.argv[sys.argv.index("--as") + 1] if "--as" in sys.argv else pid
d = '/verif/seeded/%s' % name
os.makedirs(d, exist_ok=True)
shutil.copy(src + '/SEEDED/patch.diff', d + '/patch.diff')
shutil.copy(src + '/SEEDED/seeded_demo.rs', d + '/seeded_demo.rs')
m = json.load(open(src + '/SEEDED/meta.json')) if os.path.exists(src + '/SEEDED/meta.json') else {}
base = os.popen("git -C %s rev-parse --short HEAD" % src).read().strip()
meta = {"property": pid, "summary": m.get("summary"), "needs": m.get("needs"), "flavours_affected": m.get("flavours_affected"),
        "base_commit": base,
        "confirmed_by_me": {"ran": "tools_verify_seed.sh <worktree>: builds in 3 flavours; `cargo test --offline --lib` 38 passed with the patch; "
                                   "`cargo test --offline --test seeded_demo` fails with the patch and passes without it", "result": "confirmed"},
        "caught_by": None, "note": ""}
if os.path.exists(d + '/meta.json'):
    old = json.load(open(d + '/meta.json'))
    meta["caught_by"] = old.get("caught_by")
    meta["note"] = old.get("note", "")
json.dump(meta, open(d + '/meta.json', 'w'), indent=1)
print("kept", d)
